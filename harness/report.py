"""Parsers: ssh-audit text / JSON reports -> plain records. Transport only; no rating knowledge."""
import json
import re

ANSI = re.compile(r'\x1b\[[0-9;]*m')
SIZE_SUFFIX = re.compile(r' \((\d+)-bit(?: cert/(\d+)-bit (\S+) CA)?\)$')
CATS = ('kex', 'key', 'enc', 'mac', 'aut')
NOTE = re.compile(r'\[(fail|warn|info)\] (.*)$')


class ParseError(Exception):
    pass


def strip_ansi(s):
    return ANSI.sub('', s)


def parse_text(stdout, verbose=False):
    """Returns dict:
       algs: {cat: [ {name, size, casize, catype, notes: [(level, text)], levels: [..]} ]}  in order of appearance
       gen: {key: value}, header: [...], fin: [(type, hash, note)], rec: [(sign, name, cat, action, notes, colour_level)], nfo: [...],
       other: [lines that are not recognised], sections: [titles]
    """
    text = strip_ansi(stdout)
    out = {'algs': {c: [] for c in CATS}, 'gen': {}, 'fin': [], 'rec': [], 'nfo': [], 'other': [], 'sections': [],
           'sec': [], 'unknown_warning': None, 'policy': {}}
    cur = None
    lines = text.split('\n')
    i = 0
    while i < len(lines):
        line = lines[i]
        i += 1
        if line.strip() == '':
            continue
        if line.startswith('# '):
            out['sections'].append(line[2:].strip())
            cur = None
            continue
        m = re.match(r'^\((\w{3})\) (.*)$', line)
        if m and m.group(1) in CATS:
            cat, rest = m.group(1), m.group(2)
            if ' -- [' in rest:
                head, note = rest.split(' -- [', 1)
                note = '[' + note
            else:
                head, note = rest, None
            head = head.rstrip(' ')
            size = casize = catype = None
            ms = SIZE_SUFFIX.search(head)
            name = head
            if ms:
                name = head[:ms.start()]
                size = int(ms.group(1))
                if ms.group(2):
                    casize, catype = int(ms.group(2)), ms.group(3)
            lv = None
            if note is not None:
                mn = NOTE.match(note)
                if not mn:
                    raise ParseError('bad note in %r' % line)
                lv = (mn.group(1), mn.group(2))
            lst = out['algs'][cat]
            # verbose mode repeats the prefix for every note of the same algorithm
            if verbose:
                # -v repeats the full prefix for every note; grouping lines into algorithms is ambiguous when a name is
                # advertised twice, so verbose reports are returned one entry per line (see rating.regroup_verbose)
                lst.append({'cat': cat, 'name': name, 'head': head, 'size': size, 'casize': casize, 'catype': catype,
                            'notes': [lv] if lv else []})
                cur = None
                continue
            if cur is not None and cur['cat'] == cat and cur['head'] == head and lv is not None and cur['notes'] and lv not in cur['notes'] \
                    and _lvl(lv[0]) >= _lvl(cur['notes'][-1][0]) and cur.get('verbose_like', True):
                cur['notes'].append(lv)
                continue
            cur = {'cat': cat, 'name': name, 'head': head, 'size': size, 'casize': casize, 'catype': catype,
                   'notes': [lv] if lv else []}
            lst.append(cur)
            continue
        m = re.match(r'^\s+`- \[(fail|warn|info)\] (.*)$', line)
        if m and cur is not None:
            cur['notes'].append((m.group(1), m.group(2)))
            cur['verbose_like'] = False
            continue
        m = re.match(r'^\(gen\) ([^:]+): ?(.*)$', line)
        if m:
            k = m.group(1)
            if k == 'header':
                hdr = [m.group(2)]
                # header lines continue until the next "(gen)" line
                while i < len(lines) and not lines[i].startswith('(') and not lines[i].startswith('#') and lines[i] != '':
                    hdr.append(lines[i])
                    i += 1
                out['header'] = hdr
            else:
                out['gen'][k] = m.group(2)
            cur = None
            continue
        if line.startswith('(gen) '):
            out['gen'].setdefault('_flags', []).append(line[6:])
            cur = None
            continue
        m = re.match(r'^\(fin\) ([^:]+): (\S+)(?: -- \[info\] (.*))?$', line)
        if m:
            out['fin'].append((m.group(1), m.group(2), m.group(3)))
            cur = None
            continue
        m = re.match(r'^\(rec\) ([-+!])(\S+?)\s*-- (\w+) algorithm to (\w+)(?: \((.*)\))? ?$', line)
        if m:
            out['rec'].append({'sign': m.group(1), 'name': m.group(2), 'cat': m.group(3), 'action': m.group(4), 'notes': m.group(5) or ''})
            cur = None
            continue
        if line.startswith('(nfo) '):
            out['nfo'].append(line[6:])
            cur = None
            continue
        if line.startswith('(sec) '):
            out['sec'].append(line[6:])
            cur = None
            continue
        if line.startswith('!!! WARNING: unknown algorithm(s) found!: '):
            out['unknown_warning'] = line
            continue
        m = re.match(r'^(Host|Policy|Result|Client IP):\s*(.*)$', line)
        if m:
            out['policy'][m.group(1)] = m.group(2)
            continue
        out['other'].append(line)
        cur = None
    for c in CATS:
        for a in out['algs'][c]:
            a['levels'] = [l for l, _ in a['notes']]
            a.pop('verbose_like', None)
    return out


def _lvl(l):
    return {'fail': 0, 'warn': 1, 'info': 2}[l]


def colour_of_lines(stdout):
    """[(colour_code or None, plain_text)] per line, for C15's 'colour only wraps' law."""
    res = []
    for line in stdout.split('\n'):
        m = re.match(r'^\x1b\[0;(\d+)m(.*)\x1b\[0m$', line, re.S)
        if m:
            res.append((int(m.group(1)), m.group(2)))
        else:
            res.append((None, line))
    return res


def parse_json(stdout):
    """stdout must be exactly one JSON document (trailing newline allowed)."""
    return json.loads(stdout)


def json_algs(doc):
    """{cat: [ {name, notes:{fail,warn,info}, keysize, casize, ca_algorithm} ]}"""
    out = {}
    for c in ('kex', 'key', 'enc', 'mac'):
        out[c] = []
        for e in doc.get(c, []) or []:
            if isinstance(e, str):
                out[c].append({'name': e, 'notes': {}})
                continue
            out[c].append({'name': e.get('algorithm'), 'notes': e.get('notes', {}), 'keysize': e.get('keysize'),
                           'casize': e.get('casize'), 'ca_algorithm': e.get('ca_algorithm')})
    return out


def json_recs(doc):
    res = []
    for level, acts in (doc.get('recommendations') or {}).items():
        for action, cats in acts.items():
            for cat, items in cats.items():
                for it in items:
                    res.append({'level': level, 'action': action, 'cat': cat, 'name': it['name'], 'notes': it.get('notes', '')})
    return res
