"""Runs the real ssh-audit CLI (ssh-audit.py's __main__ block, unmodified) in forked
children behind the fake network, many at a time.

A scenario is a dict:
  argv      [str]            command line without the program name; '{tmp}' is replaced by a per-run scratch dir
  servers   {(ip,port): ServerCfg | 'timeout'}
  resolver  {host: [(family, ip)] | Exception}
  clients   [ClientCfg]      scripted clients for -c audits
  files     {name: str}      written into the scratch dir before the run
  collect   [name]           files to read back from the scratch dir afterwards
  rtt       float            virtual seconds charged per connect
  observe   bool             install the guarded observation wrappers (observe.py)
  setup     callable(world)  last-minute hook inside the child (gates, schedules)
The result is a plain dict (see _child).
"""
import gc
import io
import os
import pickle
import select
import shutil
import signal
import sys
import tempfile
import time
import traceback

REPO = os.environ.get('VERIF_REPO', '/repo')
SCRIPT = os.path.join(REPO, 'ssh-audit.py')
_real_time = time.time
_real_cpu = time.process_time
_real_select = select.select

_loaded = False


def load_repo():
    """Import the working tree once in the warm parent (children inherit it by fork)."""
    global _loaded
    if _loaded:
        return
    src = os.path.join(REPO, 'src')
    if src not in sys.path:
        sys.path.insert(0, src)
    import ssh_audit.ssh_audit  # noqa: F401
    import ssh_audit.dheat  # noqa: F401
    mod = sys.modules['ssh_audit.ssh_audit']
    if not os.path.realpath(mod.__file__).startswith(os.path.realpath(src)):
        raise RuntimeError('ssh_audit imported from %s, not from %s' % (mod.__file__, src))
    _loaded = True


def _child(sc, wfd):
    from . import fakenet, peers, observe
    res = {'exit': None, 'stdout': '', 'stderr': '', 'events': [], 'open': 0, 'waits': 0, 'waited': 0.0,
           'uncaught': None, 'files': {}, 'nconn': 0}
    tmp = tempfile.mkdtemp(prefix='vrun-')
    cpu0 = _real_cpu()
    try:
        signal.alarm(int(sc.get('alarm', 60)))
        world = fakenet.World()
        world.rtt = sc.get('rtt', 0.005)
        for addr, cfg in sc.get('servers', {}).items():
            if cfg == 'timeout':
                world.servers[addr] = fakenet.TimeoutServer()
            else:
                world.servers[addr] = peers.server_factory(cfg)
        world.resolver = dict(sc.get('resolver', {}))
        world.clients = [peers.client_factory(c) for c in sc.get('clients', [])]
        for name, content in sc.get('files', {}).items():
            with open(os.path.join(tmp, name), 'w', encoding='utf-8', newline='') as f:
                f.write(content)
        argv = [a.replace('{tmp}', tmp) for a in sc['argv']]
        res['argv'] = list(sc['argv'])
        out_path = os.path.join(tmp, '.stdout')
        err_path = os.path.join(tmp, '.stderr')
        sys.stdout = open(out_path, 'w', encoding='utf-8', errors='strict')
        sys.stderr = open(err_path, 'w', encoding='utf-8', errors='backslashreplace')
        sys.argv = [SCRIPT] + argv
        for k in sc.get('env_unset', ('NO_COLOR',)):
            os.environ.pop(k, None)
        for k, v in sc.get('env', {}).items():
            os.environ[k] = v
        os.chdir(tmp)
        if sc.get('fresh'):
            # start from the state of a new process: the modules of the tool are imported anew (the warm parent may have used them -
            # in-process legs of a check - and first-use initialisers, caches and per-thread tables would be inherited as they were left)
            for m in [m for m in sys.modules if m == 'ssh_audit' or m.startswith('ssh_audit.')]:
                del sys.modules[m]
        fakenet.install(world)
        if sc.get('observe'):
            os.environ['SSH_AUDIT_VERIF'] = '1'
            observe.install(world)
        if sc.get('setup') is not None:
            sc['setup'](world)
        import runpy
        code = None
        try:
            entry = sc.get('entry', 'script')
            if entry == 'script':                  # ./ssh-audit.py
                runpy.run_path(SCRIPT, run_name='__main__')
                code = 0
            elif entry == 'module':                # python -m ssh_audit
                sys.modules.pop('ssh_audit.__main__', None)
                runpy.run_module('ssh_audit', run_name='__main__', alter_sys=True)
                code = 0
            elif entry == 'inner':                 # python -m ssh_audit.ssh_audit
                runpy.run_module('ssh_audit.ssh_audit', run_name='__main__', alter_sys=True)
                code = 0
            elif entry == 'console':               # the console script of setup.cfg: sys.exit(main())
                import importlib
                sys.exit(importlib.import_module('ssh_audit.ssh_audit').main())
            else:
                raise ValueError('unknown entry %r' % entry)
        except SystemExit as e:
            code = e.code
            if code is None:
                code = 0
            elif not isinstance(code, int):
                code = 1
        except BaseException:
            res['uncaught'] = traceback.format_exc()
            code = 1
        finally:
            try:
                sys.stdout.flush()
                sys.stderr.flush()
            except Exception as e:
                res['flush_error'] = repr(e)
        res['exit'] = code & 0xff
        gc.collect()
        res['open'] = len(world.open_socks())
        res['open_list'] = [r['n'] for r in world.open_socks()]
        res['waits'] = world.clock.waits
        res['waited'] = world.clock.waited
        res['vtime'] = world.clock.now - 1_700_000_000.0
        res['nconn'] = world.nconn
        res['runaway'] = world.runaway
        res['events'] = world.events
        if getattr(world, 'sched', None) is not None:
            res['sched'] = world.sched.summary()
        with open(out_path, 'r', encoding='utf-8', errors='replace', newline='') as f:
            res['stdout'] = f.read()
        with open(err_path, 'r', encoding='utf-8', errors='replace', newline='') as f:
            res['stderr'] = f.read()
        for name in sc.get('collect', []):
            p = os.path.join(tmp, name)
            if os.path.exists(p):
                with open(p, 'r', encoding='utf-8', errors='replace', newline='') as f:
                    res['files'][name] = f.read()
    except BaseException:
        res['harness_error'] = traceback.format_exc()
    finally:
        signal.alarm(0)
        # processor time of the scenario process (the tool and the fake peers; real, not virtual, and little affected by the load of the machine)
        res['cpu'] = _real_cpu() - cpu0
        try:
            data = pickle.dumps(res)
        except Exception:
            data = pickle.dumps({'harness_error': 'unpicklable result: ' + traceback.format_exc()})
        try:
            with os.fdopen(wfd, 'wb') as w:
                w.write(data)
        finally:
            shutil.rmtree(tmp, ignore_errors=True)
            os._exit(0)


def run_many(scenarios, jobs=None, progress=None):
    """Run every scenario; returns results in order."""
    load_repo()
    jobs = jobs or int(os.environ.get('VERIF_JOBS', os.cpu_count() or 4))
    scenarios = list(scenarios)
    results = [None] * len(scenarios)
    active = {}
    nxt = 0
    done = 0
    sys.stdout.flush()
    sys.stderr.flush()
    while nxt < len(scenarios) or active:
        while nxt < len(scenarios) and len(active) < jobs:
            r, w = os.pipe()
            pid = os.fork()
            if pid == 0:
                os.close(r)
                for fd in list(active):
                    try:
                        os.close(fd)
                    except OSError:
                        pass
                _child(scenarios[nxt], w)
                os._exit(0)
            os.close(w)
            active[r] = (nxt, pid, [])
            nxt += 1
        rl, _, _ = _real_select(list(active), [], [], 5.0)
        for fd in rl:
            idx, pid, buf = active[fd]
            chunk = os.read(fd, 1 << 20)
            if chunk:
                buf.append(chunk)
                continue
            os.close(fd)
            del active[fd]
            _, status = os.waitpid(pid, 0)
            data = b''.join(buf)
            if data:
                try:
                    res = pickle.loads(data)
                except Exception:
                    res = {'harness_error': 'bad pickle'}
            else:
                sig = os.WTERMSIG(status) if os.WIFSIGNALED(status) else None
                res = {'exit': None, 'hang': sig == signal.SIGALRM, 'killed': sig, 'stdout': '', 'stderr': '',
                       'events': [], 'open': 0}
            results[idx] = res
            done += 1
            if progress and done % 500 == 0:
                progress(done, len(scenarios))
    return results


def run_one(sc):
    return run_many([sc], jobs=1)[0]
