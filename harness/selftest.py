"""./check selftest [seeds] [benign]: demonstrate that the specifications are bound to the code.

 1. trace corruption: recorded traces of real runs with one field changed / one event dropped / a wrong exit status must be
    rejected by the trace specifications, with the right clause where the specification names one;
 2. (with the argument `seeds`) every confirmed seeded change in /verif/seeded is applied to a scratch copy of the repository
    (outside /repo and /verif, removed afterwards) and the check named in its meta.json must report a VIOLATION.
"""
import copy
import json
import os
import shutil
import subprocess
import tempfile

from . import common, runner


def run(args):
    ok = True
    from checks import rating, audit, multi, c07, c09
    from harness import peers
    ck = common.Check('SELFTEST', 'quick')
    # --- TraceRating ---------------------------------------------------------
    c = rating.mk_case(1, kex=['curve25519-sha256', 'diffie-hellman-group1-sha1'], key=['ssh-ed25519'], enc=['aes128-ctr', '3des-cbc'], mac=['hmac-sha1'])
    r = runner.run_one(rating.scenario(c, 'text', observe=True))
    r2 = copy.deepcopy(r)
    for e in r2['events']:
        if e.get('ev') == 'rated' and e['name'] == '3des-cbc':
            e['after'] = 2
    r3 = copy.deepcopy(r)
    r3['events'] = [e for e in r3['events'] if not (e.get('ev') == 'rated' and e['name'] == 'aes128-ctr')]
    r4 = copy.deepcopy(r)
    r4['exit'] = 2
    r5 = copy.deepcopy(r)
    for e in r5['events']:
        if e.get('ev') == 'rated' and e['name'] == 'hmac-sha1':
            e['calls'] = e['calls'][1:]
    got = [v for v, _ in rating.validate_traces(ck, [(c, r), (c, r2), (c, r3), (c, r4), (c, r5)])]
    want = ['accept', 'reject status-after', 'reject name', 'reject exit-status', 'reject levels']
    print('TraceRating:', got)
    ok &= got == want
    # --- TraceAudit ----------------------------------------------------------
    cfg = c09.archetypes()['openssh']
    dh = rating.tables()['dheat']
    res = runner.run_one(c09.scenario(cfg))
    srv = audit.srv_of(cfg, True, dh)

    def drop(res, pred, n=1):
        x = copy.deepcopy(res)
        out, k = [], 0
        for e in x['events']:
            if pred(e) and k < n:
                k += 1
                continue
            out.append(e)
        x['events'] = out
        return x
    a1 = drop(res, lambda e: e.get('ev') == 'close' and e['n'] == 3)                       # a probe connection never closed
    a2 = copy.deepcopy(res)
    a2['exit'] = 1                                                                         # report shown but status 1
    a3 = copy.deepcopy(res)
    extra = [e for e in res['events'] if e.get('ev') == 'send' and e.get('type') == 30][0]
    a3['events'].insert(a3['events'].index([e for e in a3['events'] if e.get('ev') == 'send' and e.get('type') == 30][0]) + 1, dict(extra))   # two key-exchange requests on one connection
    a4 = copy.deepcopy(res)
    a4['open'] = 1                                                                         # a socket left open at exit
    v = [okk for okk, _ in audit.validate(ck, [(srv, res), (srv, a1), (srv, a2), (srv, a3), (srv, a4)], diagnose=False)]
    print('TraceAudit :', v)
    ok &= v == [True, False, False, False, False]
    # SSH-1 fallback and client audit (the behaviours added to SshAudit later)
    s1, role1, x1 = c09.other_archetypes()['ssh1-fallback']
    sc1 = c09.scenario(s1, extra_args=x1)
    fr = runner.run_one(sc1)
    fsrv = audit.srv_of(s1, True, dh, argv=sc1['argv'])
    second = [e for e in fr['events'] if e.get('n') == 2]
    f1 = copy.deepcopy(fr)
    closes = [e for e in fr['events'] if e.get('ev') == 'close']
    f1['events'] = [e for e in fr['events'] if e.get('ev') != 'close'] + [dict(e, n=3) for e in second if e.get('ev') != 'close'] \
        + closes + [dict(e, n=3) for e in second if e.get('ev') == 'close']                  # a third handshake attempt
    f2 = copy.deepcopy(fr)
    for e in f2['events']:
        if e.get('ev') == 'read' and e.get('got') == 'data' and bytes.fromhex(e.get('head', '')).startswith(b'Protocol'):
            e['head'] = b'Something'.hex()                                                # fell back although the peer never sent the mismatch text
    cl, role2, x2 = c09.other_archetypes()['client']
    sc2 = c09.scenario(cl, role='client')
    cr = runner.run_one(sc2)
    csrv = audit.srv_of(cl, True, dh, argv=sc2['argv'], role='client')
    c1 = drop(cr, lambda e: e.get('ev') == 'unlisten')                                     # a listening socket never closed
    c2 = copy.deepcopy(cr)
    c2['events'] = [e for e in c2['events'] if e.get('ev') != 'accept'] + []               # talks to a peer nobody accepted
    v = [okk for okk, _ in audit.validate(ck, [(fsrv, fr), (fsrv, f1), (fsrv, f2), (csrv, cr), (csrv, c1), (csrv, c2)], diagnose=False)]
    print('TraceAudit (fallback, client audit):', v)
    ok &= v == [True, False, False, True, False, False]
    # --- TraceMulti ----------------------------------------------------------
    S = c07.servers()
    tg = [('server', S['terrapin']), ('server', S['plain'])]
    sc, labels = multi.scenario(tg, 1, (0, 1))
    mr = runner.run_one(sc)
    t0 = multi.build_trace(mr, labels, 1, False)
    t1 = copy.deepcopy(t0)
    for e in t1['ev']:
        if e['e'] == 'begin' and e['t'] == 2:
            e['absent'] = False
            e['dirty'] = ['enc:chacha20-poly1305@openssh.com']                             # second worker starts on a dirty table
    t2 = copy.deepcopy(t0)
    t2['ev'] = [e for e in t2['ev'] if not (e['e'] == 'printed' and e['t'] == 2)]          # one block missing
    t3 = copy.deepcopy(t0)
    t3['ev'][-1]['status'] = 0                                                             # exit status not the highest rank
    v = [okk for okk, _ in multi.validate(ck, [t0, t1, t2, t3])]
    print('TraceMulti :', v)
    ok &= v == [True, False, False, False]
    # --- TraceAudit: the sizes a report shows are bound to the model's probe loop ------------------------------
    from checks import c12
    e = dict(moduli=[3072], style='openssh', openssh=True, gex=[c12.GEX256])
    gcfg = c12.server_cfg(e)
    gsc = {'argv': ['-n', '--skip-rate-test', audit.HOST], 'servers': {(audit.HOST, 22): gcfg}}
    gr = dict(runner.run_one(gsc), argv=gsc['argv'])
    gsrv = audit.srv_of(gcfg, True, dh, argv=gsc['argv'])
    g1 = copy.deepcopy(gr)
    g1['stdout'] = g1['stdout'].replace('(3072-bit)', '(2048-bit)')                          # the report shows the fallback size the follow-up probe superseded
    g2 = copy.deepcopy(gr)
    g2['stdout'] = g2['stdout'].replace(' (3072-bit)', '')                                   # the report shows no size although one was recorded
    v = [okk for okk, _ in audit.validate(ck, [(gsrv, gr), (gsrv, g1), (gsrv, g2)], diagnose=False)]
    print('TraceAudit (sizes shown):', v)
    ok &= v == [True, False, False]
    # --- SshSched / harness.sched: the plan decides which worker runs ---------------------------------------------
    tg2 = [('server', S['rsa1024']), ('server', S['rsa4096'])]
    sc2s, labels2 = multi.scenario(tg2, 2, None, json_out=True)
    plans, covered = multi.schedule_plans(ck, [4, 3], 2)
    grid = {(i, j) for i in range(5) for j in range(4)}
    print('SshSched   : %d plans for <<4, 3>> with 2 preemptions; grid covered: %s' % (len(plans), grid <= covered))
    ok &= grid <= covered
    orders = []
    for pl in ([[0, -1], [1, -1]], [[1, -1], [0, -1]], [[0, 5], [1, 7], [0, -1], [1, -1]]):
        rr = runner.run_one(multi.scheduled(sc2s, pl, labels2))
        seq = [e['target'] for e in rr['events'] if e.get('ev') == 'end']
        conn = [e['host'] for e in rr['events'] if e.get('ev') == 'connect']
        orders.append((seq, conn[:2], rr.get('sched', {}).get('forfeits')))
    print('harness.sched:', orders)
    # worker 0 alone first => its target ends first and both first connections are its own; the reverse plan reverses that; the
    # interleaved plan has worker 1 connect before worker 0 has made its second connection
    ok &= orders[0][0] == labels2 and orders[1][0] == labels2[::-1]
    ok &= orders[0][1] == [labels2[0].split(':')[0]] * 2 and orders[1][1] == [labels2[1].split(':')[0]] * 2
    ok &= orders[2][1] == [labels2[0].split(':')[0], labels2[1].split(':')[0]]
    if 'seeds' in args:
        ok &= seeds()
    if 'benign' in args:
        ok &= benign()
    print('SELFTEST', 'PASSED' if ok else 'FAILED')
    return 0 if ok else 1


def benign():
    """Every harmless change in /verif/benign (property-preserving refactorings, rewordings, debug output, ...) applied to a scratch
    copy of the repository: the check of its property must stay quiet (exit 0)."""
    ok = True
    root = os.path.join(common.ROOT, 'benign')
    for bid in sorted(os.listdir(root)) if os.path.isdir(root) else []:
        d = os.path.join(root, bid)
        chk = bid.split('-')[0]
        tmp = tempfile.mkdtemp(prefix='vben-')
        try:
            repo = os.path.join(tmp, 'repo')
            subprocess.run(['git', 'clone', '-q', '--no-hardlinks', '/repo', repo], check=True)
            a = subprocess.run(['git', 'apply', os.path.join(d, 'patch.diff')], cwd=repo)
            if a.returncode != 0:
                print('benign %-10s patch no longer applies (skipped)' % bid)
                continue
            env = dict(os.environ, VERIF_REPO=repo, VERIF_NO_EVIDENCE='1')
            p = subprocess.run([os.path.join(common.ROOT, 'check'), chk, 'quick'], cwd=common.ROOT, env=env, stdout=subprocess.PIPE, stderr=subprocess.STDOUT, text=True)
            quiet = p.returncode == 0
            print('benign %-10s %s under %s' % (bid, 'quiet' if quiet else 'ALARM (exit %d)' % p.returncode, chk))
            ok &= quiet
        finally:
            shutil.rmtree(tmp, ignore_errors=True)
    return ok


def seeds():
    ok = True
    root = os.path.join(common.ROOT, 'seeded')
    for sid in sorted(os.listdir(root)) if os.path.isdir(root) else []:
        d = os.path.join(root, sid)
        meta = json.load(open(os.path.join(d, 'meta.json')))
        if not meta.get('what_was_run', {}).get('caught_by'):
            print('seed %-28s (recorded as not caught; skipped)' % sid)
            continue
        if meta.get('neutralised_by'):
            # a later repair of /repo removed what the change relied on: it no longer breaks the property on the repaired tree
            print('seed %-28s (no longer breaks the property since %s; skipped)' % (sid, meta['neutralised_by']))
            continue
        chk = meta['what_was_run']['caught_by'][0]
        tmp = tempfile.mkdtemp(prefix='vseed-')
        try:
            repo = os.path.join(tmp, 'repo')
            subprocess.run(['git', 'clone', '-q', '--no-hardlinks', '/repo', repo], check=True)
            if subprocess.run(['git', 'apply', os.path.join(d, 'patch.diff')], cwd=repo).returncode != 0:
                subprocess.run(['git', 'apply', '--3way', os.path.join(d, 'patch.diff')], cwd=repo, check=True)
            env = dict(os.environ, VERIF_REPO=repo, VERIF_NO_EVIDENCE='1')
            p = subprocess.run([os.path.join(common.ROOT, 'check'), chk, 'quick'], cwd=common.ROOT, env=env, stdout=subprocess.PIPE, stderr=subprocess.STDOUT, text=True)
            caught = p.returncode == 1 and 'VIOLATION property=%s' % chk in p.stdout
            print('seed %-28s %s by %s' % (sid, 'caught' if caught else 'MISSED', chk))
            ok &= caught
        finally:
            shutil.rmtree(tmp, ignore_errors=True)
    return ok
