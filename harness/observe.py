"""Observation wrappers installed around public functions of ssh-audit, in the forked
child only and only when SSH_AUDIT_VERIF=1 (the guard recorded in MANIFEST.hooks).
Nothing in /repo is edited: the wrappers bind by name; a rename makes install() raise,
which the checks report as a machinery failure (exit 2), never as a VIOLATION.

Events added to world.events:
  rated   cat, name, calls=[[method, text]...], before, after      (one per output_algorithm call)
  begin   target, dirty=[...]    end  target, ret, dirty=[...]      (one pair per worker)
  output  status                                                      (return of output())
"""
import os
import threading


def _dirty(mod_db_cls):
    """Keys of the calling thread's table copy that differ from MASTER_DB (deep compare)."""
    tid = threading.get_ident()
    per = mod_db_cls.DB_PER_THREAD
    if tid not in per:
        return None
    db = per[tid]
    out = []
    for cat, entries in mod_db_cls.MASTER_DB.items():
        for name, val in entries.items():
            if db.get(cat, {}).get(name) != val:
                out.append('%s:%s' % (cat, name))
    for cat, entries in db.items():
        for name in entries:
            if name not in mod_db_cls.MASTER_DB.get(cat, {}):
                out.append('%s:%s' % (cat, name))
    return sorted(out)


class _RecOut:
    def __init__(self, real, calls):
        object.__setattr__(self, '_real', real)
        object.__setattr__(self, '_calls', calls)

    def __getattr__(self, k):
        v = getattr(self._real, k)
        if k in ('fail', 'warn', 'info', 'good'):
            calls = self._calls

            def rec(s, *a, **kw):
                calls.append([k, s])
                return v(s, *a, **kw)
            return rec
        return v

    def __setattr__(self, k, v):
        setattr(self._real, k, v)

    def __enter__(self):
        return self._real.__enter__()

    def __exit__(self, *a):
        return self._real.__exit__(*a)


def install(world):
    if os.environ.get('SSH_AUDIT_VERIF') != '1':
        return
    import ssh_audit.ssh_audit as sa
    from ssh_audit.ssh2_kexdb import SSH2_KexDB
    from ssh_audit.ssh1_kexdb import SSH1_KexDB

    orig_alg = sa.output_algorithm

    def output_algorithm(out, alg_db, alg_type, alg_name, unknown_algs, program_retval, *a, **kw):
        calls = []
        ret = orig_alg(_RecOut(out, calls), alg_db, alg_type, alg_name, unknown_algs, program_retval, *a, **kw)
        world.log(ev='rated', cat=alg_type, name=alg_name, calls=calls, before=program_retval, after=ret)
        return ret
    sa.output_algorithm = output_algorithm

    orig_output = sa.output

    def output(*a, **kw):
        ret = orig_output(*a, **kw)
        world.log(ev='output', status=ret)
        return ret
    sa.output = output

    # what the thread's table copies hold at the moment they are discarded (thread_exit), i.e. what a scan left behind
    def wrap_exit(cls, tag):
        orig_exit = cls.thread_exit

        def thread_exit():
            d = _dirty(cls)
            if d is not None:
                world.log(ev='cleanup', db=tag, dirty=d)
            return orig_exit()
        cls.thread_exit = staticmethod(thread_exit)
    wrap_exit(SSH2_KexDB, 'ssh2')
    wrap_exit(SSH1_KexDB, 'ssh1')

    orig_worker = sa.target_worker_thread
    gate = threading.Condition()

    def target_worker_thread(host, port, shared_aconf):
        pol = getattr(shared_aconf, 'policy', None)
        label = '%s:%d' % (host, port)
        world.log(ev='begin', target=label, dirty2=_dirty(SSH2_KexDB), dirty1=_dirty(SSH1_KexDB),
                  shared_policy_errors=len(pol._errors) if pol is not None else 0)
        sched = getattr(world, 'sched', None)
        if sched is not None:
            sched.register(label)
        try:
            try:
                ret = orig_worker(host, port, shared_aconf)
            finally:
                if sched is not None:
                    sched.deregister(label)
        except BaseException as e:
            world.log(ev='end', target=label, ret='BaseException:%s' % type(e).__name__, dirty2=_dirty(SSH2_KexDB), dirty1=_dirty(SSH1_KexDB),
                      shared_policy_errors=len(pol._errors) if pol is not None else 0)
            _wait_turn(world, gate, label)
            raise
        world.log(ev='end', target=label, ret=ret[0], dirty2=_dirty(SSH2_KexDB), dirty1=_dirty(SSH1_KexDB),
                  shared_policy_errors=len(pol._errors) if pol is not None else 0)
        _wait_turn(world, gate, label)
        return ret
    sa.target_worker_thread = target_worker_thread


def _wait_turn(world, gate, label):
    """Impose the scenario's completion order (world.finish_order: list of target labels) on the worker threads."""
    order = getattr(world, 'finish_order', None)
    if not order:
        return
    with gate:
        while True:
            i = getattr(world, 'finish_idx', 0)
            if i >= len(order) or order[i] == label or label not in order[i:]:
                break
            gate.wait(timeout=0.05)
        if i < len(order) and order[i] == label:
            world.finish_idx = i + 1
        gate.notify_all()
