"""In-process fake network for driving the real ssh-audit CLI.

Replaces (in a forked child only) socket.socket, socket.getaddrinfo, select.select,
time.time and time.sleep.  Every connection gets its own FakeSock bound to a *peer*
object supplied by the World; all network events are appended to World.events, which
is the raw material of the TLA+ trace validation (DESIGN 4.2).

Nothing here knows about SSH; see peers.py for the reactive server/client.
"""
import errno
import os
import weakref
import socket as _socket
import threading
import time as _time
import select as _select

_real_socket_cls = _socket.socket
_real_getaddrinfo = _socket.getaddrinfo
_real_select = _select.select
_real_time = _time.time
_real_sleep = _time.sleep

EOF = 'EOF'        # peer closed: recv returns b''
STALL = 'STALL'    # peer silent forever: recv times out
RESET = 'RESET'    # connection reset by peer


class Clock:
    def __init__(self):
        self.now = 1_700_000_000.0
        self.lock = threading.Lock()
        self.waits = 0          # number of full timeouts charged
        self.waited = 0.0

    def advance(self, dt, timeout=False):
        with self.lock:
            self.now += dt
            if timeout:
                self.waits += 1
                self.waited += dt


class World:
    """Configuration and log of one run.

    servers:  {(ip, port): factory}; factory(world, conn_no, addr) -> peer or None (refuse)
    resolver: {host: [(family, ip), ...] | Exception}; unknown hosts that parse as an IP
              literal resolve to themselves, others raise gaierror.
    clients:  list of peer factories for client audits (accept()).
    """

    def __init__(self):
        self.servers = {}
        self.resolver = {}
        self.clients = []
        self.clock = Clock()
        self.events = []
        self.lock = threading.RLock()
        self.nconn = 0
        self.recs = []              # one small dict per socket ever created (survives GC of the socket)
        self.rtt = 0.005
        self.fileno_next = 1000
        self.by_fileno = weakref.WeakValueDictionary()
        self.connect_hook = None    # optional callable(world, sock, addr) for gating
        self.max_conn = 1500
        self.runaway = False
        self.sched = None           # optional harness.sched.Scheduler: worker threads stop at each network operation

    def sched_point(self, op):
        if self.sched is not None and getattr(self, 'sched_net', True):
            self.sched.point(op)

    def log(self, **ev):
        with self.lock:
            ev['seq'] = len(self.events)
            ev['th'] = threading.get_ident()
            self.events.append(ev)

    # -- resolver --------------------------------------------------------
    def getaddrinfo(self, host, port, family=0, type=0, proto=0, flags=0):
        self.sched_point('resolve')
        if isinstance(host, str) and host not in self.resolver and _ip_family(host) is None:
            # the real getaddrinfo() encodes a host name with the IDNA codec first: an empty label ("a..b") or one of more than 63
            # characters raises UnicodeError there - not a gaierror, and not an OSError
            try:
                host.encode('idna')
            except UnicodeError:
                self.log(ev='resolve', host=host, port=port, family=int(family), ok=False)
                raise
        ans = None
        if host in self.resolver:
            ans = self.resolver[host]
        else:
            fam = _ip_family(host)
            if fam is not None:
                ans = [(fam, host)]
        if port == 0 and host in getattr(self, 'resolve_fail_port0', ()):
            # a resolver that fails for the service-less lookup only (the one the connection-rate check makes), after the audit's
            # own lookups succeeded: a fault that strikes late in a scan
            ans = _socket.gaierror(-3, 'Temporary failure in name resolution')
        self.log(ev='resolve', host=host, port=port, family=int(family),
                 ok=not (ans is None or isinstance(ans, Exception)))
        if ans is None:
            raise _socket.gaierror(-2, 'Name or service not known')
        if isinstance(ans, Exception):
            raise ans
        out = []
        for fam, ip in ans:
            if family not in (0, fam):
                continue
            if fam == _socket.AF_INET6:
                out.append((fam, _socket.SOCK_STREAM, 6, '', (ip, port, 0, 0)))
            else:
                out.append((fam, _socket.SOCK_STREAM, 6, '', (ip, port)))
        if not out:
            raise _socket.gaierror(-5, 'No address associated with hostname')
        return out

    # -- select ----------------------------------------------------------
    def select(self, rlist, wlist, xlist, timeout=None):
        socks = []
        for r in rlist:
            s = self.by_fileno.get(r) if isinstance(r, int) else r
            if not isinstance(s, FakeSock):
                raise RuntimeError('fakenet.select: foreign object %r' % (r,))
            socks.append((r, s))
        ready = [r for r, s in socks if s._readable()]
        if ready:
            self.clock.advance(self.rtt)
            return ready, [], []
        self.clock.advance(timeout if timeout is not None else 3600.0)      # a poll interval, not a read timeout
        self.clock.polls = getattr(self.clock, 'polls', 0) + 1
        return [], [], []

    def time(self):
        return self.clock.now

    def sleep(self, dt):
        self.clock.advance(dt)

    def open_socks(self):
        return [r for r in self.recs if r['state'] in ('connected', 'listening') and not r['closed'] and not r['finalised']]


def _ip_family(host):
    try:
        _socket.inet_pton(_socket.AF_INET, host)
        return _socket.AF_INET
    except OSError:
        pass
    try:
        _socket.inet_pton(_socket.AF_INET6, host)
        return _socket.AF_INET6
    except OSError:
        return None


class Chunk(bytes):
    tainted = False


class FakeSock:
    def __init__(self, world, family=_socket.AF_INET, type=_socket.SOCK_STREAM, proto=0, fileno=None):
        self.world = world
        self.family = family
        self.timeout = None
        self.blocking = True
        self.state = 'new'
        self.closed = False
        self.peer = None
        self.addr = None
        self.n = None
        self.inq = []          # list of bytes | EOF | STALL | RESET
        self.bound = None
        self.rec = {'n': None, 'state': 'new', 'closed': False, 'finalised': False}
        with world.lock:
            self._fileno = world.fileno_next
            world.fileno_next += 1
            world.by_fileno[self._fileno] = self
            world.recs.append(self.rec)

    def __del__(self):
        try:
            self.rec['finalised'] = True
            self.rec['state'] = self.state
            self.rec['closed'] = self.closed
        except Exception:
            pass

    def _sync(self):
        self.rec['n'] = self.n
        self.rec['state'] = self.state
        self.rec['closed'] = self.closed

    # -- plumbing used by peers -----------------------------------------
    def push(self, item, tainted=False):
        """Peer makes `item` available to the tool (bytes chunk or EOF/STALL/RESET).
        tainted: the bytes are not what the protocol calls for (fault injection); reads of them are logged as such."""
        if isinstance(item, (bytes, bytearray)):
            if len(item) == 0:
                return
            item = Chunk(item)
            item.tainted = tainted
        self.inq.append(item)

    def _readable(self):
        if self.state == 'listening':
            return len(self.world.clients) > 0
        if self.state != 'connected':
            return False
        if not self.inq:
            return False
        return self.inq[0] != STALL

    # -- socket API ------------------------------------------------------
    def fileno(self):
        return self._fileno

    def settimeout(self, t):
        self.timeout = t
        self.blocking = True

    def gettimeout(self):
        return self.timeout

    def setblocking(self, b):
        self.blocking = bool(b)
        if not b:
            self.timeout = 0.0

    def setsockopt(self, *a):
        pass

    def bind(self, addr):
        self.bound = addr

    def listen(self, backlog=0):
        self.state = 'listening'
        self._sync()
        self.world.log(ev='listen', port=self.bound[1] if self.bound else None, family=int(self.family))

    def accept(self):
        w = self.world
        with w.lock:
            if not w.clients:
                raise BlockingIOError(errno.EAGAIN, 'no pending client')
            factory = w.clients.pop(0)
            w.nconn += 1
            n = w.nconn
        c = FakeSock(w, self.family)
        c.state = 'connected'
        c.n = n
        caddr = ('198.51.100.7', 50000 + n) if self.family == _socket.AF_INET else ('2001:db8::7', 50000 + n, 0, 0)
        c.addr = caddr
        c.peer = factory(w, n, caddr)
        w.log(ev='accept', n=n, host=caddr[0], port=self.bound[1] if self.bound else None)
        c._sync()
        c.peer.on_connect(c)
        return c, caddr

    def _do_connect(self, addr):
        w = self.world
        host, port = addr[0], addr[1]
        with w.lock:
            w.nconn += 1
            self.n = w.nconn
        self.addr = (host, port)
        w.clock.advance(w.rtt)
        factory = w.servers.get((host, port))
        if w.nconn > w.max_conn:
            # runaway guard: far beyond anything a conforming audit does; refuse from here on and let time pass so time-bounded loops end
            w.runaway = True
            w.clock.advance(1.0)
            factory = None
        peer = factory(w, self.n, (host, port)) if factory is not None else None
        ok = peer is not None
        w.log(ev='connect', n=self.n, host=host, port=port, family=int(self.family), ok=ok,
              nb=not self.blocking)
        if w.connect_hook is not None:
            w.connect_hook(w, self, addr)
        if not ok:
            self._sync()
            return False
        self.state = 'connected'
        self.peer = peer
        self._sync()
        peer.on_connect(self)
        return True

    def connect(self, addr):
        self.world.sched_point('connect')
        if isinstance(self.world.servers.get((addr[0], addr[1])), TimeoutServer):
            self.world.nconn += 1
            self.n = self.world.nconn
            self.world.clock.advance(self.timeout or 0.0, timeout=True)
            self.world.log(ev='connect', n=self.n, host=addr[0], port=addr[1], family=int(self.family), ok=False, nb=False)
            raise _socket.timeout('timed out')
        if not self._do_connect(addr):
            raise ConnectionRefusedError(errno.ECONNREFUSED, 'Connection refused')

    def connect_ex(self, addr):
        self.world.sched_point('connect')
        if not self._do_connect(addr):
            return errno.ECONNREFUSED
        return 0 if self.blocking else errno.EINPROGRESS

    def send(self, data):
        self.world.sched_point('send')
        if self.state != 'connected' or self.closed:
            raise BrokenPipeError(errno.EPIPE, 'Broken pipe')
        if getattr(self, 'send_fails', None) is not None:
            # the peer has gone away after queueing what it had to say: writing fails, what was received can still be read
            self.world.log(ev='sendfail', n=self.n, err=self.send_fails)
            raise (BrokenPipeError if self.send_fails == errno.EPIPE else ConnectionResetError)(self.send_fails, os.strerror(self.send_fails))
        data = bytes(data)
        self.peer.on_data(self, data)
        return len(data)

    sendall = send

    def recv(self, size, flags=0):
        self.world.sched_point('recv')
        if self.state != 'connected' or self.closed:
            raise OSError(errno.ENOTCONN, 'Transport endpoint is not connected')
        w = self.world
        gate = getattr(self.peer, 'before_recv', None)
        if gate is not None:
            gate(self)
        if not self.inq or self.inq[0] == STALL:
            if not self.blocking:
                raise BlockingIOError(errno.EAGAIN, 'Resource temporarily unavailable')
            if self.timeout is None:
                # a blocking read without a timeout on a peer that stays silent never returns: the process hangs.  The harness
                # records that as a hang (the child ends the way its watchdog alarm would end it) instead of waiting 60 s for it.
                w.log(ev='read', n=self.n, got='blocks-for-ever')
                import signal as _signal
                os.kill(os.getpid(), _signal.SIGALRM)
                _time.sleep(5)
            w.clock.advance(self.timeout if self.timeout is not None else 3600.0, timeout=True)
            w.log(ev='read', n=self.n, got='timeout')
            raise _socket.timeout('timed out')
        item = self.inq[0]
        if item == EOF:
            w.log(ev='read', n=self.n, got='eof')
            return b''
        if item == RESET:
            self.inq.pop(0)
            w.log(ev='read', n=self.n, got='reset')
            self.was_reset = True       # (a connection the peer has reset is no longer connected: shutdown() on it fails, close() works)
            raise ConnectionResetError(errno.ECONNRESET, 'Connection reset by peer')
        chunk = bytes(item[:size])
        rest = item[size:]
        tainted = getattr(item, 'tainted', False)
        if rest:
            rest = Chunk(rest)
            rest.tainted = tainted
            self.inq[0] = rest
        else:
            self.inq.pop(0)
        w.log(ev='read', n=self.n, got='data', bytes=len(chunk), head=chunk[:8].hex(), tainted=tainted)
        return chunk

    def shutdown(self, how):
        if getattr(self, 'was_reset', False) and self.state == 'connected' and not self.closed:
            # the peer has reset the connection: shutdown() fails (ENOTCONN on Linux).  The tool's close helpers then skip close(), and
            # the descriptor is released when the last reference to the socket goes - which is at once; the harness records the close here
            self._close()
            raise OSError(errno.ENOTCONN, 'Transport endpoint is not connected')
        if self.state not in ('connected', 'listening') or self.closed:
            raise OSError(errno.ENOTCONN, 'Transport endpoint is not connected')
        self._close()

    def close(self):
        if self.state in ('connected', 'listening') and not self.closed:
            self._close()
        self.closed = True
        self._sync()

    def _close(self):
        self.closed = True
        self._sync()
        if self.state == 'connected':
            self.world.log(ev='close', n=self.n)
            if self.peer is not None and hasattr(self.peer, 'on_close'):
                self.peer.on_close(self)
        elif self.state == 'listening':
            self.world.log(ev='unlisten', port=self.bound[1] if self.bound else None)

    def getpeername(self):
        return self.addr

    def getsockname(self):
        return self.bound or ('192.0.2.1', 40000)

    def __enter__(self):
        return self

    def __exit__(self, *a):
        self.close()


class TimeoutServer:
    """Marker factory: connecting to this address times out (silent drop of SYN)."""

    def __call__(self, world, n, addr):
        return None


def install(world):
    """Patch the process-global entry points. Only ever call this in a forked child."""
    def _sock(family=_socket.AF_INET, type=_socket.SOCK_STREAM, proto=0, fileno=None):
        return FakeSock(world, family, type, proto, fileno)
    _socket.socket = _sock
    _socket.getaddrinfo = world.getaddrinfo
    _select.select = world.select
    _time.time = world.time
    _time.sleep = world.sleep
