"""./check dispatcher."""
import importlib
import os
import sys
import traceback

from . import common


def main(argv):
    if not argv:
        print(__doc__)
        return 2
    cmd = argv[0]
    if cmd == 'setup':
        from . import setup
        return setup.run()
    if cmd == 'replay':
        from . import replay
        return replay.run(argv[1])
    if cmd == 'selftest':
        from . import selftest
        return selftest.run(argv[1:])
    prop = cmd.upper()
    tier = argv[1] if len(argv) > 1 else os.environ.get('VERIF_TIER', 'quick')
    if tier not in ('quick', 'thorough'):
        print('unknown tier', tier)
        return 2
    try:
        mod = importlib.import_module('checks.%s' % prop.lower())
    except ImportError:
        traceback.print_exc()
        return 2
    try:
        return mod.run(tier)
    except common.Machinery as e:
        print('MACHINERY-FAILURE property=%s: %s' % (prop, e))
        return 2
    except Exception:
        traceback.print_exc()
        print('MACHINERY-FAILURE property=%s: unexpected exception in the check itself' % prop)
        return 2


if __name__ == '__main__':
    sys.exit(main(sys.argv[1:]))
