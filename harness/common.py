"""Shared scaffolding of the checks: tiers/seeds, evidence files, known findings, verdicts."""
import hashlib
import json
import os
import sys
import time

ROOT = os.path.dirname(os.path.dirname(os.path.abspath(__file__)))
EVIDENCE_DIR = os.path.join(ROOT, 'evidence')
REPLAY_DIR = os.path.join(ROOT, 'replay') if not os.environ.get('VERIF_NO_EVIDENCE') else os.path.join('/tmp', 'verif-seed-replay')
FINDINGS_FILE = os.path.join(ROOT, 'KNOWN_FINDINGS.txt')


class Machinery(Exception):
    """Something in the verification machinery failed (exit 2)."""


class _Enc(json.JSONEncoder):
    def default(self, o):
        if isinstance(o, (bytes, bytearray)):
            return {'__bytes__': bytes(o).hex()}
        if isinstance(o, (set, frozenset)):
            return sorted(o, key=repr)
        if isinstance(o, tuple):
            return list(o)
        if callable(o):
            return '<callable %s>' % getattr(o, '__name__', 'fn')
        if isinstance(o, Exception):
            return repr(o)
        return repr(o)


def jdump(o, **kw):
    return json.dumps(_keys(o), cls=_Enc, **kw)


def _keys(o):
    if isinstance(o, dict):
        return {(k if isinstance(k, str) else repr(k)): _keys(v) for k, v in o.items()}
    if isinstance(o, (list, tuple)):
        return [_keys(v) for v in o]
    return o


def load_findings():
    known, fixed = {}, []
    if os.path.exists(FINDINGS_FILE):
        for line in open(FINDINGS_FILE, encoding='utf-8'):
            line = line.strip()
            if line.startswith('known:'):
                parts = line.split(None, 3)
                prop = parts[1].split('=', 1)[1]
                key = parts[2].split('=', 1)[1]
                known[(prop, key)] = parts[3] if len(parts) > 3 else ''
            elif line.startswith('fixed:'):
                fixed.append(line)
    return known, fixed


class Check:
    def __init__(self, prop, tier, level='model_checking'):
        self.prop = prop
        self.tier = tier
        self.level = level
        self.seed = int(os.environ.get('VERIF_SEED', '0') or 0)
        self.t0 = time.time()
        self.violations = []      # (signature, description, replay dict)
        self.known_hits = {}
        self.cov = {'evaluations': 0, 'distinct_nontrivial': 0, 'rule': '', 'samples': [],
                    'states': 0, 'transitions': 0, 'traces_validated_against_impl': 0}
        self.assumptions = []
        self._nontrivial = set()
        self.known, self.fixed = load_findings()
        self.notes = []

    # -- coverage accounting --------------------------------------------
    def add_tlc(self, res):
        self.cov['states'] += res.distinct
        self.cov['transitions'] += res.generated
        self.cov.setdefault('tlc_runs', []).append({'cmd_tail': res.cmd.split('tlc2.TLC')[-1].strip()[:200], 'distinct': res.distinct,
                                                    'generated': res.generated, 'wall_s': round(res.wall, 2)})

    def evaluated(self, n=1):
        self.cov['evaluations'] += n

    def nontrivial(self, key):
        self._nontrivial.add(key if isinstance(key, (str, int, tuple)) else jdump(key, sort_keys=True))

    def sample(self, s, limit=6):
        if len(self.cov['samples']) < limit:
            self.cov['samples'].append(json.loads(jdump(s)))

    def log(self, msg):
        print('[%s %s %6.1fs] %s' % (self.prop, self.tier, time.time() - self.t0, msg), flush=True)

    # -- verdicts ----------------------------------------------------------
    def violation(self, signature, desc, replay):
        """signature: specific, stable token string (no spaces) identifying the deviation class and locus."""
        signature = signature.replace(' ', '_')
        if (self.prop, signature) in self.known:
            self.known_hits.setdefault(signature, 0)
            self.known_hits[signature] += 1
            return False
        self.violations.append((signature, desc, replay))
        return True

    def finish(self):
        os.makedirs(EVIDENCE_DIR, exist_ok=True)
        for sig, n in sorted(self.known_hits.items()):
            print('KNOWN-FINDING: property=%s key=%s (%d cases) %s' % (self.prop, sig, n, self.known[(self.prop, sig)]))
        seen = {}
        for sig, desc, replay in self.violations:
            seen.setdefault(sig, []).append((desc, replay))
        if seen:
            os.makedirs(REPLAY_DIR, exist_ok=True)
        for sig, items in seen.items():
            desc, replay = items[0]
            h = hashlib.sha1(sig.encode()).hexdigest()[:10]
            path = os.path.join(REPLAY_DIR, '%s-%s.json' % (self.prop, h))
            with open(path, 'w') as f:
                f.write(jdump({'property': self.prop, 'signature': sig, 'description': desc, 'count': len(items),
                               'replay': replay}, indent=1))
            print('VIOLATION property=%s replay=%s' % (self.prop, path))
            print('  signature=%s count=%d: %s' % (sig, len(items), desc))
        self.cov['distinct_nontrivial'] = len(self._nontrivial)
        ev = {
            'property_id': self.prop, 'tier': self.tier, 'seed': self.seed, 'level': self.level,
            'coverage': self.cov, 'assumptions': self.assumptions, 'wall_s': round(time.time() - self.t0, 2),
            'violations': len(seen), 'known_findings_hit': sorted(self.known_hits),
        }
        if self.notes:
            ev['coverage']['notes'] = self.notes
        if not os.environ.get('VERIF_NO_EVIDENCE'):        # (set by tools/seedcheck.py: runs against a patched scratch copy are not evidence)
            with open(os.path.join(EVIDENCE_DIR, '%s.json' % self.prop), 'w') as f:
                f.write(jdump(ev, indent=1))
        self.log('done: %d evaluations, %d distinct non-trivial, %d TLC states, %d traces validated, %d violation signatures, %d known findings'
                 % (self.cov['evaluations'], self.cov['distinct_nontrivial'], self.cov['states'],
                    self.cov['traces_validated_against_impl'], len(seen), len(self.known_hits)))
        return 1 if seen else 0


def require(cond, msg):
    if not cond:
        raise Machinery(msg)
