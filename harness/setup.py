"""./check setup - nothing to compile: verify the toolchain and parse every specification."""
import os
import subprocess
import sys

from . import tlc, runner


def run():
    ok = True
    try:
        p = subprocess.run(['java', '-version'], stdout=subprocess.PIPE, stderr=subprocess.STDOUT, text=True)
        print(p.stdout.strip().splitlines()[0])
    except Exception as e:
        print('java missing:', e)
        return 2
    for f in sorted(os.listdir(tlc.SPEC_DIR)):
        if not f.endswith('.tla'):
            continue
        src = open(os.path.join(tlc.SPEC_DIR, f), encoding='utf-8').read()
        if 'TLAPS' in src.split('====')[0].split('EXTENDS', 1)[-1].split('\n')[0]:
            # a proof module: it EXTENDS TLAPS, which lives in the proof system's library, not on SANY's path; tlapm parses and checks it (C10)
            import shutil
            exe = shutil.which('tlapm')
            print('SANY %-24s %s' % (f, 'skipped (proof module; %s)' % ('checked by tlapm in C10' if exe else 'tlapm not on PATH: C10 records that the lemma was not re-checked')))
            continue
        good, out = tlc.sany(os.path.join(tlc.SPEC_DIR, f))
        print('SANY %-24s %s' % (f, 'ok' if good else 'FAILED'))
        if not good:
            print(out[-3000:])
            ok = False
    try:
        runner.load_repo()
        print('repo imports from', runner.REPO)
    except Exception as e:
        print('cannot import the repository:', e)
        ok = False
    os.makedirs(os.path.join(os.path.dirname(tlc.SPEC_DIR), 'evidence'), exist_ok=True)
    return 0 if ok else 2
