"""Reactive scripted SSH peers for the fake network.

A server is described by a plain dict (ServerCfg below documents the keys) so that a
scenario is a pure data value that can come out of TLC and be written to a replay file.
The server *reacts* to what the tool sends (it parses the client's banner, KEXINIT,
KEXDH_INIT, GEX_REQUEST...) so a script stays valid whatever the tool's read order.
"""
import hashlib
import random

from . import wire
from .fakenet import EOF, STALL, RESET

MSG_DISCONNECT = 1
MSG_DEBUG = 4
MSG_KEXINIT = 20
MSG_KEXDH_INIT = 30
MSG_KEXDH_REPLY = 31
MSG_GEX_GROUP = 31
MSG_GEX_INIT = 32
MSG_GEX_REPLY = 33
MSG_GEX_REQUEST = 34

ALL_MODULI = (512, 768, 1024, 1536, 2048, 3072, 4096, 6144, 8192)


def b(x):
    return x if isinstance(x, bytes) else x.encode('utf-8', 'surrogateescape')


# ---------------------------------------------------------------------------
# host key blobs
# ---------------------------------------------------------------------------
def _rand_int_bits(bits, seed):
    r = random.Random(repr(seed))
    n = r.getrandbits(bits) | (1 << (bits - 1)) | 1
    return n


def rsa_blob(bits, seed=1, name=b'ssh-rsa'):
    n = _rand_int_bits(bits, ('rsa', bits, seed))
    return wire.string(name) + wire.mpint(65537) + wire.mpint(n)


def ed25519_blob(seed=1):
    pk = hashlib.sha256(b'ed25519-%d' % seed).digest()
    return wire.string(b'ssh-ed25519') + wire.string(pk)


def ed448_blob(seed=1):
    pk = (hashlib.sha512(b'ed448-%d' % seed).digest())[:57]
    return wire.string(b'ssh-ed448') + wire.string(pk)


def ecdsa_blob(curve=256, seed=1):
    ln = {256: 32, 384: 48, 521: 66}[curve]
    q = b'\x04' + hashlib.shake_256(b'ecdsa-%d-%d' % (curve, seed)).digest(2 * ln)
    cn = b'nistp%d' % curve
    return wire.string(b'ecdsa-sha2-' + cn) + wire.string(cn) + wire.string(q)


def dss_blob(seed=1):
    p = _rand_int_bits(1024, ('dssp', seed))
    q = _rand_int_bits(160, ('dssq', seed))
    g = _rand_int_bits(1023, ('dssg', seed))
    y = _rand_int_bits(1023, ('dssy', seed))
    return wire.string(b'ssh-dss') + wire.mpint(p) + wire.mpint(q) + wire.mpint(g) + wire.mpint(y)


def sk_ed25519_blob(seed=5):
    """FIDO/U2F-backed Ed25519 key (PROTOCOL.u2f): type, 32-byte public key, application string."""
    return wire.string(b'sk-ssh-ed25519@openssh.com') + wire.string(hashlib.sha256(b'sk-ed25519-%d' % seed).digest()) + wire.string(b'ssh:')


def ca_key_blob(ca):
    """ca = ('rsa', bits) | ('ed25519',) | ('ecdsa', curve)"""
    if ca[0] == 'rsa':
        return rsa_blob(ca[1], seed=99)
    if ca[0] == 'ed25519':
        return ed25519_blob(seed=99)
    if ca[0] == 'ecdsa':
        return ecdsa_blob(ca[1], seed=99)
    raise ValueError(ca)


def cert_blob(kind, ca, bits=3072, cert_type=2, seed=1, name=None, key_id=b'host.example.org key', principals=(b'host.example.org',),
              options=b'', extensions=b''):
    """OpenSSH certificate (PROTOCOL.certkeys layout). kind = 'rsa' | 'ed25519'."""
    nonce = hashlib.sha256(b'nonce-%d' % seed).digest()
    if kind == 'rsa':
        tname = name or b'ssh-rsa-cert-v01@openssh.com'
        n = _rand_int_bits(bits, ('rsa', bits, seed))
        key = wire.mpint(65537) + wire.mpint(n)
    elif kind == 'ed25519':
        tname = name or b'ssh-ed25519-cert-v01@openssh.com'
        key = wire.string(hashlib.sha256(b'ed25519-%d' % seed).digest())
    else:
        raise ValueError(kind)
    body = wire.string(tname) + wire.string(nonce) + key
    body += (1234567).to_bytes(8, 'big')            # serial
    body += wire.u32(cert_type)                      # 2 = host
    body += wire.string(key_id)                      # key id (free-form text)
    body += wire.string(b''.join(wire.string(p) for p in principals))  # valid principals
    body += (0).to_bytes(8, 'big')                   # valid after
    body += (0xffffffffffffffff).to_bytes(8, 'big')  # valid before
    body += wire.string(options)                     # critical options
    body += wire.string(extensions)                  # extensions
    body += wire.string(b'')                         # reserved
    body += wire.string(ca_key_blob(ca))             # signature key
    body += wire.string(wire.string(b'ssh-ed25519') + wire.string(b'\x00' * 64))  # signature
    return body


# ---------------------------------------------------------------------------
# GEX group selection styles (the environment family of C12)
# ---------------------------------------------------------------------------
def gex_select(style, moduli, mn, pref, mx):
    """Returns bits to hand out, or None to refuse."""
    ms = sorted(moduli)
    if style == 'strict':
        inr = [m for m in ms if mn <= m <= mx]
        if not inr:
            return None
        ge = [m for m in inr if m >= pref]
        return ge[0] if ge else inr[-1]
    if style == 'roundup':
        ge = [m for m in ms if m >= pref]
        return ge[0] if ge else (ms[-1] if ms else None)
    if style == 'openssh':
        # kexgexs.c: clamp to [2048, 8192], reject inconsistent requests, choose_dh(), fallback group
        mn2, mx2 = max(mn, 2048), min(mx, 8192)
        p2 = min(max(pref, 2048), 8192)
        if mx2 < mn2 or p2 < mn2 or mx2 < p2:
            return None
        inr = [m for m in ms if mn2 <= m <= mx2]
        if inr:
            ge = [m for m in inr if m >= p2]
            return ge[0] if ge else inr[-1]
        if mx2 < 3072:
            return 2048
        if mx2 < 6144:
            return 4096
        return 8192
    raise ValueError(style)


def group_prime(bits):
    """A number of exactly `bits` bits (the tool does not check primality)."""
    return _rand_int_bits(bits, ('p', bits))


# ---------------------------------------------------------------------------
# server
# ---------------------------------------------------------------------------
DEFAULT_KEXINIT = {
    'kex': [b'curve25519-sha256', b'curve25519-sha256@libssh.org', b'diffie-hellman-group16-sha512',
            b'diffie-hellman-group18-sha512', b'diffie-hellman-group14-sha256'],
    'key': [b'rsa-sha2-512', b'rsa-sha2-256', b'ssh-ed25519'],
    'enc': [b'aes256-gcm@openssh.com', b'aes128-gcm@openssh.com', b'aes256-ctr', b'aes192-ctr', b'aes128-ctr'],
    'mac': [b'hmac-sha2-256-etm@openssh.com', b'hmac-sha2-512-etm@openssh.com', b'umac-128-etm@openssh.com'],
    'comp': [b'none', b'zlib@openssh.com'],
}


def full_lists(k):
    """Expand the short form {kex,key,enc,mac,comp} (optionally with enc_c2s, ...) to the ten lists."""
    out = {}
    out['kex'] = [b(x) for x in k.get('kex', [])]
    out['key'] = [b(x) for x in k.get('key', [])]
    for f, short in (('enc_c2s', 'enc'), ('enc_s2c', 'enc'), ('mac_c2s', 'mac'), ('mac_s2c', 'mac'),
                     ('comp_c2s', 'comp'), ('comp_s2c', 'comp'), ('lang_c2s', 'lang'), ('lang_s2c', 'lang')):
        out[f] = [b(x) for x in k.get(f, k.get(short, []))]
    return out


class ServerCfg(dict):
    """Keys (all optional):
    banner      bytes   identification string without line ending
    eol         bytes   line ending of banner/prebanner lines (default CR LF)
    prebanner   [bytes] lines sent before the banner
    kexinit     dict    short or full name-list dict (see full_lists)
    hostkeys    {str: bytes} host key blob per host-key algorithm name
    gex         {'style':..., 'moduli':[...]} or None (refuse: close on request)
    ssh1        dict    SSH-1 server: {'cmask','amask','hbits','hn','he','sbits','sn','se','pflags'}
    segment     int     deliver output in chunks of this many bytes
    ignore_kinds dict   {packet kind: n}: n MSG_IGNORE messages in front of every packet of that kind
    debug_kinds dict    {packet kind: n}: n MSG_DEBUG messages in front of every packet of that kind (kexreply, gexgroup, gexreply, ...)
    debug       int     number of MSG_DEBUG messages put before every reply
    mutate      callable(n, kind, idx, data) -> [items]  transformation of each outgoing message
    kexinit_with_banner bool  send KEXINIT right after the banner without waiting
    wrong_version_text  bytes  if set, an SSH-2 banner from the tool is answered with this text and EOF
    banner_after_client bool  say nothing until the client has sent its identification string
    maxstartups_after   int   connections numbered above this get "Exceeded MaxStartups" and are closed
    refuse_after        int   connections numbered above this are refused
    gone_after_banner   errno the server sends its lines and is gone: the client's writes fail with this errno, the lines can still be read
    negotiate           bool  disconnect a client whose KEXINIT shares no key exchange / host key / cipher / compression with the server's
    """


class SshServer:
    def __init__(self, cfg, world, n, addr, k=None):
        self.cfg = cfg
        self.world = world
        self.n = n                      # connection number in the whole run (fake network)
        self.k = k if k is not None else n      # connection number at this server
        self.dec = wire.StreamDecoder()
        self.out_idx = 0
        self.client_kexinit = None
        self.kexinit_sent = False
        self.sock = None
        self.done = False

    # -- output ----------------------------------------------------------
    def emit(self, sock, kind, data, perturbation=False):
        cfg = self.cfg
        items = [data]
        mut = cfg.get('mutate')
        if mut is not None:
            items = mut(self.k, kind, self.out_idx, data)
        # re-segmenting the same bytes is a legal delivery, not tampering
        same_bytes = all(isinstance(it, (bytes, bytearray)) for it in items) and b''.join(items) == bytes(data)
        tainted = perturbation or not same_bytes
        self.out_idx += 1
        seg = cfg.get('segment')
        for it in items:
            if isinstance(it, (bytes, bytearray)) and seg:
                for i in range(0, len(it), seg):
                    sock.push(it[i:i + seg], tainted)
            elif isinstance(it, (bytes, bytearray)):
                sock.push(it, tainted)
            else:
                sock.push(it)
            if it in (EOF, RESET):
                self.done = True

    def emit_packet(self, sock, kind, payload):
        # SSH_MSG_DEBUG messages in front of every packet (`debug`), or only in front of packets of given kinds (`debug_kinds`)
        for _ in range(self.cfg.get('debug', 0) + (self.cfg.get('debug_kinds') or {}).get(kind, 0)):
            # (RFC 4253 11.3: always_display, message in ISO-10646 UTF-8, language tag.  `debug_body`: another body - text that is not
            # UTF-8, a body that is cut short: a receiver has to skip the message all the same)
            dbg = bytes([MSG_DEBUG]) + (self.cfg.get('debug_body') if self.cfg.get('debug_body') is not None else bytes([0]) + wire.string(b'debug message') + wire.string(b''))
            self.emit(sock, 'debug', wire.frame(dbg), perturbation=True)
        # SSH_MSG_IGNORE in front of packets of given kinds (legal, but the probes do not expect it: they give the probe up)
        for _ in range((self.cfg.get('ignore_kinds') or {}).get(kind, 0)):
            self.emit(sock, 'ignore', wire.frame(bytes([2]) + wire.string(b'padding')), perturbation=True)
        self.emit(sock, kind, wire.frame(payload))

    # -- events ----------------------------------------------------------
    def on_connect(self, sock):
        self.sock = sock
        cfg = self.cfg
        eol = cfg.get('eol', b'\r\n')
        if cfg.get('maxstartups_after') is not None and self.k > cfg['maxstartups_after']:
            sock.push(b'Exceeded MaxStartups\r\n')
            sock.push(EOF)
            self.done = True
            return
        if cfg.get('banner_after_client'):
            return
        for line in cfg.get('prebanner', []):
            self.emit(sock, 'prebanner', b(line) + eol)
        if cfg.get('banner') is not None:
            self.emit(sock, 'banner', b(cfg['banner']) + eol)
        if cfg.get('gone_after_banner') is not None:
            # the server says what it has to say and goes away before the client has written anything: the client's writes fail (with the errno
            # given), what the server sent is still there to be read, then the stream ends
            sock.send_fails = cfg['gone_after_banner']
            sock.push(EOF)
            self.done = True
            return
        if cfg.get('kexinit_with_banner'):
            self.send_kexinit(sock)

    def send_kexinit(self, sock):
        if self.kexinit_sent or self.done:
            return
        self.kexinit_sent = True
        cfg = self.cfg
        if cfg.get('ssh1') is not None:
            return
        lists = full_lists(cfg.get('kexinit', DEFAULT_KEXINIT))
        payload = wire.build_kexinit(lists, follows=cfg.get('follows', False), reserved=cfg.get('reserved', 0))
        self.emit_packet(sock, 'kexinit', payload)

    def on_data(self, sock, data):
        try:
            evs = self.dec.feed(data)
        except Exception as e:  # the independent decoder must never take the harness down
            self.world.log(ev='srv_decode_error', n=self.n, err=repr(e))
            return
        for kind, val in evs:
            if kind == 'banner':
                self.world.log(ev='send', n=self.n, type='banner', line=val.decode('latin-1'))
                if not self.done:
                    self.on_client_banner(sock, val)
            else:
                self.on_packet(sock, val)
        for v in self.dec.violations:
            self.world.log(ev='framing_violation', n=self.n, what=v)
        self.dec.violations = []

    def on_client_banner(self, sock, line):
        cfg = self.cfg
        if cfg.get('banner_after_client'):
            eol = cfg.get('eol', b'\r\n')
            for pl in cfg.get('prebanner', []):
                self.emit(sock, 'prebanner', b(pl) + eol)
            self.emit(sock, 'banner', b(cfg['banner']) + eol)
        ssh1 = cfg.get('ssh1')
        if cfg.get('wrong_version_always'):
            self.emit(sock, 'text', cfg.get('wrong_version_text') or b'Protocol major versions differ.')
            sock.push(EOF)
            self.done = True
            return
        if ssh1 is not None:
            if line.startswith(b'SSH-2') and cfg.get('wrong_version_text') is not None:
                self.emit(sock, 'text', cfg['wrong_version_text'])
                self.emit(sock, 'eof', b'')
                sock.push(EOF)
                self.done = True
                return
            self.dec.ssh1 = True
            pkm = (ssh1.get('cookie', b'\x22' * 8) + wire.u32(ssh1.get('sbits', 768)) +
                   wire.mpint1(ssh1.get('se', 65537)) + wire.mpint1(ssh1.get('sn', _rand_int_bits(768, 's1s'))) +
                   wire.u32(ssh1.get('hbits', 1024)) +
                   wire.mpint1(ssh1.get('he', 65537)) + wire.mpint1(ssh1.get('hn', _rand_int_bits(1024, 's1h'))) +
                   wire.u32(ssh1.get('pflags', 2)) + wire.u32(ssh1['cmask']) + wire.u32(ssh1['amask']))
            self.emit(sock, 'pkm', wire.frame1(2, pkm))
            self.done = True
            return
        self.send_kexinit(sock)

    def _hostkey_for(self):
        hk = self.cfg.get('hostkeys', {})
        want = [x.decode('latin-1') for x in (self.client_kexinit or {}).get('key', [])]
        for t in want:
            if t in hk:
                return hk[t]
        return None

    def on_packet(self, sock, payload):
        t = payload[0]
        w = self.world
        if self.client_kexinit is None and t not in (MSG_KEXINIT, 1, 2, 3, 4) and not self.cfg.get('lenient_first_packet'):
            # before its KEXINIT a client may only send transport-layer generic messages: a server drops anything else
            w.log(ev='protocol_violation', n=self.n, what='first packet has type %d, not KEXINIT' % t, head=bytes(payload[:8]).hex())
            self.emit(sock, 'eof', b'')
            sock.push(EOF)
            self.done = True
            return
        if t == MSG_KEXINIT:
            try:
                ck = wire.parse_kexinit(payload[1:])
            except Exception as e:
                w.log(ev='send', n=self.n, type=20, bad=repr(e))
                return
            self.client_kexinit = ck
            w.log(ev='send', n=self.n, type=20, kex=[x.decode('latin-1') for x in ck['kex']],
                  key=[x.decode('latin-1') for x in ck['key']], trailing=ck['trailing'])
            if self.cfg.get('negotiate') and not self.done:
                # RFC 4253 7.1: a server that negotiates - no algorithm in common in some list (MACs left aside: an AEAD cipher needs none),
                # and it disconnects
                mine = full_lists(self.cfg.get('kexinit', DEFAULT_KEXINIT))
                for f in ('kex', 'key', 'enc_c2s', 'enc_s2c', 'comp_c2s', 'comp_s2c'):
                    if not [x for x in ck.get(f, []) if x in mine.get(f, [])]:
                        w.log(ev='negotiation_failed', n=self.n, field=f)
                        disc = bytes([MSG_DISCONNECT]) + wire.u32(3) + wire.string(b'no matching ' + f.encode() + b' found') + wire.string(b'')
                        self.emit_packet(sock, 'disconnect', disc)
                        sock.push(EOF)
                        self.done = True
                        return
        elif t == MSG_KEXDH_INIT:
            w.log(ev='send', n=self.n, type=30)
            if self.done:
                return
            blob = self._hostkey_for()
            if blob is None:
                self.emit(sock, 'eof', b'')
                sock.push(EOF)
                self.done = True
                return
            reply = bytes([MSG_KEXDH_REPLY]) + wire.string(blob) + wire.string(b'\x07' * 32) + \
                wire.string(wire.string(b'ssh-ed25519') + wire.string(b'\x00' * 64))
            self.emit_packet(sock, 'kexreply', reply)
            if self.cfg.get('newkeys_after_reply'):
                # what OpenSSH does: SSH_MSG_NEWKEYS follows the reply at once (same segment)
                self.emit_packet(sock, 'newkeys', bytes([21]))
        elif t == MSG_GEX_REQUEST:
            r = wire.Reader(payload[1:])
            try:
                mn, pref, mx = r.u32(), r.u32(), r.u32()
            except ValueError:
                w.log(ev='send', n=self.n, type=34, bad='short')
                return
            gex = self.cfg.get('gex')
            if gex is not None and 'per_alg' in gex:
                alg = ((self.client_kexinit or {}).get('kex') or [b''])[0].decode('latin-1')
                gex = gex['per_alg'].get(alg)
            bits = None
            if gex is not None:
                bits = gex_select(gex['style'], gex['moduli'], mn, pref, mx)
            w.log(ev='send', n=self.n, type=34, min=mn, pref=pref, max=mx, answer=bits if bits is not None else 0)
            if self.done:
                return
            if bits is None:
                if gex is not None and gex.get('refuse', 'disconnect') == 'stall':
                    sock.push(STALL)
                else:
                    disc = bytes([MSG_DISCONNECT]) + wire.u32(2) + wire.string(b'no matching DH grp found') + wire.string(b'')
                    self.emit_packet(sock, 'disconnect', disc)
                    sock.push(EOF)
                self.done = True
                return
            grp = bytes([MSG_GEX_GROUP]) + wire.mpint(group_prime(bits)) + wire.mpint(gex.get('g', 1) if gex else 1)
            self.emit_packet(sock, 'gexgroup', grp)
        elif t == MSG_GEX_INIT:
            w.log(ev='send', n=self.n, type=32)
            if self.done:
                return
            blob = self._hostkey_for()
            if blob is None:
                blob = ed25519_blob()
            reply = bytes([MSG_GEX_REPLY]) + wire.string(blob) + wire.mpint(5) + \
                wire.string(wire.string(b'ssh-ed25519') + wire.string(b'\x00' * 64))
            self.emit_packet(sock, 'gexreply', reply)
            if self.cfg.get('newkeys_after_reply'):
                self.emit_packet(sock, 'newkeys', bytes([21]))
        else:
            w.log(ev='send', n=self.n, type=int(t))


def server_factory(cfg):
    count = [0]

    def f(world, n, addr):
        count[0] += 1
        if cfg.get('refuse_after') is not None and count[0] > cfg['refuse_after']:
            return None
        return SshServer(cfg, world, n, addr, count[0])
    return f


# ---------------------------------------------------------------------------
# scripted client (for -c client audits)
# ---------------------------------------------------------------------------
class SshClient:
    def __init__(self, cfg, world, n, addr):
        self.cfg = cfg
        self.world = world
        self.n = n
        self.k = n
        self.out_idx = 0
        self.done = False
        self.dec = wire.StreamDecoder()

    def emit(self, sock, kind, data, perturbation=False):
        return SshServer.emit(self, sock, kind, data, perturbation=perturbation)

    def on_connect(self, sock):
        cfg = self.cfg
        eol = cfg.get('eol', b'\r\n')
        for line in cfg.get('prebanner', []):
            self.emit(sock, 'prebanner', b(line) + eol)
        if cfg.get('banner') is not None:
            self.emit(sock, 'banner', b(cfg['banner']) + eol)
        lists = full_lists(cfg.get('kexinit', DEFAULT_KEXINIT))
        payload = wire.build_kexinit(lists)
        for _ in range(cfg.get('debug', 0)):
            # (RFC 4253 11.3: always_display, message in ISO-10646 UTF-8, language tag.  `debug_body`: another body - text that is not
            # UTF-8, a body that is cut short: a receiver has to skip the message all the same)
            dbg = bytes([MSG_DEBUG]) + (self.cfg.get('debug_body') if self.cfg.get('debug_body') is not None else bytes([0]) + wire.string(b'debug message') + wire.string(b''))
            self.emit(sock, 'debug', wire.frame(dbg), perturbation=True)
        self.emit(sock, 'kexinit', wire.frame(payload))

    def on_data(self, sock, data):
        try:
            for kind, val in self.dec.feed(data):
                if kind == 'banner':
                    self.world.log(ev='send', n=self.n, type='banner', line=val.decode('latin-1'))
                else:
                    t = val[0]
                    self.world.log(ev='send', n=self.n, type=int(t))
        except Exception as e:
            self.world.log(ev='srv_decode_error', n=self.n, err=repr(e))
        for v in self.dec.violations:
            self.world.log(ev='framing_violation', n=self.n, what=v)
        self.dec.violations = []


def client_factory(cfg):
    def f(world, n, addr):
        return SshClient(cfg, world, n, addr)
    return f
