"""Independent SSH wire codec used by the harness' peers and by the C10 decoder.

Deliberately shares no code with /repo: values built here are what a third-party
implementation would put on the wire.
"""
import struct
import zlib


def u32(n):
    return struct.pack('>I', n)


def string(b):
    if isinstance(b, str):
        b = b.encode('utf-8', 'surrogateescape')
    return u32(len(b)) + b


def namelist(names):
    return string(b','.join(n if isinstance(n, bytes) else n.encode('utf-8', 'surrogateescape') for n in names))


def mpint(n):
    """RFC 4251 mpint (two's complement, minimal)."""
    if n == 0:
        return u32(0)
    if n > 0:
        ln = (n.bit_length() + 8) // 8          # room for sign bit
        b = n.to_bytes(ln, 'big')
        if len(b) > 1 and b[0] == 0 and b[1] < 0x80:
            b = b[1:]
        return string(b)
    ln = ((-n - 1).bit_length() + 8) // 8
    b = n.to_bytes(ln, 'big', signed=True)
    while len(b) > 1 and b[0] == 0xff and b[1] >= 0x80:
        b = b[1:]
    return string(b)


def mpint_decode(b):
    if len(b) == 0:
        return 0
    return int.from_bytes(b, 'big', signed=True)


def mpint1(n):
    """SSH-1 mpint: 16-bit bit count + ceil(bits/8) bytes, unsigned."""
    bits = n.bit_length()
    return struct.pack('>H', bits) + n.to_bytes((bits + 7) // 8, 'big')


def frame(payload, pad_extra=0, padbyte=b'\x00', block=8):
    """RFC 4253 section 6 binary packet (no MAC, no encryption)."""
    pad = (-(len(payload) + 5)) % block
    if pad < 4:
        pad += block
    pad += block * pad_extra
    return u32(len(payload) + pad + 1) + bytes([pad]) + payload + padbyte * pad


def ssh1_crc32(data):
    """SSH-1 CRC-32: the IEEE polynomial with a zero initial value and no final inversion (protocol 1.5)."""
    return (zlib.crc32(data, 0xffffffff) ^ 0xffffffff) & 0xffffffff


def frame1(ptype, data, padbyte=0):
    """SSH-1 packet: length(4) | padding(1..8) | type(1) | data | crc32(4).  The CRC covers padding and body; `padbyte` seeds the
    padding (0: zero bytes; anything else: distinct non-zero bytes, as a real peer's random padding would be)."""
    body = bytes([ptype]) + data
    length = len(body) + 4
    padlen = 8 - length % 8
    pad = b'\x00' * padlen if not padbyte else bytes(((padbyte + 37 * i) % 255) + 1 for i in range(padlen))
    crc = ssh1_crc32(pad + body)
    return u32(length) + pad + body + u32(crc)


class Reader:
    def __init__(self, b):
        self.b = b
        self.i = 0

    def take(self, n):
        if self.i + n > len(self.b):
            raise ValueError('short')
        r = self.b[self.i:self.i + n]
        self.i += n
        return r

    def u8(self):
        return self.take(1)[0]

    def u32(self):
        return struct.unpack('>I', self.take(4))[0]

    def string(self):
        return self.take(self.u32())

    def namelist(self):
        s = self.string()
        return s.split(b',') if s else []

    def rest(self):
        return self.b[self.i:]


def parse_kexinit(payload):
    """payload without the message-type byte."""
    r = Reader(payload)
    d = {'cookie': r.take(16)}
    for k in ('kex', 'key', 'enc_c2s', 'enc_s2c', 'mac_c2s', 'mac_s2c', 'comp_c2s', 'comp_s2c', 'lang_c2s', 'lang_s2c'):
        d[k] = r.namelist()
    d['follows'] = r.u8() != 0
    d['reserved'] = r.u32()
    d['trailing'] = len(r.rest())
    return d


KEXINIT_FIELDS = ('kex', 'key', 'enc_c2s', 'enc_s2c', 'mac_c2s', 'mac_s2c', 'comp_c2s', 'comp_s2c', 'lang_c2s', 'lang_s2c')


def build_kexinit(lists, cookie=b'\x11' * 16, follows=False, reserved=0):
    out = bytes([20]) + cookie
    for k in KEXINIT_FIELDS:
        out += namelist(lists.get(k, []))
    out += bytes([1 if follows else 0]) + u32(reserved)
    return out


class StreamDecoder:
    """Splits the byte stream a tool sends into: one banner line, then SSH-2 packets.
    Records every framing rule violation it sees (used by C10)."""

    def __init__(self, ssh1=False):
        self.buf = b''
        self.banner = None
        self.packets = []      # payload bytes (incl. type)
        self.violations = []
        self.ssh1 = ssh1

    def feed(self, data):
        self.buf += data
        out = []
        if self.banner is None:
            i = self.buf.find(b'\n')
            if i < 0:
                return out
            line = self.buf[:i + 1]
            self.buf = self.buf[i + 1:]
            self.banner = line
            out.append(('banner', line))
        while True:
            if len(self.buf) < 5:
                break
            plen = struct.unpack('>I', self.buf[:4])[0]
            if plen > 1 << 20:
                self.violations.append('packet_length %d too large' % plen)
                self.buf = b''
                break
            if len(self.buf) < 4 + plen:
                break
            pad = self.buf[4]
            pkt = self.buf[:4 + plen]
            self.buf = self.buf[4 + plen:]
            n = plen - pad - 1
            if (4 + plen) % 8 != 0:
                self.violations.append('total length %d not a multiple of 8' % (4 + plen))
            if pad < 4:
                self.violations.append('padding %d < 4' % pad)
            if n < 1:
                self.violations.append('empty payload (plen=%d pad=%d)' % (plen, pad))
                continue
            payload = pkt[5:5 + n]
            self.packets.append(payload)
            out.append(('packet', payload))
        return out
