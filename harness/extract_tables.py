"""Exports the live knowledge tables of /repo's working tree as JSON for the TLA+ specs
(constant `Tables` of SshRating / SshTablesCheck).  Pure transport: entries are copied, version
strings are split into records, nothing is rated here.  A table that cannot be found is a
machinery failure.
"""
import json
import re

from . import runner
from .common import Machinery


def _ver(v):
    """'7.4' | 'd2018.76' | 'l10.6.4' | '6.5C' -> record; None if not a version."""
    if not v:
        return None
    cli = v.endswith('C')
    if cli:
        v = v[:-1]
    if v.startswith('d'):
        prod, v = 'Dropbear SSH', v[1:]
    elif v.startswith('l1'):
        prod, v = 'libssh', v[2:]
    else:
        prod = 'OpenSSH'
    if not v:
        return None
    m = re.match(r'^(\d+(?:\.\d+)*)(?:p(\d+))?$', v)
    if not m:
        raise Machinery('unparseable version %r in the rating database' % v)
    comps = [int(x) for x in m.group(1).split('.')]
    patch = ['p', int(m.group(2))] if m.group(2) else ['none', 0]
    return {'prod': prod, 'c': comps, 'p': patch, 'cli': cli, 'text': v}


def since_text(vers):
    """Rendering of the 'available since' note (transport of the version list into the report's wording)."""
    tv = []
    for r in vers:
        if r['prod'] == 'libssh':
            continue
        t = r['text'] + (' (client only)' if r['cli'] else '')
        tv.append('%s %s' % (r['prod'], t))
    return 'available since ' + ', '.join(tv) if tv else ''


def _entry(desc):
    versions = desc[0] if len(desc) > 0 else []
    first = versions[0] if len(versions) > 0 else None
    vers = []
    empty = first is None or len(versions) == 0
    if not empty:
        for v in first.split(','):
            r = _ver(v)
            if r is not None:
                vers.append(r)
    def lst(i):
        return [x for x in (desc[i] if len(desc) > i else []) if x is not None]
    return {
        'shape_len': len(desc),
        'shape_ok': all(isinstance(x, list) and all(y is None or isinstance(y, str) for y in x) for x in desc),
        'versions_raw': [x if x is not None else '' for x in versions],
        'empty_version': bool(empty),
        'vers': vers,
        'since': since_text(vers) if not empty else '',
        'fail': lst(1), 'warn': lst(2), 'info': lst(3),
    }


def extract():
    runner.load_repo()
    try:
        from ssh_audit.ssh2_kexdb import SSH2_KexDB
        from ssh_audit.ssh1_kexdb import SSH1_KexDB
        from ssh_audit.builtin_policies import BUILTIN_POLICIES
        from ssh_audit.hostkeytest import HostKeyTest
        from ssh_audit.dheat import DHEat
    except Exception as e:
        raise Machinery('cannot import the knowledge tables: %r' % (e,))
    t = {'db2': {}, 'db1': {}}
    for cat, entries in SSH2_KexDB.MASTER_DB.items():
        t['db2'][cat] = {name: _entry(desc) for name, desc in entries.items()}
    for cat, entries in SSH1_KexDB.MASTER_DB.items():
        t['db1'][cat] = {name: _entry(desc) for name, desc in entries.items()}
    pol = {}
    for name, p in BUILTIN_POLICIES.items():
        pol[name] = {
            'version': str(p.get('version')), 'server': bool(p.get('server_policy')),
            'host_keys': p.get('host_keys') or [], 'optional_host_keys': p.get('optional_host_keys') or [],
            'kex': p.get('kex') or [], 'ciphers': p.get('ciphers') or [], 'macs': p.get('macs') or [],
            'hostkey_sizes': {k: {'hostkey_size': v.get('hostkey_size', 0), 'ca_key_type': v.get('ca_key_type', ''),
                                  'ca_key_size': v.get('ca_key_size', 0)} for k, v in (p.get('hostkey_sizes') or {}).items()},
            'dh_modulus_sizes': p.get('dh_modulus_sizes') or {},
            'has_banner': p.get('banner') is not None, 'has_compressions': p.get('compressions') is not None,
        }
    t['policies'] = pol
    t['hostkey_types'] = {k: {'cert': bool(v['cert']), 'variable': bool(v['variable_key_len'])} for k, v in HostKeyTest.HOST_KEY_TYPES.items()}
    t['rsa_family'] = list(HostKeyTest.RSA_FAMILY)
    t['dheat'] = {'gex_algs': list(DHEat.gex_algs), 'alg_priority': list(DHEat.alg_priority),
                  'alg_modulus_sizes': {k: int(v) for k, v in DHEat.alg_modulus_sizes.items()},
                  'tested_algs': list(DHEat.tested_algs)}
    try:
        from ssh_audit.ssh1 import SSH1
        # the names an SSH-1 public-key message's bit masks are spelled out with (auth bit 0 is never reported)
        t['ssh1_names'] = {'ciphers': [str(x) for x in SSH1.CIPHERS], 'auths': [str(x) for x in SSH1.AUTHS[1:]]}
    except Exception as e:
        raise Machinery('cannot import the SSH-1 name tables: %r' % (e,))
    return t


def tables_json():
    return json.dumps(extract())
