"""Invoking TLC and reading what it says.

run() copies nothing: it builds a scratch directory with symlinks to /verif/spec/*.tla plus
generated modules and the cfg, runs TLC there, parses its output (state counts, PrintT JSON
lines, invariant violations, per-action coverage) and removes the directory.
"""
import json
import os
import re
import shutil
import subprocess
import tempfile
import time

SPEC_DIR = os.path.join(os.path.dirname(os.path.dirname(os.path.abspath(__file__))), 'spec')
JAR = '/opt/veriftools/tla/tla2tools.jar:/opt/veriftools/tla/CommunityModules-deps.jar'


class TlcError(Exception):
    """Machinery failure (exit 2 of a check), never a property violation."""


class TlcResult:
    def __init__(self):
        self.ok = False
        self.generated = 0
        self.distinct = 0
        self.depth = 0
        self.prints = []          # decoded JSON values printed with PrintT(ToJson(..))
        self.raw_prints = []      # other PrintT lines
        self.violated = None      # name of violated invariant/property, if any
        self.error_text = ''
        self.coverage = {}        # action name -> (distinct, total)
        self.wall = 0.0
        self.cmd = ''
        self.out = ''
        self.trace = []           # counterexample states as text


def _parse(out, res):
    m = None
    for m in re.finditer(r'(\d+) states generated, (\d+) distinct states found', out):
        pass
    if m:
        res.generated, res.distinct = int(m.group(1)), int(m.group(2))
    m = re.search(r'The depth of the complete state graph search is (\d+)', out)
    if m:
        res.depth = int(m.group(1))
    m = re.search(r'Error: Invariant (\S+) is violated', out)
    if m:
        res.violated = m.group(1)
    m2 = re.search(r'Error: Action property (\S+) is violated', out)
    if m2:
        res.violated = m2.group(1)
    if 'Error: Temporal properties were violated' in out:
        res.violated = res.violated or 'TemporalProperty'
    if 'Error: Deadlock reached' in out:
        res.violated = res.violated or 'Deadlock'
    for line in out.splitlines():
        s = line.strip()
        if len(s) >= 2 and s[0] == '"' and s[-1] == '"':
            try:
                inner = json.loads(s)          # TLC prints the string with TLA+ escapes == JSON escapes here
            except ValueError:
                res.raw_prints.append(s)
                continue
            try:
                res.prints.append(json.loads(inner))
            except ValueError:
                res.raw_prints.append(inner)
    # coverage: "<Action line 12, col 1 to line 14, col 20 of module M>: 12:34"
    for m in re.finditer(r'^<(\w+) line \d+, col \d+ to line \d+, col \d+ of module (\w+)>: (\d+):(\d+)', out, re.M):
        name = m.group(1)
        d, t = int(m.group(3)), int(m.group(4))
        od, ot = res.coverage.get(name, (0, 0))
        res.coverage[name] = (od + d, ot + t)
    errs = [l for l in out.splitlines() if l.startswith('Error:')]
    res.error_text = '\n'.join(errs)
    if res.violated:
        i = out.find('Error:')
        res.trace = out[i:i + 20000].splitlines()


def run(module, cfg, generated=None, env=None, workers=None, timeout=1800, simulate=None, depth=None,
        coverage=False, extra_args=(), deque=False, keep=False, seed=None, check_deadlock=False):
    """module: root module name (file in spec/ or in `generated`); cfg: text of the cfg file.
    generated: {filename: text} extra files (modules, json inputs) put next to the specs."""
    tmp = tempfile.mkdtemp(prefix='vtlc-')
    res = TlcResult()
    try:
        for f in os.listdir(SPEC_DIR):
            if f.endswith('.tla'):
                os.symlink(os.path.join(SPEC_DIR, f), os.path.join(tmp, f))
        for name, text in (generated or {}).items():
            p = os.path.join(tmp, name)
            if os.path.islink(p):
                os.unlink(p)
            with open(p, 'w', encoding='utf-8') as fh:
                fh.write(text)
        with open(os.path.join(tmp, module + '.cfg'), 'w') as fh:
            fh.write(cfg)
        w = str(workers or os.environ.get('VERIF_JOBS') or 'auto')
        # (TLC creates an empty directory tlc-<n> in java.io.tmpdir on every start and leaves it behind: keep it inside the scratch directory)
        cmd = ['java', '-XX:+UseParallelGC', '-Xmx8g', '-Xss256m', '-Djava.io.tmpdir=' + tmp]
        if deque:
            cmd.append('-Dtlc2.tool.queue.IStateQueue=StateDeque')
        cmd += ['-cp', JAR, 'tlc2.TLC', '-workers', w, '-metadir', os.path.join(tmp, 'states'),
                '-noGenerateSpecTE', '-config', module + '.cfg']
        if not check_deadlock:
            cmd.append('-deadlock')
        if coverage:
            cmd += ['-coverage', '1']
        if simulate:
            cmd += ['-simulate', simulate]
            if depth:
                cmd += ['-depth', str(depth)]
        if seed is not None:
            cmd += ['-seed', str(seed)]
        cmd += list(extra_args)
        cmd.append(module + '.tla')
        e = dict(os.environ)
        e.update(env or {})
        t0 = time.time()
        try:
            p = subprocess.run(cmd, cwd=tmp, env=e, stdout=subprocess.PIPE, stderr=subprocess.STDOUT,
                               timeout=timeout, text=True, errors='replace')
        except subprocess.TimeoutExpired as ex:
            if simulate:
                out = ex.stdout or ''
                if isinstance(out, bytes):
                    out = out.decode('utf-8', 'replace')
                res.out = out
                _parse(out, res)
                res.ok = res.violated is None
                res.wall = time.time() - t0
                return res
            raise TlcError('TLC timed out after %ss on %s' % (timeout, module))
        res.wall = time.time() - t0
        res.cmd = ' '.join(cmd)
        res.out = p.stdout
        _parse(p.stdout, res)
        if res.violated is None and p.returncode != 0:
            i = p.stdout.find('Error:')
            tail = p.stdout[i:i + 1500] if i >= 0 else '\n'.join(p.stdout.splitlines()[-40:])
            raise TlcError('TLC failed on %s (rc=%d):\n%s' % (module, p.returncode, tail))
        res.ok = res.violated is None
        if keep:
            res.tmp = tmp
        return res
    finally:
        if not keep:
            shutil.rmtree(tmp, ignore_errors=True)


def sany(module_file):
    cmd = ['java', '-cp', JAR, 'tla2sany.SANY', module_file]
    p = subprocess.run(cmd, cwd=os.path.dirname(module_file), stdout=subprocess.PIPE, stderr=subprocess.STDOUT, text=True)
    ok = p.returncode == 0 and 'Semantic errors' not in p.stdout and 'Parse Error' not in p.stdout and '*** Errors' not in p.stdout
    return ok, p.stdout


def tla_bytes(s):
    """Python bytes/str -> TLA+ tuple literal of byte values."""
    if isinstance(s, str):
        s = s.encode('utf-8', 'surrogateescape')
    return '<<' + ','.join(str(c) for c in s) + '>>'


def to_bytes_list(s):
    if isinstance(s, str):
        s = s.encode('utf-8', 'surrogateescape')
    return list(s)


def from_bytes_list(l):
    return bytes(l)
