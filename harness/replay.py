"""./check replay <file>: show a recorded violation and, where the replay holds a rating-family case, re-run it."""
import json

from . import common


def run(path):
    d = json.load(open(path))
    print('property   :', d['property'])
    print('signature  :', d['signature'])
    print('cases      :', d['count'])
    print('description:', d['description'])
    r = d.get('replay') or {}
    for k in ('argv', 'fault', 'archetype', 'targets', 'threads', 'finish_order', 'perturbation', 'expected_status', 'exit'):
        if k in r:
            print('%-11s: %r' % (k, r[k]))
    c = r.get('case')
    if isinstance(c, dict) and 'kex' in c and 'role' in c:
        from checks import rating
        from . import runner
        view = r.get('view', 'text')
        if view not in rating.VIEW_ARGS:
            view = 'text'
        ck = common.Check(d['property'], 'quick')
        exp = rating.evaluate(ck, [c])[c['id']]
        res = runner.run_one(rating.scenario(c, view))
        print('--- re-run, exit status %r (the rule implies %r) ---' % (res['exit'], exp['status']))
        print(res['stdout'][-3000:])
        tx = rating.parse_view(res, view, exp) if view not in ('json', 'jsonindent') else None
        for name, fn in (('names', rating.compare_names), ('notes', rating.compare_notes), ('terrapin', rating.compare_terrapin), ('recs', rating.compare_recs)):
            diffs = fn(c, exp, text=tx) if tx is not None else fn(c, exp, js=rating.parse_view(res, view, exp))
            for sig, desc in diffs:
                print('DIFF [%s] %s: %s' % (name, sig, desc))
    else:
        print('--- recorded output ---')
        print((r.get('stdout') or '')[-3000:])
    return 0
