#!/usr/bin/env python3
"""Evaluate a seeded change against the checks.

  tools/seedcheck.py <dir with patch.diff, demo.py, meta.json> <seed-id> [Cxx ...] [--tier quick|thorough] [--keep]

Applies the patch to /repo (never commits), confirms that the repository's own tests still pass and that the demo fails,
runs the given checks (default: the property named in meta.json) and records which of them report a VIOLATION, then
restores /repo (git checkout -- .) and confirms that the demo passes on the clean tree.  With --keep the seed is copied to
/verif/seeded/<seed-id>/ together with the record of what was run.
"""
import json
import os
import shutil
import subprocess
import sys
import time

REPO = '/repo'
VERIF = os.path.dirname(os.path.dirname(os.path.abspath(__file__)))


def sh(cmd, cwd=None, env=None, timeout=3600):
    p = subprocess.run(cmd, cwd=cwd, env=env, stdout=subprocess.PIPE, stderr=subprocess.STDOUT, text=True, timeout=timeout)
    return p.returncode, p.stdout


def main(argv):
    keep = '--keep' in argv
    tier = 'quick'
    if '--tier' in argv:
        tier = argv[argv.index('--tier') + 1]
    args = [a for a in argv if not a.startswith('--') and a not in ('quick', 'thorough')]
    src, sid = args[0], args[1]
    meta = json.load(open(os.path.join(src, 'meta.json')))
    checks = args[2:] or [meta['property']]
    patch = os.path.abspath(os.path.join(src, 'patch.diff'))
    demo = os.path.abspath(os.path.join(src, 'demo.py'))
    rec = {'seed': sid, 'property': meta['property'], 'checks': {}, 'ran_at': time.strftime('%Y-%m-%d %H:%M:%S')}
    # work on a scratch clone of /repo's HEAD (outside /repo and /verif, removed afterwards): /repo itself is never modified,
    # so seeds can be evaluated while other checks run against /repo
    import tempfile
    tmp = tempfile.mkdtemp(prefix='vseed-')
    repo = os.path.join(tmp, 'repo')
    try:
        rc, out = sh(['git', 'clone', '-q', '--no-hardlinks', REPO, repo])
        if rc != 0:
            print('clone failed:\n' + out)
            return 2
        env = dict(os.environ, PYTHONPATH=os.path.join(repo, 'src'), PYTHONHASHSEED='0')
        rc, out = sh(['/venv/bin/python', demo], cwd=os.path.dirname(demo), env=env, timeout=300)
        rec['demo_clean_exit'] = rc
        rc, out = sh(['git', 'apply', '--3way', patch], cwd=repo)
        if rc != 0:
            rc, out = sh(['git', 'apply', patch], cwd=repo)
            if rc != 0:
                print('patch does not apply to /repo HEAD:\n' + out)
                return 2
        rc, out = sh(['/venv/bin/python', '-m', 'pytest', '-q', '-p', 'no:cacheprovider'], cwd=repo, env=dict(os.environ, PYTHONPATH=os.path.join(repo, 'src')))
        rec['tests_pass_with_patch'] = (rc == 0)
        rec['tests_tail'] = out.strip().splitlines()[-1] if out.strip() else ''
        rc, out = sh(['/venv/bin/python', demo], cwd=os.path.dirname(demo), env=env, timeout=300)
        rec['demo_with_patch_exit'] = rc
        rec['demo_with_patch_tail'] = out.strip().splitlines()[-3:]
        for c in checks:
            t0 = time.time()
            rc, out = sh([os.path.join(VERIF, 'check'), c, tier], cwd=VERIF, env=dict(os.environ, VERIF_REPO=repo, VERIF_NO_EVIDENCE='1'), timeout=7200)
            sigs = [l.strip() for l in out.splitlines() if l.strip().startswith('signature=')]
            rec['checks'][c] = {'exit': rc, 'violations': out.count('\nVIOLATION') + (1 if out.startswith('VIOLATION') else 0),
                                'signatures': [s[:300] for s in sigs[:8]], 'wall_s': round(time.time() - t0, 1),
                                'machinery_failure': 'MACHINERY-FAILURE' in out, 'tail': out.strip().splitlines()[-2:]}
    finally:
        shutil.rmtree(tmp, ignore_errors=True)
    caught = [c for c, v in rec['checks'].items() if v['exit'] == 1]
    rec['caught_by'] = caught
    print(json.dumps(rec, indent=1))
    if keep:
        dst = os.path.join(VERIF, 'seeded', sid)
        os.makedirs(dst, exist_ok=True)
        for f in ('patch.diff', 'demo.py'):
            shutil.copy(os.path.join(src, f), os.path.join(dst, f))
        m = dict(meta)
        m.update({'seed_id': sid, 'breaks_property': meta['property'], 'what_it_needs_to_manifest': meta.get('needs'),
                  'what_was_run': rec})
        json.dump(m, open(os.path.join(dst, 'meta.json'), 'w'), indent=1)
    return 0


if __name__ == '__main__':
    sys.exit(main(sys.argv[1:]))
