#!/usr/bin/env python3
"""Prints the markdown table of seeded changes (DESIGN.md 14.5) from seeded/*/meta.json."""
import glob
import json
import os

ROOT = os.path.dirname(os.path.dirname(os.path.abspath(__file__)))


def clip(s, n=230):
    s = ' '.join(str(s).split()).replace('|', '/')
    return s if len(s) <= n else s[:n].rstrip() + ' ...'


def main():
    print('| seed | change | needs | caught by: signature |')
    print('|---|---|---|---|')
    for d in sorted(glob.glob(os.path.join(ROOT, 'seeded', '*'))):
        m = json.load(open(os.path.join(d, 'meta.json')))
        run = m.get('what_was_run', {})
        caught = []
        for c, v in run.get('checks', {}).items():
            if v.get('exit') == 1:
                sig = (v.get('signatures') or ['signature=?'])[0].split('signature=')[1].split(' count=')[0]
                caught.append('%s: `%s`' % (c, clip(sig, 90)))
        for extra in m.get('also_caught_by', []):
            caught.append(extra)
        if m.get('neutralised_by'):
            caught.append('(no longer breaks the property since the repair %s of /repo)' % m['neutralised_by'])
        print('| %s | %s | %s | %s |' % (m.get('seed_id', os.path.basename(d)), clip(m.get('summary', '')), clip(m.get('needs', m.get('what_it_needs_to_manifest', '')), 200),
                                        '; '.join(caught) or '**not caught**'))


if __name__ == '__main__':
    main()
