#!/usr/bin/env python3
"""Writes /verif/MANIFEST.json from the table below (one source of truth for the interface)."""
import json
import os

ROOT = os.path.dirname(os.path.dirname(os.path.abspath(__file__)))
BASE_OFF = ("cd /repo && env -u SSH_AUDIT_VERIF /venv/bin/python -m pytest -ra -q -p no:cacheprovider --timeout=900 "
            "--continue-on-collection-errors --junitxml=/tmp/ssh-audit-baseline.junit.xml")

TRUST_CLI = "TLC; the in-process fake network's fidelity to sockets (harness/fakenet.py); the report parsers (harness/report.py)"

CHECKS = {
    'C14': dict(
        category='model_checking',
        text=("SshVersion.tla is the reference order; TLC checks its laws (antisymmetry, transitivity, totality, monotone availability, "
              "numeric-not-textual) exhaustively on a small universe and computes the full comparison matrix of a larger universe, which is "
              "replayed pair by pair into Software.compare_version/between_versions through Banner.parse+Software.parse. The function is pure, "
              "so the assurance is the exhaustive replay of TLC's matrix, not state exploration. Compatibility ranges: SshVersion (frames mode) gives the range of sets of releases; replayed into Timeframe and, for lists of real database entries, into Algorithms.get_ssh_timeframe. The (gen) compatibility line as rendered is compared product by product."),
        design='8 C14, 9',
        note="TLC; releases are rendered as text by the harness (components joined by dots + patch suffix); pairs differing only in trailing .0 skipped",
        technique="TLA+ reference order model-checked with TLC; TLC-computed comparison matrix replayed into the code"),
}

RATING_NOTE = ("TLC; the in-process fake network (harness/fakenet.py, peers.py) standing in for sockets; the text/JSON report parsers "
               "(harness/report.py); the live rating tables exported by harness/extract_tables.py are the spec's constant DB")
CHECKS.update({
    'C01': dict(category='model_checking',
        text=("SshRating.tla models the report pipeline (one Render action per advertised name); invariant ShownIsAdvertised (names shown per category = "
              "non-blank advertised names, as sequences) is checked by TLC on every list of bounded length over {good,warn,fail,unknown,gss,blank} per "
              "category and role, and every emitted state is replayed through the real CLI in plain/batch/verbose/JSON; harness-chosen lists (every "
              "database name, long, non-UTF-8, duplicates) get their expected report from the same spec evaluated by TLC."),
        design='8 C01', note=RATING_NOTE, technique='TLC model checking of SshRating.tla; spec states replayed into the CLI (text and JSON)'),
    'C02': dict(category='model_checking',
        text=("The exit status is the fold SshRating!Fold over rendered lines; TLC checks ExitRule, StatusDomain and the action property StatusMonotone on "
              "all 4^4 severity mixes across categories and all bounded orderings within a category; each state is replayed under six option sets, and the "
              "recorded rated-event trace of every run is validated by TLC against TraceRating.tla (every invariant evaluated at every step). An entry-point leg starts the same audits through python -m ssh_audit, python -m ssh_audit.ssh_audit and the console script: same status."),
        design='8 C02', note=RATING_NOTE + '; the rated events come from the guarded wrapper around output_algorithm (harness/observe.py)',
        technique='TLC model checking + trace validation of recorded runs against TraceRating.tla'),
    'C03': dict(category='model_checking',
        text=("One rating operator SshRating!Line(case, cat, name) defines all views; TLC checks PositionIndependent and UnknownFlagged on every case and "
              "supplies the expected notes for every database name in four positions, two roles, sized contexts; text, JSON and --lookup output of the real "
              "CLI are compared with it per level. Sized host certificates of every certificate type (short and long table entries) are among the cases."),
        design='8 C03', note=RATING_NOTE, technique='TLC-evaluated rating operator as oracle for text/JSON/--lookup of every database name'),
    'C04': dict(category='model_checking',
        text=("The Terrapin rule (Marker, VulnEnc, VulnMac, Advisory, Suppressed) is written from the published rule in SshRating.tla; TLC enumerates the whole "
              "class space (role x marker x ChaCha x CBC x ETM x others; exhaustive) deciding TerrapinExact and NeverAddTerrapinProne, every class is replayed "
              "through the CLI (client role through -c), and each class is instantiated with every matching database name and unknown names of the same shape."),
        design='8 C04', note=RATING_NOTE, technique='exhaustive TLC enumeration of the Terrapin class space, every state replayed into the CLI'),
    'C13': dict(category='model_checking',
        text=("SshRating!RecsOf transcribes the statement (del/chg, add, critical, suppression, availability through SshVersionOps!AvailableSince); TLC checks "
              "RecsConsistent on every case and supplies the expected recommendation set for peers x banners around every first-appeared version; (rec) lines "
              "and JSON recommendations are compared with it and cross-checked against the notes of the same report."),
        design='8 C13', note=RATING_NOTE, technique='TLC-evaluated recommendation rule as oracle; replay over peers x product versions'),
})

AUDIT_NOTE = ("TLC; the in-process fake network and the reactive fake SSH server (harness/fakenet.py, peers.py); the event vocabulary of TraceAudit.tla "
              "(connect/sendbanner/send20/send30/send32/send34/readfail/garbled/close/exit) observed at the socket boundary; time is virtual")
CHECKS.update({
    'C09': dict(category='model_checking',
        text=("SshAudit.tla models one audit at connection granularity with the peer as environment; TLC checks ExitDocumented, ReportIffHandshake, "
              "BoundedWaiting and the liveness property Terminates (weak fairness) for every placement of up to MaxFaults faults over every read of every "
              "connection of a family of server archetypes. Conformance: byte-level refinements of those faults (truncation, length fields, types, random bytes, "
              "debug/pre-banner/segmentation) are injected at every message of three archetype transcripts, the real CLI is run, the direct clauses are checked "
              "and the recorded network trace is validated by TLC against TraceAudit.tla, which infers the failing read and evaluates every invariant at every step. "
              "The same machine covers SSH-1 peers (fallback and -1), peers refusing both versions and client audits (-c), each with its own fault family. Faults in the connection-rate check, enormous group-exchange moduli, make-policy under probe faults, debug messages with arbitrary bodies. Every first-connection fault and a sample of the later ones are run again with -j (direct clauses); replies carrying RSA keys with 16000-bit exponents. A processor-time clause bounds computing (CPU time of each scenario process), exercised by a megabyte-long modulus."),
        design='8 C09, 14.2', note=AUDIT_NOTE, technique='TLC model checking (safety + liveness) of SshAudit.tla; fault-injected runs validated as traces against TraceAudit.tla'),
    'C11': dict(category='model_checking',
        text=("Thresholds, monotonicity and RSA-family fan-out are operators/invariants of SshRating.tla (SizeMonotone, Thresholds) and SshAudit.tla (RsaFanOut, one "
              "probe per family) checked by TLC; the expected size suffix, notes and JSON fields of every measured case come from TLC, the presented blobs from an "
              "independent encoder, fingerprints from hashlib (outside TLA+); the probing runs are validated as traces against TraceAudit.tla. A sequence leg audits several servers in one run and compares each server's host-key lines and fingerprints with its single-target audit."),
        design='8 C11, 9', note=AUDIT_NOTE + '; RSA sizes are multiples of 16 bits; hash values via hashlib', technique='TLC-evaluated rating rule as oracle + trace validation of the probe pattern'),
    'C12': dict(category='model_checking',
        text=("SshAudit!GexProbe mirrors the probe loop against Group(moduli, style); TLC explores all 9216 servers (512 subsets x 3 styles x 2 banners x 3 algorithm "
              "sets), checks GexReportRule / NoSizeWhenRefused / GexRequestsFixed and emits each server's request/answer history and reported size; servers are "
              "replayed through the CLI (all in thorough) comparing requests, answers, shown size, JSON keysize and size notes (texts from SshRating via TLC). A fault leg cuts short / replaces / withholds the k-th group message; TraceAudit's exit step binds the sizes the report shows to SshAudit!reported under those faults. Faults on the reply to KEX_DH_GEX_INIT, and servers that refuse every connection after the j-th, are validated the same way. Negotiating servers with unusual cipher lists are probed like any other."),
        design='8 C12', note=AUDIT_NOTE + '; the Python group selection is bound to the TLA+ one by comparing every answer', technique='exhaustive TLC exploration of the server family; every terminal state replayed'),
    'C19': dict(category='model_checking',
        text=("FootprintBounded, KexReqDiscipline, AllClosedAtExit, ProbesOnlyAfterHandshake are invariants of SshAudit.tla model-checked over the fault family and the "
              "rate loop (every reply pattern), and evaluated on every state of the recorded network traces of real runs (C09/C11/C12 families, rate-test peers, "
              "policy and make-policy audits, SSH-1 peers, peers refusing both versions, repeated host-key names, multi-homed names, with and without --skip-rate-test) "
              "through TraceAudit.tla. The last clause (attack modes only when requested; --skip-rate-test honoured) is decided on the command line itself: SshCli.tla "
              "enumerates every option set of bounded size with its expected configuration and each is replayed into process_commandline(). Rate-check peers that leave connections silent (the check ends with its 1.5 s window); target lists sharing a host: connections counted per listed server."),
        design='8 C19, 14.2', note=AUDIT_NOTE, technique='TLC model checking + trace validation of connection logs against TraceAudit.tla'),
})

MULTI_NOTE = ("TLC; the fake network; the guarded wrappers around target_worker_thread / thread_exit (harness/observe.py) that log begin/end events with the "
              "dirty set of the thread's table copy and impose a completion order; block attribution by the target label printed in each block")
CHECKS.update({
    'C07': dict(category='model_checking',
        text=("SshMulti.tla models the thread pool, the per-thread table copies (as dirty sets) and the per-worker configuration copies; TLC checks Isolation over all "
              "lists of <= 3 archetypes (one per edit channel), 1..3 threads and every interleaving, and confirms that the weaker mechanisms (tables discarded by the "
              "main thread only; shared configuration) violate it. Real runs: every ordered pair (+ triples) of 9 server archetypes under every pool size and feasible "
              "completion order, text/JSON/policy; each block must equal the single-target result byte for byte, and the begin/end traces are validated against TraceMulti.tla. SshSched.tla generates every schedule of two worker threads with a bounded number of preemptions (quick: 1, one pair 2; thorough: 2, every pair of positions visited); harness/sched.py replays each by stopping the real threads at their network operations; every target's JSON equals its single-target result under every schedule. Scheduled pairs in text mode with a server advertising unknown names; -4/-6 over lists of names resolving to one family or both."),
        design='8 C07', note=MULTI_NOTE, technique='TLC model checking of SshMulti.tla + schedule-controlled replay + trace validation (TraceMulti.tla)'),
    'C08': dict(category='model_checking',
        text=("SshMulti.tla with outcome archetypes (healthy, connection error, exception, SystemExit in the worker): TLC checks Blocks, ExitIsMax, Framing and liveness "
              "RunEnds over all lists of <= 3 outcomes x 1..3 threads x interleavings, and confirms they fail when a worker's SystemExit escapes. Real runs: healthy targets "
              "mixed with 11 failure archetypes in every position, text and JSON; block count/attribution/equality, exit status = highest rank, single JSON array; traces "
              "validated against TraceMulti.tla. Policy audits over target lists; SshSched schedules replayed for a healthy probed target next to failing ones. Policy audits of a list with -j (one array, each element the target's own document); healthy archetypes with short packet padding and unreadable probe replies."),
        design='8 C08', note=MULTI_NOTE, technique='TLC model checking of SshMulti.tla + fault-archetype replay + trace validation (TraceMulti.tla)'),
})

CHECKS.update({
    'C05': dict(category='model_checking',
        text=("SshPolicy.tla defines Create (what --make-policy must produce), Load (identity: the contract of the file format) and Errors (the matching rule); TLC checks "
              "RoundTrip on every peer and Drift on every single-attribute perturbation and supplies the expected verdict and mismatched fields. Replay through the CLI: "
              "-M against a fake server built from the peer, then -P with the written file against the same and every perturbed server, text and JSON; peers include every "
              "gss-* spelling and names over the RFC 4251 character set; all built-in policies are audited against a peer configured exactly as they list."),
        design='8 C05', note=RATING_NOTE, technique='TLC-checked policy rule as oracle; two-step CLI replay (-M then -P) over peers x perturbations'),
    'C06': dict(category='model_checking',
        text=("SshPolicy!Errors transcribes the documented matching rules; TLC enumerates per field every (policy, peer) pair of the small universe (lists, optional host "
              "keys, strict marker, size maps, CA type/size precedence, flags), checks ShrinkKeepsPass, GrowKeepsPass, ExactImpliesSubset, LargerIsWeaker, UnspecifiedNeverFails "
              "on each and emits the expected mismatched fields; all pairs are replayed in-process against Policy.evaluate (fresh object each), a sample through -P in text and "
              "JSON including the exit status. SshPolicyFile models the loader line by line (one Step per line, Finish for name/version): TLC enumerates files of line "
              "tokens (both generations of size directives, flags, comments, refusing lines), checks CommentsAreInert, FirstErrorWins, IndependentLinesCommute, "
              "NamedAndVersioned, FlagsOnlyRise and emits the loaded object; every file is written out, loaded by Policy(policy_data=..) and compared field by field, "
              "a sample through -P (refused => error status and no connection). A combination mode of SshPolicy enumerates two host-key types x two group-exchange algorithms x {unlisted, not offered, equal, larger, smaller} x the larger-keys flag next to matching and mismatching list fields (the code folds one verdict over all fields)."),
        design='8 C06', note='TLC; policies are rendered as policy-file text by the harness; in-process peers are SSH2_Kex objects with recorded host keys/moduli', technique='exhaustive per-field TLC enumeration of (policy, peer) pairs replayed into Policy.evaluate and the CLI'),
})

CHECKS.update({
    'C10': dict(category='model_checking',
        text=("SshWire.tla holds independently written encoders and decoders on byte sequences (RFC 4251 mpint, SSH-1 mpint, name-lists) and the RFC 4253 padding "
              "arithmetic; TLC checks RoundTrip, Minimal, ReEncode, LengthPrefix, Mp1BitCount on every magnitude up to MaxLen bytes over {00,01,7f,80,ff} with both signs and the "
              "framing law for every payload length 0..4096, and encodes harness-chosen values (dense window, +-2^k+-1 up to 2^8192, word patterns, random). All pairs are "
              "replayed into WriteBuf/ReadBuf; every payload length is sent through send_packet and read back by the tool's reader and an independent decoder; KEXINIT and "
              "SSH-1 messages are round-tripped against the independent codec. The functions are pure: the assurance is the replay of TLC's enumeration. "
              "The reader over a TCP stream is a state machine of its own (SshStream.tla: Recv/Take per ensure_read, SSH-2 and SSH-1 framing): TLC checks Aligned, "
              "NoOverread, AllReturned and Terminates for every packet sequence and every segmentation with up to two cuts, and each case is replayed into read_packet. "
              "The framing arithmetic for every payload length (not only 0..4096) is a TLAPS theorem (SshFrameProof.tla) re-checked by tlapm on every run. A threads leg audits SSH-1 targets concurrently under schedule perturbation and under SshSched plans at source-line granularity (a worker preempted anywhere in the tool's code). Connections that follow one another on the same socket object start clean (unread bytes, half-written messages); the denial-of-service mode is run under the fake network and every packet of its flood decoded; SshStream has an Again step (EAGAIN between segments)."),
        design='8 C10, 9, 14.2', note='TLC; the independent codec harness/wire.py; SSH-1 CRC-32 values come from zlib (outside TLA+)', technique='TLC-checked reference codec; enumerated value/bytes pairs replayed into the buffer classes and packet framing'),
    'C16': dict(category='model_checking',
        text=("SshBanner.tla models the peer's identification exchange (other lines, banner built from parts, CR LF / LF) and the tool's reader (split, skip blank, header, "
              "banner, decompose, sanitise, render); TLC checks BannerFound, HeaderIsOthers, PartsAreParts, RoundTrip, KnownProducts on the grammar's universe and emits wire bytes "
              "with the expected header/parts/product; all cases are replayed into SSH_Socket.get_banner, Banner.parse, str(), Software.parse and a sample through the CLI. Exchanges whose other lines repeat always go through the CLI; servers whose identification strings are shown alike ('?' literal vs. non-printable) are audited in one run, either order. Servers that are gone before the tool writes (writes fail, reads deliver) still get their lines reported."),
        design='8 C16, 9', note='TLC; byte sequences are transported as JSON arrays; comments compared after whitespace collapsing', technique='TLC enumeration of the banner grammar with a reference reader; states replayed into the banner/software parsers and the CLI'),
    'C17': dict(category='model_checking',
        text=("The live tables are exported as JSON on every run and SshTablesCheck.tla states their cross-relations (names known, hardening policies free of failed "
              "algorithms, shape, broken-primitive rule) as invariants TLC evaluates over every entry (exhaustive over the data); each built-in server policy's peer is "
              "additionally audited by the real CLI and must show no failure. The tables are also checked after use: branded entries keep a failure after their sizes were measured, a conformant server audited after a weak one shows no failure, SSH-1 reports name only names of the SSH-1 table. Conformant peers include ones that withhold their RSA key and ones that hand out exactly the prescribed group-exchange size."),
        design='8 C17, 9', note='the extractor (harness/extract_tables.py) copies the tables of the working tree; TLC is a quantifier engine over that data', technique='TLC evaluation of table invariants over the extracted data (exhaustive)'),
    'C18': dict(category='model_checking',
        text=("SshTarget.tla defines parsing of every documented spelling with -p as default port, port validation, resolver family and the permitted address order; TLC evaluates "
              "each case of the product (hosts x ports x spellings x argv/targets-file x -p x -4/-6/-46/-64 x resolver answers) and checks NoConnectionWhenRejected, "
              "AttemptsAreOrderedPrefix, OnlyWantedFamilies, PortIsParsedPort; every getaddrinfo()/connect() of the real CLI run (probes and rate check included) and the report label are compared."),
        design='8 C18', note=RATING_NOTE + '; the fake resolver', technique='TLC-evaluated target rule as oracle; resolver/connect calls of CLI runs compared'),
})

CHECKS.update({
    'C15': dict(category='model_checking',
        text=("SshOutput.tla models the output buffer (levels, always-print, sections, batch, colours); TLC checks LevelOnlyRemoves, ColourOnlyWraps, BatchOnlyDrops, NoRewrite "
              "for every call sequence up to MaxCalls x every option set and each case is replayed into the real OutputBuffer. Through the CLI the same audit is rendered under all 72 "
              "combinations of -b, -v, -n, -l, -j/-jj for peers covering every severity mix, with the expected findings and status from SshRating (TLC): status constant, findings "
              "at level L = the expected findings filtered to L, colour codes only wrap, -j/-jj equal, repeat runs and 8 hash seeds (fresh interpreters) byte-identical. SshOutput models two-call lines (Result: + verdict); SSH-1 peers and policy audits are run under every option set (same status, one JSON document, no traceback). A rate-checked standard audit joins them; law: the JSON document is the same under every -l. Recommendations of every view are compared with SshRating!RecsOf."),
        design='8 C15', note=RATING_NOTE, technique='TLC model checking of the buffer laws + replay; CLI option matrix against TLC-evaluated findings'),
})

NOT_BUILT = {}


def main():
    props = [json.loads(l) for l in open(os.path.join(ROOT, 'properties.jsonl'))]
    checks = []
    na = []
    for p in props:
        pid = p['id']
        if pid in CHECKS:
            c = CHECKS[pid]
            checks.append({
                'property_id': pid,
                'quick_cmd': './check %s quick' % pid,
                'thorough_cmd': './check %s thorough' % pid,
                'evidence_file': '/verif/evidence/%s.json' % pid,
                'replay_cmd_template': './check replay {path}',
                'engine': 'tlc+harness',
                'level_claimed': {'category': c['category'], 'text': c['text'], 'design_ref': c['design']},
                'level_note': c['note'],
                'technique': c['technique'],
            })
        else:
            na.append({'property_id': pid, 'reason': NOT_BUILT.get(pid, 'check not built yet in this round (see DESIGN.md section 12 build order); no claim is made')})
    m = {
        'version': 1,
        'setup_cmd': './check setup',
        'hooks': {
            'guard': 'SSH_AUDIT_VERIF',
            'enable': ('no source hooks: the harness wraps public functions of ssh_audit in its forked child when SSH_AUDIT_VERIF=1 '
                       '(harness/observe.py); /repo is imported from its working tree on every run'),
            'baseline_off_cmd': BASE_OFF,
            'source_commits': [],
            'add_only': True,
        },
        'engines': [
            {'name': 'tlc+harness', 'path': '/verif/check',
             'serves_properties': [c['property_id'] for c in checks],
             'kind_free_text': ('explicit TLA+ specifications in /verif/spec checked with TLC; conformance by replaying TLC-generated cases/behaviours into '
                                'the real CLI behind an in-process fake network and by validating recorded event traces against Trace*.tla')},
        ],
        'checks': checks,
        'not_applicable': na,
        'notes': 'See DESIGN.md. Known findings: KNOWN_FINDINGS.txt. Exit 2 = machinery failure (never used to hide a violation).',
    }
    with open(os.path.join(ROOT, 'MANIFEST.json'), 'w') as f:
        json.dump(m, f, indent=1)
    print('MANIFEST.json: %d checks, %d not claimed' % (len(checks), len(na)))


if __name__ == '__main__':
    main()
