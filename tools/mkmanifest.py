#!/usr/bin/env python3
"""Writes /verif/MANIFEST.json from the table below (one source of truth for the interface)."""
import json
import os

ROOT = os.path.dirname(os.path.dirname(os.path.abspath(__file__)))
BASE_OFF = ("cd /repo && env -u SSH_AUDIT_VERIF /venv/bin/python -m pytest -ra -q -p no:cacheprovider --timeout=900 "
            "--continue-on-collection-errors --junitxml=/tmp/ssh-audit-baseline.junit.xml")

TRUST_CLI = "TLC; the in-process fake network's fidelity to sockets (harness/fakenet.py); the report parsers (harness/report.py)"

CHECKS = {
    'C14': dict(
        category='model_checking',
        text=("SshVersion.tla is the reference order; TLC checks its laws (antisymmetry, transitivity, totality, monotone availability, "
              "numeric-not-textual) exhaustively on a small universe and computes the full comparison matrix of a larger universe, which is "
              "replayed pair by pair into Software.compare_version/between_versions through Banner.parse+Software.parse. The function is pure, "
              "so the assurance is the exhaustive replay of TLC's matrix, not state exploration."),
        design='8 C14, 9',
        note="TLC; releases are rendered as text by the harness (components joined by dots + patch suffix); pairs differing only in trailing .0 skipped",
        technique="TLA+ reference order model-checked with TLC; TLC-computed comparison matrix replayed into the code"),
}

NOT_BUILT = {}


def main():
    props = [json.loads(l) for l in open(os.path.join(ROOT, 'properties.jsonl'))]
    checks = []
    na = []
    for p in props:
        pid = p['id']
        if pid in CHECKS:
            c = CHECKS[pid]
            checks.append({
                'property_id': pid,
                'quick_cmd': './check %s quick' % pid,
                'thorough_cmd': './check %s thorough' % pid,
                'evidence_file': '/verif/evidence/%s.json' % pid,
                'replay_cmd_template': './check replay {path}',
                'engine': 'tlc+harness',
                'level_claimed': {'category': c['category'], 'text': c['text'], 'design_ref': c['design']},
                'level_note': c['note'],
                'technique': c['technique'],
            })
        else:
            na.append({'property_id': pid, 'reason': NOT_BUILT.get(pid, 'check not built yet in this round (see DESIGN.md section 12 build order); no claim is made')})
    m = {
        'version': 1,
        'setup_cmd': './check setup',
        'hooks': {
            'guard': 'SSH_AUDIT_VERIF',
            'enable': ('no source hooks: the harness wraps public functions of ssh_audit in its forked child when SSH_AUDIT_VERIF=1 '
                       '(harness/observe.py); /repo is imported from its working tree on every run'),
            'baseline_off_cmd': BASE_OFF,
            'source_commits': [],
            'add_only': True,
        },
        'engines': [
            {'name': 'tlc+harness', 'path': '/verif/check',
             'serves_properties': [c['property_id'] for c in checks],
             'kind_free_text': ('explicit TLA+ specifications in /verif/spec checked with TLC; conformance by replaying TLC-generated cases/behaviours into '
                                'the real CLI behind an in-process fake network and by validating recorded event traces against Trace*.tla')},
        ],
        'checks': checks,
        'not_applicable': na,
        'notes': 'See DESIGN.md. Known findings: KNOWN_FINDINGS.txt. Exit 2 = machinery failure (never used to hide a violation).',
    }
    with open(os.path.join(ROOT, 'MANIFEST.json'), 'w') as f:
        json.dump(m, f, indent=1)
    print('MANIFEST.json: %d checks, %d not claimed' % (len(checks), len(na)))


if __name__ == '__main__':
    main()
