#!/bin/sh
# Runs every check of a tier and prints one line per check: id, exit status, seconds.
cd "$(dirname "$0")/.." || exit 2
tier=${1:-quick}
for i in 01 02 03 04 05 06 07 08 09 10 11 12 13 14 15 16 17 18 19; do
  s=$(date +%s)
  ./check C$i $tier > /tmp/verif-C$i.$tier.out 2>&1
  rc=$?
  e=$(date +%s)
  echo "C$i rc=$rc $((e-s))s $(grep -c '^VIOLATION' /tmp/verif-C$i.$tier.out) violations $(grep -c '^KNOWN-FINDING' /tmp/verif-C$i.$tier.out) known"
done
