#!/usr/bin/env python3
"""benigncheck.py <seed dir> <Cxx> [Cyy ...]: apply a (supposedly harmless) patch to a scratch clone of /repo, run the repo tests and the given checks."""
import json, os, shutil, subprocess, sys, tempfile, time
src = sys.argv[1]; checks = sys.argv[2:]
tmp = tempfile.mkdtemp(prefix='vben-'); repo = os.path.join(tmp, 'repo')
out = {'dir': src, 'checks': {}}
try:
    subprocess.run(['git', 'clone', '-q', '--no-hardlinks', '/repo', repo], check=True)
    p = subprocess.run(['git', 'apply', os.path.join(src, 'patch.diff')], cwd=repo, stdout=subprocess.PIPE, stderr=subprocess.STDOUT, text=True)
    out['applies'] = p.returncode == 0
    if p.returncode == 0:
        t = subprocess.run(['/venv/bin/python', '-m', 'pytest', '-q', '-p', 'no:cacheprovider'], cwd=repo, env=dict(os.environ, PYTHONPATH=os.path.join(repo, 'src')), stdout=subprocess.PIPE, stderr=subprocess.STDOUT, text=True)
        out['tests_pass'] = t.returncode == 0
        for c in checks:
            t0 = time.time()
            r = subprocess.run(['/verif/check', c, 'quick'], cwd='/verif', env=dict(os.environ, VERIF_REPO=repo, VERIF_NO_EVIDENCE='1'), stdout=subprocess.PIPE, stderr=subprocess.STDOUT, text=True)
            sigs = [l.strip()[:400] for l in r.stdout.splitlines() if l.strip().startswith('signature=') or 'MACHINERY' in l]
            out['checks'][c] = {'exit': r.returncode, 'signatures': sigs[:6], 'wall_s': round(time.time() - t0, 1)}
finally:
    shutil.rmtree(tmp, ignore_errors=True)
print(json.dumps(out))
