---------------------------- MODULE TraceAudit ----------------------------
(***************************************************************************)
(* Trace validation for SshAudit (code -> spec).                            *)
(*                                                                         *)
(* Input (VERIF_TRACES): a sequence of records                              *)
(*   [srv |-> <server archetype as in SshAudit>,                            *)
(*    ev  |-> << [e |-> kind, ...], ... >>]                                  *)
(* one per real CLI run, the events being what the fake network saw, in     *)
(* order: connect (ok, nb), sendbanner, send20 (nkex, nkey, kex1, key1),     *)
(* send30, send32, send34 (min, pref, max, answer), close (nb), and the      *)
(* final exit (status, report, open, waits).  Nothing else is logged: which *)
(* fault the peer injected, whether a read succeeded, how the loops          *)
(* branched - TLC infers it by trying every enabled action of SshAudit       *)
(* whose observable effect matches the next event.                           *)
(*                                                                         *)
(* The binding is uniform: the observable effect of a step is read off the  *)
(* pair of states (a connection was opened, the socket advanced a stage, a  *)
(* key-exchange request was counted, a socket was closed, the process       *)
(* ended); a step with an observable effect must consume the next event and *)
(* agree with its fields, a step without one must not consume anything.     *)
(* Every invariant of SshAudit is evaluated on every state of every trace.  *)
(***************************************************************************)
EXTENDS SshAudit, Json, IOUtils

Traces == JsonDeserialize(IOEnv.VERIF_TRACES)

VARIABLES tid, l, taint      \* taint: the current main connection has delivered tampered bytes to the tool
tvars == <<vars, tid, l, taint>>

T == Traces[tid].ev
TraceInit ==
    /\ tid \in 1..Len(Traces)
    /\ l = 1 /\ taint = FALSE
    /\ srv = [Traces[tid].srv EXCEPT !.gex = Range(@), !.moduli = Range(@)]      \* JSON arrays -> sets
    /\ pc = "h_connect" /\ sock = NoSock /\ nConn = [p \in Phases |-> 0]
    /\ hkTried = {} /\ hkParsed = {} /\ hkGot = EmptyFn /\ hkCur = ""
    /\ gexIdx = 1 /\ gexStage = "first" /\ gexStep = 1 /\ smallest = 0 /\ reconnFailed = FALSE
    /\ curReq = <<0, 0, 0>> /\ asked = EmptyFn /\ reported = EmptyFn
    /\ rate = [opened |-> 0, counted |-> 0, inflight |-> 0, ticks |-> 0, stage |-> "open", pending |-> 0]
    /\ faults = 0 /\ waits = 0 /\ lastRead = <<0, "">> /\ handshakeOK = FALSE /\ reportShown = FALSE /\ exit = -1
    /\ kexReqOutside = FALSE /\ maxKexReq = 0 /\ openAtExit = 0
    /\ hs = [sshv |-> IF srv.try = "1" THEN 1 ELSE 2, orphans |-> 0, listening |-> 0]

Total(c) == c["handshake"] + c["hostkey"] + c["gex"] + c["rate"]
\* the observable effect of the step (vars -> vars'); "" if it has none
Effect ==
    IF pc' = "done" /\ pc # "done" THEN "exit"
    ELSE IF hs'.listening > hs.listening THEN "listen"
    ELSE IF hs'.orphans > hs.orphans THEN ""                 \* the abandoned socket is not closed yet
    ELSE IF nConn'["rate"] # nConn["rate"] THEN "connect-nb"
    ELSE IF Total(nConn') # Total(nConn) THEN "connect"
    ELSE IF rate'.inflight < rate.inflight THEN "close-nb"
    ELSE IF sock.open /\ ~sock'.open THEN "close"
    ELSE IF sock.open /\ sock'.open /\ sock.stage = "connected" /\ sock'.stage = "bannered" THEN "sendbanner"
    ELSE IF sock.open /\ sock'.open /\ sock.stage = "bannered" /\ sock'.stage = "kexinit" THEN "send20"
    ELSE IF sock.open /\ sock'.open /\ sock'.kexreq = sock.kexreq + 1 THEN "kexreq"
    ELSE IF pc \in {"gex_req", "hk_init"} /\ pc' \in {"gex_group", "hk_group"} THEN "send34"
    ELSE ""

HasEv == l <= Len(T)
\* does event e agree with observable effect eff of the step vars -> vars' ?
MatchAt(eff, e) ==
    CASE eff = "exit" ->
            /\ e.e = "exit" /\ e.status = exit /\ e.report = reportShown /\ e.open = 0 /\ e.waits <= Total(nConn)
            \* the group-exchange sizes the report shows are the sizes the probe loop recorded - also when probes were faulted
            /\ (e.sizes.known /\ reportShown) =>
                  /\ e.sizes.sha1 = (IF GexOrder[1] \in DOMAIN reported THEN reported[GexOrder[1]].bits ELSE 0)
                  /\ e.sizes.sha256 = (IF GexOrder[2] \in DOMAIN reported THEN reported[GexOrder[2]].bits ELSE 0)
      [] eff = "readfail" -> e.e = "readfail" /\ e.kind = (IF lastRead'[2] = "stall" THEN "timeout" ELSE "eof")
                             /\ (lastRead'[2] = "mismatch" => e.mismatch)     \* the version-mismatch text was what the peer sent
      [] eff = "connect-nb" -> e.e = "connect" /\ e.nb /\ e.ok = (rate'.inflight = rate.inflight + 1)
      [] eff = "connect" -> e.e = "connect" /\ ~e.nb /\ e.ok = sock'.open /\ e.accepted = (srv.role = "client")
      [] eff = "listen" -> e.e = "listen"
      [] eff = "close-nb" -> e.e = "close" /\ e.nb
                             /\ (rate.stage = "handle" => (e.banner = (rate'.counted = rate.counted + 1)))
      [] eff = "close" -> e.e = "close" /\ ~e.nb
      [] eff = "sendbanner" -> e.e = "sendbanner"
      [] eff = "send20" ->
            /\ e.e = "send20"
            /\ (sock.phase = "hostkey" => (e.nkey = 1 /\ e.key1 = hkCur /\ e.nkex = 1))
            /\ (sock.phase = "gex" => (e.nkex = 1 /\ e.kex1 = CurAlg))
      [] eff = "kexreq" -> e.e \in {"send30", "send32"} /\ (e.e = "send32") = (sock.phase = "gex" \/ srv.kexGex)
      [] eff = "send34" ->
            /\ e.e = "send34"
            /\ IF pc = "hk_init" THEN <<e.min, e.pref, e.max>> = HostKeyGexReq
               ELSE <<e.min, e.pref, e.max>> = curReq /\ e.answer = Group(srv, curReq[1], curReq[2], curReq[3])
      [] OTHER -> FALSE

\* process exit is the only step that reads the observation of what was still open; its own model effect (sock' = NoSock) stands
\* for the socket finaliser, whose close events - if any - are consumed by Finalise below
Finalise ==
    /\ pc = "exit" /\ HasEv
    /\ \/ /\ T[l].e = "close" /\ ~T[l].nb
          /\ \/ sock.open /\ sock' = NoSock /\ hs' = hs
             \/ hs.orphans > 0 /\ sock' = sock /\ hs' = [hs EXCEPT !.orphans = @ - 1]
       \/ /\ T[l].e = "unlisten" /\ hs.listening > 0
          /\ sock' = sock /\ hs' = [hs EXCEPT !.listening = @ - 1]
    /\ l' = l + 1
    /\ UNCHANGED <<srv, pc, nConn, hkTried, hkParsed, hkGot, hkCur, gexIdx, gexStage, gexStep, smallest, reconnFailed, curReq, asked,
                   reported, rate, faults, waits, lastRead, handshakeOK, reportShown, exit, kexReqOutside, maxKexReq, openAtExit, tid, taint>>

\* A step of the tool model, bound to the trace.  A read step (the environment chose its outcome) shows as:
\*   eof / stall  -> a `readfail` event of that kind
\*   garbage      -> the tool was handed bytes the peer had tampered with (`garbled` event)
\*   ok           -> nothing (a `garbled` event may still precede it: tampering the tool did not trip over)
\* followed by the step's own observable effect, if any.
ReadStep == lastRead' # lastRead
Bound ==
    /\ Next
    /\ \E skip \in {0, 1} :
         /\ (skip = 1) => (ReadStep /\ HasEv /\ T[l].e = "garbled")
         /\ (ReadStep /\ lastRead'[2] = "garbage") => (skip = 1 \/ taint)
         /\ taint' = IF Effect = "connect" THEN FALSE ELSE (taint \/ skip = 1)
         /\ LET base == l + skip
                eff == Effect
                effs == (IF ReadStep /\ lastRead'[2] \in {"eof", "stall", "mismatch"} THEN <<"readfail">> ELSE <<>>)
                        \o (IF eff = "" THEN <<>> ELSE <<eff>>)
            IN  /\ \A i \in 1..Len(effs) : (base + i - 1 <= Len(T)) /\ MatchAt(effs[i], T[base + i - 1])
                /\ l' = base + Len(effs)
                /\ (eff = "exit" => (~sock.open /\ hs.orphans = 0 /\ hs.listening = 0))      \* nothing left for the finaliser that the trace does not show closed
    /\ UNCHANGED tid

TraceNext == Bound \/ Finalise
TraceSpec == TraceInit /\ [][TraceNext]_tvars

\* acceptance: the whole trace was consumed and the tool model reached its end
Accepted == pc = "done" /\ l = Len(T) + 1
Accept == Accepted => PrintT(ToJson([tid |-> tid, verdict |-> "accept"]))
\* diagnostics run only (second pass over rejected traces): how far did any behaviour get
Progress == PrintT(ToJson([tid |-> tid, at |-> l, pc |-> pc]))
=============================================================================
