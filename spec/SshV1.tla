------------------------------ MODULE SshV1 ------------------------------
(***************************************************************************)
(* SSH protocol 1.5: the server's public-key message carries two bit masks; *)
(* the report must list exactly the ciphers and authentication types whose  *)
(* bits are set (property C01, SSH-1 clause).  The numbering is the          *)
(* protocol's (SSH 1.5 specification, "Cipher types" / "Authentication      *)
(* methods").                                                                *)
(***************************************************************************)
EXTENDS Integers, Sequences, FiniteSets, TLC, Json

Ciphers == <<"none", "idea", "des", "3des", "tss", "rc4", "blowfish">>        \* cipher number i is Ciphers[i + 1]
Auths == <<"rhosts", "rsa", "password", "rhosts_rsa", "tis", "kerberos">>      \* authentication number i (1..6) is Auths[i]
RECURSIVE Pow2(_)
Pow2(i) == IF i = 0 THEN 1 ELSE 2 * Pow2(i - 1)
Bit(m, i) == (m \div Pow2(i)) % 2 = 1
RECURSIVE Pick(_, _, _, _)
Pick(m, i, hi, names) == IF i > hi THEN <<>> ELSE (IF Bit(m, i) THEN <<names[i]>> ELSE <<>>) \o Pick(m, i + 1, hi, names)
CipherNames(cm) == Pick(cm * 2, 1, 7, Ciphers)        \* bit i of cm <-> index i + 1
AuthNames(am) == Pick(am, 1, 6, Auths)

VARIABLES cm, am, pc
Init == cm \in 0..127 /\ am \in 0..127 /\ pc = "start"
Next == pc = "start" /\ pc' = "done" /\ UNCHANGED <<cm, am>>
Spec == Init /\ [][Next]_<<cm, am, pc>>
PopCount(m, hi) == Cardinality({i \in 0..hi : Bit(m, i)})
OneNamePerBit == /\ Len(CipherNames(cm)) = PopCount(cm, 6)
                 /\ Len(AuthNames(am)) = PopCount(am, 6) - (IF Bit(am, 0) THEN 1 ELSE 0)
NoDuplicates == /\ Cardinality({CipherNames(cm)[i] : i \in 1..Len(CipherNames(cm))}) = Len(CipherNames(cm))
                /\ Cardinality({AuthNames(am)[i] : i \in 1..Len(AuthNames(am))}) = Len(AuthNames(am))
Emit == pc = "done" => PrintT(ToJson([cm |-> cm, am |-> am, enc |-> CipherNames(cm), aut |-> AuthNames(am)]))
=============================================================================
