--------------------------- MODULE TraceRating ---------------------------
(***************************************************************************)
(* Trace validation for the report pipeline (code -> spec, DESIGN 4.2).    *)
(*                                                                         *)
(* Input (VERIF_TRACES): a sequence of records                             *)
(*   [case |-> <case as in SshRating>,                                     *)
(*    events |-> << [cat, name, levels, before, after], ... >>,            *)
(*    exit |-> process exit status]                                        *)
(* one per real CLI run; the events are the `rated` observations taken at  *)
(* the return of every output_algorithm() call (harness/observe.py).       *)
(*                                                                         *)
(* The trace specification reuses SshRating's actions.  Render consumes    *)
(* one event and must agree with it on every logged field; the other       *)
(* actions are silent.  The pipeline is deterministic, so each trace is    *)
(* one path; instead of letting a mismatch end in a silent deadlock the    *)
(* Reject action names the first clause that fails, which makes verdicts   *)
(* total: every trace ends in "accept" or "reject <clause> at <l>".        *)
(* All invariants of SshRating (ExitRule, StatusMonotone, ...) are         *)
(* evaluated on every state of every validated trace.                      *)
(***************************************************************************)
EXTENDS SshRating

Traces == JsonDeserialize(IOEnv.VERIF_TRACES)

VARIABLES tid, l, verdict
tvars == <<case, pc, ci, ai, lines, status, recs, tid, l, verdict>>

Ev == Traces[tid].events
HasEv == l <= Len(Ev)

TraceInit ==
    /\ tid \in 1..Len(Traces)
    /\ case = Traces[tid].case
    /\ pc = "post" /\ ci = 1 /\ ai = 1 /\ status = 0 /\ recs = {}
    /\ lines = [x \in {"kex", "key", "enc", "mac"} |-> <<>>]
    /\ l = 1 /\ verdict = "running"

Silent(A) == A /\ UNCHANGED <<tid, l, verdict>>

\* which clause of Render disagrees with the next event ("" if none)
Mismatch ==
    IF ~HasEv THEN "missing-event"
    ELSE LET e == Ev[l]
             n == CurList[ai]
             lv == IF IsBlank(n) THEN <<>> ELSE Levels(Line(case, CurCat, n))
             st == IF IsBlank(n) THEN status ELSE Fold(status, lv)
         IN  IF e.cat # CurCat THEN "category"
             ELSE IF e.name # n THEN "name"
             ELSE IF e.before # status THEN "status-before"
             ELSE IF e.levels # lv THEN "levels"
             ELSE IF e.after # st THEN "status-after"
             ELSE ""

TraceRender ==
    /\ verdict = "running"
    /\ pc = "render" /\ ci <= 4 /\ ai <= Len(CurList)
    /\ Mismatch = ""
    /\ Render
    /\ l' = l + 1
    /\ UNCHANGED <<tid, verdict>>

Reject ==
    /\ verdict = "running"
    /\ pc = "render" /\ ci <= 4 /\ ai <= Len(CurList)
    /\ Mismatch # ""
    /\ verdict' = "reject " \o Mismatch
    /\ UNCHANGED <<case, pc, ci, ai, lines, status, recs, tid, l>>

Finish ==
    /\ verdict = "running" /\ pc = "done"
    /\ verdict' = IF HasEv THEN "reject extra-events"
                  ELSE IF Traces[tid].exit # status THEN "reject exit-status"
                  ELSE "accept"
    /\ UNCHANGED <<case, pc, ci, ai, lines, status, recs, tid, l>>

TraceNext ==
    \/ (verdict = "running" /\ Silent(PostProcess))
    \/ (verdict = "running" /\ Silent(NextCat))
    \/ (verdict = "running" /\ Silent(Recommend))
    \/ TraceRender
    \/ Reject
    \/ Finish

TraceSpec == TraceInit /\ [][TraceNext]_tvars

\* total verdicts: one line per trace
Verdict == verdict # "running" => PrintT(ToJson([tid |-> tid, verdict |-> verdict, at |-> l, status |-> status]))
=============================================================================
