-------------------------- MODULE SshFrameProof --------------------------
(* Unbounded version of SshWire!FrameLaw / SshStream's frame arithmetic: for EVERY payload length n the RFC 4253 padding rule
   used by the tool (send_packet) yields a packet that is a multiple of 8 bytes, with 4 <= padding <= 11, at least 16 bytes. *)
EXTENDS Integers, TLAPS

Pad(n) == LET p == (8 - ((n + 5) % 8)) % 8 IN IF p < 4 THEN p + 8 ELSE p
PLen(n) == n + Pad(n) + 1

THEOREM FrameLawUnbounded ==
    \A n \in Nat : /\ (4 + PLen(n)) % 8 = 0
                   /\ Pad(n) >= 4 /\ Pad(n) <= 11
                   /\ 4 + PLen(n) >= 16
                   /\ Pad(n) \in Nat
  BY DEF Pad, PLen
=============================================================================
