---------------------------- MODULE SshTarget ----------------------------
(***************************************************************************)
(* From a target as the user wrote it to the endpoint that is dialled and   *)
(* the label on the report (property C18).                                  *)
(*                                                                         *)
(* A case: [spelling, source ("argv" | "file"), popt (the -p option, 0 when  *)
(* absent), fam ("", "4", "6", "46", "64"), answer (what the resolver knows  *)
(* for the host: a sequence of <<family, ip>> with family 4 or 6)].          *)
(* Actions: Parse -> ApplyPortOption -> ValidatePort -> Resolve -> Connect.  *)
(* Documented forms: host, host:port, IPv4, bare IPv6 (no port possible),    *)
(* [IPv6], [IPv6]:port; the -p option is the default port.                   *)
(***************************************************************************)
EXTENDS Integers, Sequences, FiniteSets, TLC, Json, IOUtils, SshStrings

CONSTANT Mode

DigitVal(c) == CASE c = "0" -> 0 [] c = "1" -> 1 [] c = "2" -> 2 [] c = "3" -> 3 [] c = "4" -> 4 [] c = "5" -> 5
                 [] c = "6" -> 6 [] c = "7" -> 7 [] c = "8" -> 8 [] c = "9" -> 9 [] OTHER -> -1
IsNum(s) == s # "" /\ \A i \in 1..Len(s) : DigitVal(CharAt(s, i)) >= 0
RECURSIVE ToNum(_, _)
ToNum(s, acc) == IF s = "" THEN acc ELSE ToNum(SubSeq(s, 2, Len(s)), IF acc > 100000 THEN acc ELSE acc * 10 + DigitVal(CharAt(s, 1)))
Colons(s) == Cardinality({i \in 1..Len(s) : CharAt(s, i) = ":"})
IndexOf(s, c) == LET I == {i \in 1..Len(s) : CharAt(s, i) = c} IN IF I = {} THEN 0 ELSE CHOOSE i \in I : \A j \in I : i <= j
RECURSIVE StripWs(_)
IsWsCh(c) == c \in {" ", "\t", "\r", "\n"}
LTrim(s) == IF s # "" /\ IsWsCh(CharAt(s, 1)) THEN SubSeq(s, 2, Len(s)) ELSE s
RTrim(s) == IF s # "" /\ IsWsCh(CharAt(s, Len(s))) THEN SubSeq(s, 1, Len(s) - 1) ELSE s
StripWs(s) == IF s # "" /\ (IsWsCh(CharAt(s, 1)) \/ IsWsCh(CharAt(s, Len(s)))) THEN StripWs(RTrim(LTrim(s))) ELSE s

\* host and port a spelling names, given the default port
ParseSpelling(s, dflt) ==
    IF StartsWith(s, "[") /\ IndexOf(s, "]") > 2
    THEN LET close == IndexOf(s, "]")
             host == SubSeq(s, 2, close - 1)
             rest == SubSeq(s, close + 1, Len(s))
         IN IF rest = "" THEN [host |-> host, port |-> dflt, ok |-> TRUE]
            ELSE IF StartsWith(rest, ":") /\ IsNum(SubSeq(rest, 2, Len(rest))) THEN [host |-> host, port |-> ToNum(SubSeq(rest, 2, Len(rest)), 0), ok |-> TRUE]
            ELSE [host |-> s, port |-> dflt, ok |-> FALSE]
    ELSE IF Colons(s) = 1
    THEN LET i == IndexOf(s, ":")
             p == SubSeq(s, i + 1, Len(s))
         IN IF p = "" THEN [host |-> SubSeq(s, 1, i - 1), port |-> dflt, ok |-> TRUE]
            ELSE IF IsNum(p) THEN [host |-> SubSeq(s, 1, i - 1), port |-> ToNum(p, 0), ok |-> TRUE]
            ELSE [host |-> s, port |-> dflt, ok |-> FALSE]
    ELSE [host |-> s, port |-> dflt, ok |-> TRUE]          \* a name, an IPv4 address, or a bare IPv6 address

Default(c) == IF c.popt = 0 THEN 22 ELSE c.popt
Target(c) == ParseSpelling(StripWs(c.spelling), Default(c))
ValidPort(p) == p >= 1 /\ p <= 65535
Rejected(c) == ~Target(c).ok \/ ~ValidPort(Target(c).port) \/ (c.popt # 0 /\ ~ValidPort(c.popt)) \/ Target(c).host = ""
\* a targets-file line that is blank names no target at all
Skipped(c) == c.source = "file" /\ StripWs(c.spelling) = ""

ResolverFamily(c) == CASE c.fam = "4" -> 4 [] c.fam = "6" -> 6 [] OTHER -> 0
Wanted(c, f) == CASE c.fam = "4" -> f = 4 [] c.fam = "6" -> f = 6 [] OTHER -> TRUE
Filtered(c) == SelectSeq(c.answer, LAMBDA a : Wanted(c, a[1]))
\* stable ordering by preference for -46 / -64
Ordered(c) == LET q == Filtered(c) IN
    CASE c.fam = "46" -> SelectSeq(q, LAMBDA a : a[1] = 4) \o SelectSeq(q, LAMBDA a : a[1] = 6)
      [] c.fam = "64" -> SelectSeq(q, LAMBDA a : a[1] = 6) \o SelectSeq(q, LAMBDA a : a[1] = 4)
      [] OTHER -> q
IsPrefix(p, q) == Len(p) <= Len(q) /\ SubSeq(q, 1, Len(p)) = p

Input == IF Mode = "oracle" THEN JsonDeserialize(IOEnv.VERIF_CASES) ELSE <<>>
VARIABLES case, pc, parsed, attempts, rejected
vars == <<case, pc, parsed, attempts, rejected>>

Init ==
    /\ pc = "parse" /\ parsed = [host |-> "", port |-> 0] /\ attempts = <<>> /\ rejected = FALSE
    /\ \E k \in 1..Len(Input) : case = Input[k]
Parse ==
    /\ pc = "parse"
    /\ IF Skipped(case) THEN pc' = "skipped" /\ UNCHANGED <<parsed, rejected>>
       ELSE IF Rejected(case) THEN pc' = "done" /\ rejected' = TRUE /\ UNCHANGED parsed
       ELSE pc' = "connect" /\ parsed' = [host |-> Target(case).host, port |-> Target(case).port] /\ UNCHANGED rejected
    /\ UNCHANGED <<case, attempts>>
\* the first address that accepts ends the attempts; a refusing one may end them as well (the property only orders them)
Connect ==
    /\ pc = "connect"
    /\ \E k \in 0..Len(Ordered(case)) : attempts' = [i \in 1..k |-> <<Ordered(case)[i][1], Ordered(case)[i][2], parsed.port>>]
    /\ pc' = "done"
    /\ UNCHANGED <<case, parsed, rejected>>
Next == Parse \/ Connect
Spec == Init /\ [][Next]_vars

NoConnectionWhenRejected == rejected => attempts = <<>>
AttemptsAreOrderedPrefix == pc = "done" => IsPrefix([i \in 1..Len(attempts) |-> <<attempts[i][1], attempts[i][2]>>], Ordered(case))
OnlyWantedFamilies == \A i \in 1..Len(attempts) : Wanted(case, attempts[i][1])
PortIsParsedPort == \A i \in 1..Len(attempts) : attempts[i][3] = parsed.port /\ ValidPort(parsed.port)

Emit == pc = "parse" => PrintT(ToJson([id |-> case.id, skipped |-> Skipped(case), rejected |-> (~Skipped(case) /\ Rejected(case)),
                                       host |-> Target(case).host, port |-> Target(case).port,
                                       family |-> ResolverFamily(case), order |-> Ordered(case)]))
=============================================================================
