--------------------------- MODULE SshVersion ---------------------------
(***************************************************************************)
(* Release identifiers of SSH products and their order (property C14).     *)
(*                                                                         *)
(* A release is a record [c |-> <<n1, ..., nk>>, p |-> patch] with numeric *)
(* components and a product specific patch marker:                         *)
(*   OpenSSH   p = <<"p", N>> (portable patch level N) or <<"none", 0>>;   *)
(*             "none" and p1 are the same release (OpenBSD vs portable)    *)
(*   Dropbear  p = <<"test", N>> (pre-release) or <<"none", 0>>            *)
(*   libssh    p = <<"none", 0>>                                           *)
(* The order is the one the property states: component-wise numeric, then  *)
(* the product's patch rule.  Nothing here looks at spellings; the harness *)
(* renders a release as text ("10.0p2", "2013.58test1").                   *)
(*                                                                         *)
(* The module is used in two ways (DESIGN 4.3):                            *)
(*   MC     Init ranges over a small universe; the order laws are          *)
(*          invariants checked exhaustively by TLC                         *)
(*   Oracle Universe comes from a JSON file written by the harness; each   *)
(*          state computes one row of the comparison matrix and prints it; *)
(*          the harness replays the matrix into Software.compare_version   *)
(***************************************************************************)
EXTENDS Integers, Sequences, FiniteSets, TLC, Json, IOUtils, SshVersionOps

CONSTANTS Mode       \* "mc" | "oracle"

---------------------------------------------------------------------------
---------------------------------------------------------------------------
(* universes *)
Comps == {0, 1, 9, 10, 100}
Tuples(n) == UNION {[1..k -> Comps] : k \in 1..n}
Patches(product) ==
    CASE product = "OpenSSH"  -> {<<"none", 0>>, <<"p", 1>>, <<"p", 2>>}
      [] product = "Dropbear SSH" -> {<<"none", 0>>, <<"test", 1>>}
      [] OTHER                -> {<<"none", 0>>}
McUniverse(product) == {[c |-> t, p |-> q] : t \in Tuples(2), q \in Patches(product)}

Input == IF Mode = "oracle" THEN JsonDeserialize(IOEnv.VERIF_CASES) ELSE [product |-> "OpenSSH", versions |-> <<>>]
\* oracle input: [product |-> "...", versions |-> << [c |-> <<..>>, p |-> <<kind, n>>], ... >>]

VARIABLES product, i, row, pc, va
vars == <<product, i, row, pc, va>>

Init ==
    /\ pc = "start"
    /\ row = <<>>
    /\ IF Mode = "oracle"
       THEN product = Input.product /\ i \in 1..Len(Input.versions) /\ va = <<>>
       ELSE IF Mode = "frames" THEN product = "OpenSSH" /\ i = 0 /\ va = <<>>
       ELSE product \in {"OpenSSH", "Dropbear SSH", "libssh"} /\ i = 0 /\ va \in McUniverse(product)

\* one row of the comparison matrix
ComputeRow ==
    /\ Mode = "oracle" /\ pc = "start"
    /\ row' = [j \in 1..Len(Input.versions) |->
                 IF Undetermined(Input.versions[i], Input.versions[j]) THEN 2
                 ELSE Compare(product, Input.versions[i], Input.versions[j])]
    /\ pc' = "done"
    /\ UNCHANGED <<product, i, va>>

CheckLaws ==
    /\ Mode = "mc" /\ pc = "start"
    /\ pc' = "done"
    /\ UNCHANGED <<product, i, row, va>>

Next == ComputeRow \/ CheckLaws
Spec == Init /\ [][Next]_vars

---------------------------------------------------------------------------
(* laws, checked exhaustively in mode "mc" *)
U == McUniverse(product)
\* (the first release `va` of each law is chosen by Init, so TLC spreads the cubic laws over its workers)
Antisymmetric == Mode = "mc" => \A b \in U : Compare(product, va, b) = -Compare(product, b, va)
Reflexive     == Mode = "mc" => Compare(product, va, va) = 0
Total         == Mode = "mc" => \A b \in U : Compare(product, va, b) \in {-1, 0, 1}
Transitive    == Mode = "mc" => \A b, c \in U :
                    (Compare(product, va, b) <= 0 /\ Compare(product, b, c) <= 0) => Compare(product, va, c) <= 0
\* numeric, not textual: a two digit component is larger than any one digit component
NumericNotTextual == Mode = "mc" =>
    /\ Compare(product, [c |-> <<10, 0>>, p |-> <<"none", 0>>], [c |-> <<9, 9>>, p |-> <<"none", 0>>]) = 1
    /\ Compare(product, [c |-> <<0, 10, 6>>, p |-> <<"none", 0>>], [c |-> <<0, 7, 0>>, p |-> <<"none", 0>>]) = 1
SinceIsMonotone == Mode = "mc" => \A w, s \in U :
    (AvailableSince(product, va, s) /\ Compare(product, w, va) >= 0) => AvailableSince(product, w, s)
OpenSSHPatchRule == (Mode = "mc" /\ product = "OpenSSH") => \A t \in Tuples(2) :
    /\ Compare(product, [c |-> t, p |-> <<"none", 0>>], [c |-> t, p |-> <<"p", 1>>]) = 0
    /\ Compare(product, [c |-> t, p |-> <<"p", 1>>], [c |-> t, p |-> <<"p", 2>>]) = -1

\* compatibility ranges ("(gen) compatibility: OpenSSH 7.4-8.8"): the newest first-appeared release and the oldest
\* last-supported release among the advertised algorithms, by the same numeric order
Newest(prod, S) == CHOOSE a \in S : \A b \in S : Compare(prod, a, b) >= 0
Oldest(prod, S) == CHOOSE a \in S : \A b \in S : Compare(prod, a, b) <= 0
FrameInput == IF Mode = "frames" THEN JsonDeserialize(IOEnv.VERIF_CASES) ELSE <<>>
SetOf(q) == {q[k] : k \in 1..Len(q)}
EmitFrames == Mode = "frames" =>
    PrintT(ToJson([k \in 1..Len(FrameInput) |->
        [from |-> IF FrameInput[k].since = <<>> THEN <<>> ELSE Newest(FrameInput[k].product, SetOf(FrameInput[k].since)).c,
         till |-> IF FrameInput[k].till = <<>> THEN <<>> ELSE Oldest(FrameInput[k].product, SetOf(FrameInput[k].till)).c]]))

\* emission of the oracle rows
Emit == (Mode = "oracle" /\ pc = "done") => PrintT(ToJson([i |-> i, row |-> row]))
=============================================================================
