------------------------- MODULE SshTablesCheck -------------------------
(***************************************************************************)
(* Cross-consistency of ssh-audit's knowledge tables (property C17).        *)
(* The tables are the live ones of the working tree, exported as JSON by    *)
(* harness/extract_tables.py (`Tables`); this module only states the        *)
(* relations between them, as invariants of a one-state specification, and  *)
(* TLC evaluates them over every entry (exhaustive over the data).          *)
(***************************************************************************)
EXTENDS Integers, Sequences, FiniteSets, TLC, Json, IOUtils, SshStrings

Tables == JsonDeserialize(IOEnv.VERIF_TABLES)
DB == Tables.db2
Pol == Tables.policies
Cats == {"kex", "key", "enc", "mac"}
InDb(cat, n) == n \in DOMAIN DB[cat]
Failing(cat, n) == InDb(cat, n) /\ DB[cat][n].fail # <<>>      \* (total: a name the database does not know is PolicyNamesKnown's business)

\* --- every name used by another table is known to the rating database ----
PolicyNamesKnown == \A p \in DOMAIN Pol :
    /\ \A n \in Range(Pol[p].kex) : InDb("kex", n)
    /\ \A n \in Range(Pol[p].host_keys) \cup Range(Pol[p].optional_host_keys) : InDb("key", n)
    /\ \A n \in Range(Pol[p].ciphers) : InDb("enc", n)
    /\ \A n \in Range(Pol[p].macs) : InDb("mac", n)
    /\ \A n \in DOMAIN Pol[p].hostkey_sizes : InDb("key", n)
    /\ \A n \in DOMAIN Pol[p].dh_modulus_sizes : InDb("kex", n)
ProbeTableKnown == \A n \in DOMAIN Tables.hostkey_types : InDb("key", n)
\* the names the SSH-1 bit masks are spelled out with are names of the SSH-1 rating table (else an SSH-1 audit reports them as unknown)
Ssh1NamesKnown == /\ \A n \in Range(Tables.ssh1_names.ciphers) : n \in DOMAIN Tables.db1["enc"]
                  /\ \A n \in Range(Tables.ssh1_names.auths) : n \in DOMAIN Tables.db1["aut"]
RsaFamilyProbed == \A n \in Range(Tables.rsa_family) : n \in DOMAIN Tables.hostkey_types /\ ~Tables.hostkey_types[n].cert
DheatTablesKnown ==
    /\ \A n \in Range(Tables.dheat.gex_algs) \cup Range(Tables.dheat.alg_priority) \cup Range(Tables.dheat.tested_algs) : InDb("kex", n)
    /\ \A n \in DOMAIN Tables.dheat.alg_modulus_sizes : InDb("kex", n)
    /\ \A n \in Range(Tables.dheat.alg_priority) : n \in DOMAIN Tables.dheat.alg_modulus_sizes

\* --- no hardening policy requires or permits an algorithm rated as a failure
IsHardening(p) == StartsWith(p, "Hardened ")
HardeningPoliciesClean == \A p \in DOMAIN Pol : IsHardening(p) =>
    /\ \A n \in Range(Pol[p].kex) : ~Failing("kex", n)
    /\ \A n \in Range(Pol[p].host_keys) \cup Range(Pol[p].optional_host_keys) : ~Failing("key", n)
    /\ \A n \in Range(Pol[p].ciphers) : ~Failing("enc", n)
    /\ \A n \in Range(Pol[p].macs) : ~Failing("mac", n)
PolicySizesSane == \A p \in DOMAIN Pol : IsHardening(p) =>
    /\ \A n \in DOMAIN Pol[p].hostkey_sizes : Pol[p].hostkey_sizes[n].hostkey_size >= 256
    /\ \A n \in DOMAIN Pol[p].dh_modulus_sizes : Pol[p].dh_modulus_sizes[n] >= 2048

\* the sizes a hardening policy prescribes are not sizes the tool itself rates as failures (keys and signing CAs: RSA below
\* 2048 bits, elliptic-curve keys below 224 bits)
IsRsaType(n) == StartsWith(n, "ssh-rsa") \/ StartsWith(n, "rsa-sha2-")
MinBits(type) == IF IsRsaType(type) THEN 2048 ELSE 224
PolicySizesNotFailing == \A p \in DOMAIN Pol : IsHardening(p) => \A n \in DOMAIN Pol[p].hostkey_sizes :
    LET e == Pol[p].hostkey_sizes[n] IN
    /\ e.hostkey_size >= MinBits(n)
    /\ (("ca_key_type" \in DOMAIN e /\ e.ca_key_type # "") => e.ca_key_size >= MinBits(e.ca_key_type))

\* --- documented shape: [versions] [failures] [warnings] [infos] -------------
ShapeOk == \A db \in {Tables.db2, Tables.db1} : \A cat \in DOMAIN db : \A n \in DOMAIN db[cat] :
    /\ db[cat][n].shape_len \in 1..4 /\ db[cat][n].shape_ok
    /\ Len(db[cat][n].versions_raw) <= 3

\* --- a primitive branded as broken anywhere is failed under every spelling ---
\* tokens of a name, split at  - _ @ . +
IsSep(c) == c \in {"-", "_", "@", ".", "+"}
RECURSIVE Tok(_, _, _)
Tok(s, i, cur) == IF i > Len(s) THEN (IF cur = "" THEN {} ELSE {cur})
                  ELSE IF IsSep(CharAt(s, i)) THEN (IF cur = "" THEN {} ELSE {cur}) \cup Tok(s, i + 1, "")
                  ELSE Tok(s, i + 1, cur \o CharAt(s, i))
Tokens(s) == Tok(s, 1, "")
ContainsRules == {"md5", "sha1", "arcfour", "rc4", "nistp", "nistk", "nistb", "nistt", "ripemd", "blowfish", "cast128", "idea", "seed",
                  "serpent", "rijndael"}
TokenRules == {"des", "3des", "dss", "dsa", "group1", "rsa1024", "none", "null", "rsa1"}
Broken(n) == (\E r \in ContainsRules : Contains(n, r)) \/ (Tokens(n) \cap TokenRules # {})
BrokenPrimitivesFail == \A cat \in Cats : \A n \in DOMAIN DB[cat] : Broken(n) => Failing(cat, n)
\* which entries the rule covers (vacuity guard: read by the harness)
Covered == {<<cat, n>> : cat \in Cats, n \in UNION {DOMAIN DB[c] : c \in Cats}} \cap {<<cat, n>> \in (Cats \X UNION {DOMAIN DB[c] : c \in Cats}) : InDb(cat, n) /\ Broken(n)}

\* --- policy listing (-L): only the newest version of each policy is listed, all versions with -v -------------------
IndexOfSub(str, sub) == LET I == {i \in 1..(Len(str) - Len(sub) + 1) : SubSeq(str, i, i + Len(sub) - 1) = sub} IN
                        IF I = {} THEN 0 ELSE CHOOSE i \in I : \A j \in I : i <= j
Base(p) == LET i == IndexOfSub(p, " (version ") IN IF i = 0 THEN p ELSE SubSeq(p, 1, i - 1)
DigitOf(c) == CASE c = "0" -> 0 [] c = "1" -> 1 [] c = "2" -> 2 [] c = "3" -> 3 [] c = "4" -> 4 [] c = "5" -> 5
                [] c = "6" -> 6 [] c = "7" -> 7 [] c = "8" -> 8 [] c = "9" -> 9 [] OTHER -> 0
RECURSIVE NumOf(_, _)
NumOf(str, acc) == IF str = "" THEN acc ELSE NumOf(SubSeq(str, 2, Len(str)), acc * 10 + DigitOf(CharAt(str, 1)))
Ver(p) == NumOf(Pol[p].version, 0)
Latest(p) == \A q \in DOMAIN Pol : (Base(q) = Base(p) /\ Pol[q].server = Pol[p].server) => Ver(q) <= Ver(p)
\* every policy name carries its own version, so that an older version can be told from the newest
NamesCarryVersion == \A p \in DOMAIN Pol : IndexOfSub(p, " (version " \o Pol[p].version \o ")") > 0
Listing == PrintT(ToJson([latest_server |-> {p \in DOMAIN Pol : Latest(p) /\ Pol[p].server},
                          latest_client |-> {p \in DOMAIN Pol : Latest(p) /\ ~Pol[p].server},
                          all |-> DOMAIN Pol]))

VARIABLE x
Init == x = 0
Next == x' = x
Spec == Init /\ [][Next]_x
Report == PrintT(ToJson([covered |-> Cardinality(Covered),
                         entries |-> Cardinality(UNION {{<<c, n>> : n \in DOMAIN DB[c]} : c \in Cats}),
                         policies |-> Cardinality(DOMAIN Pol)]))
=============================================================================
