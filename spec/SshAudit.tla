---------------------------- MODULE SshAudit ----------------------------
(***************************************************************************)
(* One target's audit at connection granularity (C09 C12 C19, the          *)
(* connection pattern of C11, the incomplete-audit clause of C02).          *)
(*                                                                         *)
(* The tool (client) runs:  handshake -> host-key probes -> group-exchange  *)
(* probes -> connection-rate check -> report -> exit.  The peer and the     *)
(* network are the environment: at every point where the tool reads, the    *)
(* environment either delivers what the protocol calls for or injects a     *)
(* fault (close, stall, garbage), within a fault budget.                    *)
(*                                                                         *)
(* The actions are structured like the implementation (hostkeytest.py,      *)
(* gextest.py, dheat.py, ssh_audit.audit) so that a recorded run can be     *)
(* replayed against them (TraceAudit.tla): one action per observable        *)
(* network event - Connect, SendBanner, SendKexinit, SendKexReq, Close,     *)
(* Exit - with the read outcome folded into the following step as the       *)
(* environment's choice.  What the *properties* leave open (whether the     *)
(* remaining host-key types are still probed after a failed probe) follows  *)
(* what the code does on its conforming paths; what they forbid (a status   *)
(* other than 0..3, a lost report, a key-exchange request outside a probe,  *)
(* an unbounded number of connections) has no action here, so a run that    *)
(* does it is rejected by trace validation.                                 *)
(*                                                                         *)
(* The server archetype `srv` is part of the state (chosen by Init) so one  *)
(* TLC run covers a whole family of servers:                                *)
(*   hk      sequence of advertised host-key types the probe table knows    *)
(*   kexOK   the server offers a key exchange the tool can drive            *)
(*   kexGex  ... and that first usable key exchange is a group exchange     *)
(*   gex     advertised group-exchange algorithms (subset of sha1, sha256)  *)
(*   dh      some Diffie-Hellman key exchange is advertised (rate check)    *)
(*   moduli, style, openssh   the server's group selection policy           *)
(*   skipRate                 --skip-rate-test                              *)
(*   role    "server" (the tool connects) | "client" (-c: the tool listens,   *)
(*           one client connects, no probes are made)                       *)
(*   proto   what the peer speaks: "2"; "1" (answers an SSH-2.0 ident with   *)
(*           "Protocol major versions differ." and closes, answers an        *)
(*           SSH-1.5 ident with SMSG_PUBLIC_KEY); "none" (refuses both)      *)
(*   try     protocols enabled on the command line: "12" (default: SSH-2,    *)
(*           falling back to SSH-1 on a version mismatch), "2", "1"          *)
(*   cliTimeout   -t given (informational: the wait is bounded either way)    *)
(*   granular     -g: sequence of (min, pref, max) requests; non-empty = the  *)
(*           granular group-exchange test replaces probing, rate check and   *)
(*           report: one probe connection per request and advertised          *)
(*           group-exchange algorithm, then the sizes handed out are listed   *)
(***************************************************************************)
EXTENDS Integers, Sequences, FiniteSets, TLC

CONSTANTS
    MaxFaults,      \* fault budget of the environment
    RateCap,        \* connections the rate check may open (38)
    RateConc,       \* concurrent sockets of the rate check (3)
    RateTicks,      \* select timeouts before the time limit is hit (15 = 1.5 s / 0.1 s)
    RateMode,       \* "attempts": the cap bounds connection attempts;  "banners": it bounds counted SSH banners (tree as found)
    Servers         \* set of server archetypes explored by Init (see MC_* definitions below)

AllModuli == {512, 768, 1024, 1536, 2048, 3072, 4096, 6144, 8192}
Styles == {"strict", "roundup", "openssh"}
RSAFam == {"ssh-rsa", "rsa-sha2-256", "rsa-sha2-512"}
\* the probe table, in table order (hostkeytest.py HOST_KEY_TYPES)
ProbeOrder == <<"ssh-rsa", "rsa-sha2-256", "rsa-sha2-512",
                "ssh-rsa-cert-v01@openssh.com", "rsa-sha2-256-cert-v01@openssh.com", "rsa-sha2-512-cert-v01@openssh.com",
                "ssh-ed25519", "ssh-ed25519-cert-v01@openssh.com", "ssh-ed448",
                "ecdsa-sha2-nistp256", "ecdsa-sha2-nistp384", "ecdsa-sha2-nistp521",
                "ecdsa-sha2-nistp256-cert-v01@openssh.com", "ecdsa-sha2-nistp384-cert-v01@openssh.com",
                "ecdsa-sha2-nistp521-cert-v01@openssh.com", "ssh-dss", "ssh-dss-cert-v01@openssh.com">>
GexOrder == <<"diffie-hellman-group-exchange-sha1", "diffie-hellman-group-exchange-sha256">>
Family(t) == IF t \in RSAFam THEN RSAFam ELSE {t}
Range(f) == {f[x] : x \in DOMAIN f}
Min(S) == CHOOSE x \in S : \A y \in S : x <= y
Max(S) == CHOOSE x \in S : \A y \in S : x >= y

---------------------------------------------------------------------------
(* the server's group selection (environment family of C12) *)
Group(sv, mn, pref, mx) ==       \* 0 = refuse
    LET M == sv.moduli IN
    CASE sv.style = "strict" ->
            LET R == {m \in M : mn <= m /\ m <= mx} IN
            IF R = {} THEN 0
            ELSE IF {m \in R : m >= pref} # {} THEN Min({m \in R : m >= pref}) ELSE Max(R)
      [] sv.style = "roundup" ->
            IF M = {} THEN 0
            ELSE IF {m \in M : m >= pref} # {} THEN Min({m \in M : m >= pref}) ELSE Max(M)
      [] sv.style = "openssh" ->
            LET mn2 == IF mn < 2048 THEN 2048 ELSE mn
                mx2 == IF mx > 8192 THEN 8192 ELSE mx
                p1  == IF pref < 2048 THEN 2048 ELSE pref
                p2  == IF p1 > 8192 THEN 8192 ELSE p1
                R   == {m \in M : mn2 <= m /\ m <= mx2}
            IN  IF mx2 < mn2 \/ p2 < mn2 \/ mx2 < p2 THEN 0
                ELSE IF R # {} THEN (IF {m \in R : m >= p2} # {} THEN Min({m \in R : m >= p2}) ELSE Max(R))
                ELSE IF mx2 < 3072 THEN 2048 ELSE IF mx2 < 6144 THEN 4096 ELSE 8192

\* the tool's fixed probe sequence (gextest.py)
FirstReq == <<512, 1024, 1536>>
StepBits == <<512, 768, 1024, 1536, 2048, 3072, 4096>>
SecondReq == <<2048, 3072, 4096>>
HostKeyGexReq == <<1024, 2048, 8192>>      \* the request a host-key probe sends when it has to use group exchange

---------------------------------------------------------------------------
VARIABLES
    srv,          \* server archetype of this behaviour
    pc,           \* control state of the tool
    sock,         \* main socket: [open |-> BOOLEAN, phase |-> "", stage |-> "", kexreq |-> Nat]
    nConn,        \* [phase |-> number of connections opened in it]
    hkTried,      \* host-key types a probe connection was already made for
    hkParsed,     \* host-key types already dealt with
    hkGot,        \* types for which a reply was recorded: type |-> "key" | "empty"
    hkCur,        \* type being probed
    gexIdx,       \* position in GexOrder
    gexStage,     \* "first" | "steps" | "second" | "record"
    gexStep,      \* position in StepBits
    smallest,     \* last result of the current algorithm's probes (-1 error, > 0 modulus bits)
    reconnFailed,
    curReq,       \* request of the probe under way
    asked,        \* alg |-> sequence of [req, answer] pairs actually exchanged (history, for the oracle)
    reported,     \* alg |-> [bits, fallback]
    rate,         \* [opened, counted, inflight, ticks]
    faults, waits,
    lastRead,     \* <<number, outcome>> of the latest read of the tool (what the environment did to it)
    handshakeOK, reportShown, exit,
    kexReqOutside, maxKexReq, openAtExit,
    hs            \* [sshv |-> protocol version of the current attempt, orphans |-> main sockets of abandoned attempts still open,
                  \*  listening |-> listening sockets of a client audit]

vars == <<hs, srv, pc, sock, nConn, hkTried, hkParsed, hkGot, hkCur, gexIdx, gexStage, gexStep, smallest, reconnFailed,
          curReq, asked, reported, rate, faults, waits, lastRead, handshakeOK, reportShown, exit, kexReqOutside, maxKexReq, openAtExit>>

Phases == {"handshake", "hostkey", "gex", "rate"}
NoSock == [open |-> FALSE, phase |-> "", stage |-> "", kexreq |-> 0]
EmptyFn == [x \in {} |-> 0]

Init ==
    /\ srv \in Servers
    /\ pc = "h_connect"
    /\ sock = NoSock
    /\ nConn = [p \in Phases |-> 0]
    /\ hkTried = {} /\ hkParsed = {} /\ hkGot = EmptyFn /\ hkCur = ""
    /\ gexIdx = 1 /\ gexStage = "first" /\ gexStep = 1 /\ smallest = 0 /\ reconnFailed = FALSE
    /\ curReq = <<0, 0, 0>> /\ asked = EmptyFn /\ reported = EmptyFn
    /\ rate = [opened |-> 0, counted |-> 0, inflight |-> 0, ticks |-> 0, stage |-> "open", pending |-> 0]
    /\ faults = 0 /\ waits = 0 /\ lastRead = <<0, "">>
    /\ handshakeOK = FALSE /\ reportShown = FALSE /\ exit = -1
    /\ kexReqOutside = FALSE /\ maxKexReq = 0 /\ openAtExit = 0
    /\ hs = [sshv |-> IF srv.try = "1" THEN 1 ELSE 2, orphans |-> 0, listening |-> 0]

---------------------------------------------------------------------------
(* environment *)
CanFault == faults < MaxFaults
FaultKinds == {"eof", "stall", "garbage"}
\* outcome of a read: "ok" or a fault kind; a stall costs one timeout
Outcomes == {"ok"} \cup (IF CanFault THEN FaultKinds ELSE {})
\* (with an unbounded budget - trace validation - faults are inferred, not counted: counting would only multiply states)
Counting == MaxFaults < 1000
Charge(o) == /\ faults' = IF o \in {"ok", "mismatch"} \/ ~Counting THEN faults ELSE faults + 1
             /\ waits' = IF o = "stall" /\ Counting THEN waits + 1 ELSE waits
             /\ lastRead' = <<IF Counting THEN 0 ELSE lastRead[1] + 1, o>>

Open(ph) == [open |-> TRUE, phase |-> ph, stage |-> "connected", kexreq |-> 0]
Bump(ph) == nConn' = [nConn EXCEPT ![ph] = @ + 1]

---------------------------------------------------------------------------
(* handshake *)
\* a refused / timed-out / unresolvable connection is a fault of the environment like any other
Refusal(ok) == (ok \/ CanFault) /\ faults' = IF ok \/ ~Counting THEN faults ELSE faults + 1
HConnect(ok) ==
    /\ pc = "h_connect" /\ srv.role = "server" /\ Refusal(ok)
    /\ Bump("handshake")
    /\ IF ok THEN sock' = Open("handshake") /\ pc' = "h_banner" /\ exit' = exit
       ELSE sock' = sock /\ pc' = "exit" /\ exit' = 1
    /\ UNCHANGED <<srv, hkTried, hkParsed, hkGot, hkCur, gexIdx, gexStage, gexStep, smallest, reconnFailed, curReq, asked, reported,
                   rate, waits, lastRead, handshakeOK, reportShown, kexReqOutside, maxKexReq, openAtExit>>

\* the tool sends its identification string, then reads the peer's
SendBanner(next) ==
    /\ sock.open /\ sock.stage = "connected"
    /\ sock' = [sock EXCEPT !.stage = "bannered"]
    /\ pc' = next

HBanner ==
    /\ pc = "h_banner" /\ SendBanner("h_banner_read")
    /\ UNCHANGED <<srv, nConn, hkTried, hkParsed, hkGot, hkCur, gexIdx, gexStage, gexStep, smallest, reconnFailed, curReq, asked, reported,
                   rate, faults, waits, lastRead, handshakeOK, reportShown, exit, kexReqOutside, maxKexReq, openAtExit>>
HBannerRead(o) ==
    /\ pc = "h_banner_read" /\ o \in Outcomes /\ Charge(o)
    /\ IF o = "ok" THEN pc' = "h_sendkex" /\ exit' = exit ELSE pc' = "exit" /\ exit' = 1
    /\ UNCHANGED <<srv, sock, nConn, hkTried, hkParsed, hkGot, hkCur, gexIdx, gexStage, gexStep, smallest, reconnFailed, curReq, asked,
                   reported, rate, handshakeOK, reportShown, kexReqOutside, maxKexReq, openAtExit>>

SendKexinit(next) ==
    /\ sock.open /\ sock.stage = "bannered"
    /\ sock' = [sock EXCEPT !.stage = "kexinit"]
    /\ pc' = next
HSendKex ==
    /\ pc = "h_sendkex" /\ SendKexinit("h_recvkex")
    /\ UNCHANGED <<srv, nConn, hkTried, hkParsed, hkGot, hkCur, gexIdx, gexStage, gexStep, smallest, reconnFailed, curReq, asked, reported,
                   rate, faults, waits, lastRead, handshakeOK, reportShown, exit, kexReqOutside, maxKexReq, openAtExit>>
\* What the peer answers to the tool's identification string and KEXINIT when nothing goes wrong: its own KEXINIT (SSH-2),
\* its public-key message (SSH-1), or the version-mismatch text followed by a close.
Natural == IF srv.proto = "2" \/ (srv.proto = "1" /\ hs.sshv = 1) THEN "ok" ELSE "mismatch"
\* (the tool sends an SSH-2 KEXINIT even on an SSH-1 attempt - harmless, and what the code does)
HRecvKex(o) ==
    /\ pc = "h_recvkex" /\ o \in (Outcomes \ {"ok"}) \cup {Natural} /\ Charge(o)
    /\ CASE o = "ok" ->
              \* SSH-1 audits and client audits go straight to the report: no probes
              /\ pc' = (IF hs.sshv = 1 \/ srv.role = "client" THEN "report" ELSE "hk_begin")
              /\ handshakeOK' = TRUE /\ UNCHANGED <<exit, sock, hs>>
         [] o = "mismatch" /\ hs.sshv = 2 /\ srv.try = "12" ->
              \* fall back to SSH-1: a fresh attempt on a fresh connection; the first socket stays open until the process ends
              /\ pc' = "h_connect" /\ sock' = NoSock
              /\ hs' = [hs EXCEPT !.sshv = 1, !.orphans = @ + 1]
              /\ UNCHANGED <<handshakeOK, exit>>
         [] OTHER ->
              /\ pc' = "exit" /\ handshakeOK' = FALSE /\ exit' = 1 /\ UNCHANGED <<sock, hs>>
    /\ UNCHANGED <<srv, nConn, hkTried, hkParsed, hkGot, hkCur, gexIdx, gexStage, gexStep, smallest, reconnFailed, curReq, asked,
                   reported, rate, reportShown, kexReqOutside, maxKexReq, openAtExit>>

---------------------------------------------------------------------------
(* client audit (-c): the tool listens on IPv4 and IPv6, waits for one client, then proceeds as above without connecting *)
CU == <<srv, sock, hkTried, hkParsed, hkGot, hkCur, gexIdx, gexStage, gexStep, smallest, reconnFailed, curReq, asked, reported,
        rate, faults, waits, lastRead, handshakeOK, reportShown, kexReqOutside, maxKexReq, openAtExit>>
CListen ==
    /\ pc = "h_connect" /\ srv.role = "client" /\ hs.listening < 2
    /\ hs' = [hs EXCEPT !.listening = @ + 1]
    /\ UNCHANGED <<pc, nConn, exit>> /\ UNCHANGED CU
\* a client connects - or nobody does and the tool gives up when the timeout has elapsed (-t, default 5 s: the parser's
\* default makes the timeout count as "given" always - SshCli.tla - so there is no run that waits for ever)
CAccept(ok) ==
    /\ pc = "h_connect" /\ srv.role = "client" /\ hs.listening = 2
    /\ IF ok THEN /\ sock' = Open("handshake") /\ pc' = "h_banner" /\ exit' = exit /\ Bump("handshake")
             ELSE /\ sock' = sock /\ pc' = "exit" /\ exit' = 1 /\ nConn' = nConn
    /\ UNCHANGED <<srv, hs, hkTried, hkParsed, hkGot, hkCur, gexIdx, gexStage, gexStep, smallest, reconnFailed, curReq, asked, reported,
                   rate, faults, waits, lastRead, handshakeOK, reportShown, kexReqOutside, maxKexReq, openAtExit>>

\* closing the main socket (a no-op when it is not open)
CloseMain == sock' = NoSock

---------------------------------------------------------------------------
(* host-key probes (hostkeytest.py) *)
Advertised(t) == \E i \in 1..Len(srv.hk) : srv.hk[i] = t
\* types still to probe: in the table, advertised, not yet answered for, not yet tried.  (The code walks the table in table
\* order; no property depends on the order, so the model leaves it open.)
Remaining == {t \in Range(ProbeOrder) : Advertised(t) /\ t \notin hkParsed /\ t \notin hkTried}

HkBegin ==
    /\ pc = "hk_begin"
    /\ IF srv.kexOK THEN CloseMain /\ pc' = "hk_loop" ELSE sock' = sock /\ pc' = "gex_begin"
    /\ UNCHANGED <<srv, nConn, hkTried, hkParsed, hkGot, hkCur, gexIdx, gexStage, gexStep, smallest, reconnFailed, curReq, asked, reported,
                   rate, faults, waits, lastRead, handshakeOK, reportShown, exit, kexReqOutside, maxKexReq, openAtExit>>

\* one connection per remaining type; a refused connection ends the phase
HkConnect(ok) ==
    /\ pc = "hk_loop" /\ ~sock.open /\ Refusal(ok)
    /\ Bump("hostkey")
    /\ \E t \in Remaining : hkTried' = hkTried \cup {t} /\ hkCur' = t
    /\ IF ok THEN sock' = Open("hostkey") /\ pc' = "hk_banner" ELSE sock' = sock /\ pc' = "gex_begin"
    /\ UNCHANGED <<srv, hkParsed, hkGot, gexIdx, gexStage, gexStep, smallest, reconnFailed, curReq, asked, reported,
                   rate, waits, lastRead, handshakeOK, reportShown, exit, kexReqOutside, maxKexReq, openAtExit>>
HkDone ==
    /\ pc = "hk_loop" /\ Remaining = {}
    /\ pc' = "gex_begin"
    /\ UNCHANGED <<srv, sock, nConn, hkTried, hkParsed, hkGot, hkCur, gexIdx, gexStage, gexStep, smallest, reconnFailed, curReq, asked,
                   reported, rate, faults, waits, lastRead, handshakeOK, reportShown, exit, kexReqOutside, maxKexReq, openAtExit>>
HkBanner ==
    /\ pc = "hk_banner" /\ SendBanner("hk_banner_read")
    /\ UNCHANGED <<srv, nConn, hkTried, hkParsed, hkGot, hkCur, gexIdx, gexStage, gexStep, smallest, reconnFailed, curReq, asked, reported,
                   rate, faults, waits, lastRead, handshakeOK, reportShown, exit, kexReqOutside, maxKexReq, openAtExit>>
\* banner error: close and give the phase up - or carry on regardless and fail at the next read (the properties allow
\* either; the code does the former on a timeout and the latter on a plain close)
HkBannerRead(o) ==
    /\ pc = "hk_banner_read" /\ o \in Outcomes /\ Charge(o)
    /\ \/ o = "ok" /\ sock' = sock /\ pc' = "hk_sendkex"
       \/ o # "ok" /\ CloseMain /\ pc' = "gex_begin"
       \/ o # "ok" /\ sock' = sock /\ pc' = "hk_sendkex"
    /\ UNCHANGED <<srv, nConn, hkTried, hkParsed, hkGot, hkCur, gexIdx, gexStage, gexStep, smallest, reconnFailed, curReq, asked, reported,
                   rate, handshakeOK, reportShown, exit, kexReqOutside, maxKexReq, openAtExit>>
HkSendKex ==
    /\ pc = "hk_sendkex" /\ SendKexinit("hk_recvkex")
    /\ UNCHANGED <<srv, nConn, hkTried, hkParsed, hkGot, hkCur, gexIdx, gexStage, gexStep, smallest, reconnFailed, curReq, asked, reported,
                   rate, faults, waits, lastRead, handshakeOK, reportShown, exit, kexReqOutside, maxKexReq, openAtExit>>
\* unreadable KEXINIT: the phase is given up and the socket is left to the next phase to close - or, if what arrived
\* happens to parse, the probe goes on and fails at its next read
HkRecvKex(o) ==
    /\ pc = "hk_recvkex" /\ o \in Outcomes /\ Charge(o)
    /\ pc' \in (IF o = "ok" THEN {"hk_init"} ELSE {"gex_begin", "hk_init"})
    /\ UNCHANGED <<srv, sock, nConn, hkTried, hkParsed, hkGot, hkCur, gexIdx, gexStage, gexStep, smallest, reconnFailed, curReq, asked,
                   reported, rate, handshakeOK, reportShown, exit, kexReqOutside, maxKexReq, openAtExit>>

\* a key-exchange computation request: only on a probe connection that has exchanged KEXINIT
KexReq ==
    /\ sock.open /\ sock.stage = "kexinit"
    /\ sock' = [sock EXCEPT !.kexreq = @ + 1]
    /\ kexReqOutside' = (kexReqOutside \/ sock.phase \notin {"hostkey", "gex"})
    /\ maxKexReq' = IF sock.kexreq + 1 > maxKexReq THEN sock.kexreq + 1 ELSE maxKexReq

\* the probe's request: KEXDH_INIT - or, when the usable key exchange is a group exchange, GEX_REQUEST(1024, 2048, 8192),
\* the server's group, then GEX_INIT.  Only KEXDH_INIT / GEX_INIT make the server compute, so only they are counted.
HkInit ==
    /\ pc = "hk_init"
    /\ IF srv.kexGex THEN pc' = "hk_group" /\ UNCHANGED <<sock, kexReqOutside, maxKexReq>>
       ELSE KexReq /\ pc' = "hk_reply"
    /\ UNCHANGED <<srv, nConn, hkTried, hkParsed, hkGot, hkCur, gexIdx, gexStage, gexStep, smallest, reconnFailed, curReq, asked, reported,
                   rate, faults, waits, lastRead, handshakeOK, reportShown, exit, openAtExit>>
\* no usable group: this type cannot be probed; close and go on with the next type
HkGroup(o) ==
    /\ pc = "hk_group" /\ o \in Outcomes /\ Charge(o)
    /\ IF o = "ok" /\ Group(srv, HostKeyGexReq[1], HostKeyGexReq[2], HostKeyGexReq[3]) > 0
       THEN sock' = sock /\ pc' = "hk_init2"
       ELSE CloseMain /\ pc' = "hk_loop"
    /\ UNCHANGED <<srv, nConn, hkTried, hkParsed, hkGot, hkCur, gexIdx, gexStage, gexStep, smallest, reconnFailed, curReq, asked, reported,
                   rate, handshakeOK, reportShown, exit, kexReqOutside, maxKexReq, openAtExit>>
HkInit2 ==
    /\ pc = "hk_init2" /\ KexReq /\ pc' = "hk_reply"
    /\ UNCHANGED <<srv, nConn, hkTried, hkParsed, hkGot, hkCur, gexIdx, gexStage, gexStep, smallest, reconnFailed, curReq, asked, reported,
                   rate, faults, waits, lastRead, handshakeOK, reportShown, exit, openAtExit>>
\* reply: recorded ("key"), connection error (recorded empty), or unparsable (skipped); the socket is closed either way
HkReply(o) ==
    /\ pc = "hk_reply" /\ o \in Outcomes /\ Charge(o)
    /\ CloseMain
    /\ hkParsed' = IF o = "garbage" THEN hkParsed ELSE hkParsed \cup Family(hkCur)
    /\ hkGot' = IF o = "garbage" THEN hkGot
                ELSE [t \in DOMAIN hkGot \cup (IF hkCur \in RSAFam THEN RSAFam ELSE {hkCur}) |->
                         IF t \in DOMAIN hkGot THEN hkGot[t] ELSE IF o = "ok" THEN "key" ELSE "empty"]
    /\ pc' = "hk_loop"
    /\ UNCHANGED <<srv, nConn, hkTried, hkCur, gexIdx, gexStage, gexStep, smallest, reconnFailed, curReq, asked, reported,
                   rate, handshakeOK, reportShown, exit, kexReqOutside, maxKexReq, openAtExit>>

---------------------------------------------------------------------------
(* group-exchange probes (gextest.py) *)
GexAdvertised(a) == a \in srv.gex
NextGex == LET C == {i \in gexIdx..Len(GexOrder) : GexAdvertised(GexOrder[i])} IN IF C = {} THEN 0 ELSE Min(C)
CurAlg == GexOrder[gexIdx]

GexBegin ==
    /\ pc = "gex_begin"
    /\ CloseMain                                   \* GEXTest.run closes whatever the earlier phases left
    /\ pc' = "gex_alg"
    /\ UNCHANGED <<srv, nConn, hkTried, hkParsed, hkGot, hkCur, gexIdx, gexStage, gexStep, smallest, reconnFailed, curReq, asked, reported,
                   rate, faults, waits, lastRead, handshakeOK, reportShown, exit, kexReqOutside, maxKexReq, openAtExit>>
GexAlg ==
    /\ pc = "gex_alg" /\ srv.granular = <<>>
    /\ IF NextGex = 0 \/ reconnFailed
       THEN pc' = "rate_begin" /\ UNCHANGED <<gexIdx, gexStage, gexStep, smallest, curReq>>
       ELSE /\ gexIdx' = NextGex /\ gexStage' = "first" /\ gexStep' = 1 /\ smallest' = 0 /\ curReq' = FirstReq
            /\ pc' = "gex_conn"
    /\ UNCHANGED <<srv, sock, nConn, hkTried, hkParsed, hkGot, hkCur, reconnFailed, asked, reported,
                   rate, faults, waits, lastRead, handshakeOK, reportShown, exit, kexReqOutside, maxKexReq, openAtExit>>

\* -g: for every request, in order, one probe per advertised group-exchange algorithm (sha1 before sha256); when the list is
\* exhausted the sizes are printed and the run ends with status 0 - no algorithm report, no rate check
GrNext ==
    /\ pc = "gex_alg" /\ srv.granular # <<>>
    /\ IF gexStep > Len(srv.granular)
       THEN /\ pc' = "exit" /\ exit' = 0 /\ UNCHANGED <<gexIdx, gexStep, gexStage, smallest, curReq>>
       ELSE IF NextGex = 0
            THEN /\ gexStep' = gexStep + 1 /\ gexIdx' = 1 /\ pc' = "gex_alg" /\ UNCHANGED <<exit, gexStage, smallest, curReq>>
            ELSE /\ gexIdx' = NextGex /\ gexStage' = "granular" /\ smallest' = 0 /\ curReq' = srv.granular[gexStep]
                 /\ pc' = "gex_conn" /\ UNCHANGED <<exit, gexStep>>
    /\ UNCHANGED <<srv, sock, nConn, hkTried, hkParsed, hkGot, hkCur, reconnFailed, asked, reported,
                   rate, faults, waits, lastRead, handshakeOK, reportShown, kexReqOutside, maxKexReq, openAtExit>>

\* after a probe: decide what the loop does next (gextest.py:146-170)
AfterProbe(res, rf) ==
    \* res: result of the probe just finished (-1 or bits); rf: reconnect failed in that probe
    CASE gexStage = "first" ->
            IF rf THEN [stage |-> "abort", step |-> gexStep]
            ELSE [stage |-> "steps", step |-> 1]
      [] gexStage = "steps" -> [stage |-> "steps", step |-> gexStep + 1]
      [] gexStage = "second" -> [stage |-> "record", step |-> gexStep]
      [] OTHER -> [stage |-> gexStage, step |-> gexStep]

GexFinishProbe(res, rf) ==
    LET nx == AfterProbe(res, rf) IN
    /\ smallest' = res
    /\ reconnFailed' = (IF gexStage = "second" THEN reconnFailed ELSE rf)    \* the second pass ignores its reconnect flag
    /\ gexStage' = nx.stage /\ gexStep' = nx.step
    /\ pc' = "gex_loop"

Log(req, ans) == asked' = [a \in DOMAIN asked \cup {CurAlg} |->
                            IF a = CurAlg THEN (IF a \in DOMAIN asked THEN Append(asked[a], <<req, ans>>) ELSE <<<<req, ans>>>>)
                            ELSE asked[a]]

\* loop control between probes
GexLoop ==
    /\ pc = "gex_loop"
    /\ CASE gexStage = "abort" ->
              /\ pc' = "rate_begin" /\ UNCHANGED <<gexStage, gexStep, curReq, reported, gexIdx>>
         [] gexStage = "steps" ->
              IF gexStep <= Len(StepBits) /\ ~(StepBits[gexStep] >= smallest /\ smallest > 0)
              THEN /\ curReq' = <<StepBits[gexStep], StepBits[gexStep], StepBits[gexStep]>>
                   /\ pc' = "gex_conn" /\ UNCHANGED <<gexStage, gexStep, reported, gexIdx>>
              ELSE IF smallest = 2048 /\ srv.openssh
                   THEN /\ gexStage' = "second" /\ curReq' = SecondReq /\ pc' = "gex_conn"
                        /\ UNCHANGED <<gexStep, reported, gexIdx>>
                   ELSE /\ gexStage' = "record" /\ pc' = "gex_loop" /\ UNCHANGED <<gexStep, curReq, reported, gexIdx>>
         [] gexStage = "record" ->
              /\ reported' = IF smallest > 0
                             THEN [a \in DOMAIN reported \cup {CurAlg} |->
                                     IF a = CurAlg THEN [bits |-> smallest, fallback |-> (curReq = SecondReq /\ smallest # 2048)]
                                     ELSE reported[a]]
                             ELSE reported
              /\ gexIdx' = gexIdx + 1 /\ pc' = "gex_alg"
              /\ UNCHANGED <<gexStage, gexStep, curReq>>
         [] gexStage = "granular" ->
              \* a failed reconnect ends the whole test with the failure status; otherwise on to the next algorithm / request
              /\ IF reconnFailed THEN pc' = "exit" /\ UNCHANGED gexIdx ELSE pc' = "gex_alg" /\ gexIdx' = gexIdx + 1
              /\ UNCHANGED <<gexStage, gexStep, curReq, reported>>
         [] OTHER -> FALSE
    /\ exit' = IF gexStage = "granular" /\ reconnFailed THEN 3 ELSE exit
    /\ UNCHANGED <<srv, sock, nConn, hkTried, hkParsed, hkGot, hkCur, smallest, reconnFailed, asked,
                   rate, faults, waits, lastRead, handshakeOK, reportShown, kexReqOutside, maxKexReq, openAtExit>>

\* every probe makes its own connection; a refused one counts as "reconnect failed"
GexConnect(ok) ==
    /\ pc = "gex_conn" /\ ~sock.open /\ Refusal(ok)
    /\ Bump("gex")
    /\ IF ok THEN sock' = Open("gex") /\ pc' = "gex_banner" /\ UNCHANGED <<smallest, reconnFailed, gexStage, gexStep>>
       ELSE sock' = sock /\ GexFinishProbe(-1, TRUE)
    /\ UNCHANGED <<srv, hkTried, hkParsed, hkGot, hkCur, gexIdx, curReq, asked, reported,
                   rate, waits, lastRead, handshakeOK, reportShown, exit, kexReqOutside, maxKexReq, openAtExit>>
GexBanner ==
    /\ pc = "gex_banner" /\ SendBanner("gex_banner_read")
    /\ UNCHANGED <<srv, nConn, hkTried, hkParsed, hkGot, hkCur, gexIdx, gexStage, gexStep, smallest, reconnFailed, curReq, asked, reported,
                   rate, faults, waits, lastRead, handshakeOK, reportShown, exit, kexReqOutside, maxKexReq, openAtExit>>
GexBannerRead(o) ==
    /\ pc = "gex_banner_read" /\ o \in Outcomes /\ Charge(o)
    /\ \/ o = "ok" /\ sock' = sock /\ pc' = "gex_sendkex" /\ UNCHANGED <<smallest, reconnFailed, gexStage, gexStep>>
       \/ o # "ok" /\ CloseMain /\ GexFinishProbe(-1, TRUE)
       \/ o # "ok" /\ sock' = sock /\ pc' = "gex_sendkex" /\ UNCHANGED <<smallest, reconnFailed, gexStage, gexStep>>
    /\ UNCHANGED <<srv, nConn, hkTried, hkParsed, hkGot, hkCur, gexIdx, curReq, asked, reported,
                   rate, handshakeOK, reportShown, exit, kexReqOutside, maxKexReq, openAtExit>>
GexSendKex ==
    /\ pc = "gex_sendkex" /\ SendKexinit("gex_recvkex")
    /\ UNCHANGED <<srv, nConn, hkTried, hkParsed, hkGot, hkCur, gexIdx, gexStage, gexStep, smallest, reconnFailed, curReq, asked, reported,
                   rate, faults, waits, lastRead, handshakeOK, reportShown, exit, kexReqOutside, maxKexReq, openAtExit>>
GexRecvKex(o) ==
    /\ pc = "gex_recvkex" /\ o \in Outcomes /\ Charge(o)
    /\ \/ o = "ok" /\ sock' = sock /\ pc' = "gex_req" /\ UNCHANGED <<smallest, reconnFailed, gexStage, gexStep>>
       \/ o # "ok" /\ CloseMain /\ GexFinishProbe(-1, TRUE)
       \/ o # "ok" /\ sock' = sock /\ pc' = "gex_req" /\ UNCHANGED <<smallest, reconnFailed, gexStage, gexStep>>
    /\ UNCHANGED <<srv, nConn, hkTried, hkParsed, hkGot, hkCur, gexIdx, curReq, asked, reported,
                   rate, handshakeOK, reportShown, exit, kexReqOutside, maxKexReq, openAtExit>>
\* GEX_REQUEST(min, pref, max); the server answers with a group of Group(...) bits or refuses
GexReq ==
    /\ pc = "gex_req" /\ sock.open /\ sock.stage = "kexinit" /\ pc' = "gex_group"
    /\ UNCHANGED <<srv, sock, nConn, hkTried, hkParsed, hkGot, hkCur, gexIdx, gexStage, gexStep, smallest, reconnFailed, curReq, asked, reported,
                   rate, faults, waits, lastRead, handshakeOK, reportShown, exit, kexReqOutside, maxKexReq, openAtExit>>
GexGroup(o) ==
    /\ pc = "gex_group" /\ o \in Outcomes /\ Charge(o)
    /\ LET ans == Group(srv, curReq[1], curReq[2], curReq[3]) IN
       IF o = "ok" /\ ans > 0
       THEN /\ Log(curReq, ans) /\ smallest' = ans /\ pc' = "gex_init" /\ sock' = sock
            /\ UNCHANGED <<reconnFailed, gexStage, gexStep>>
       ELSE /\ (IF o = "ok" THEN Log(curReq, 0) ELSE asked' = asked)
            /\ CloseMain /\ GexFinishProbe(-1, FALSE)
    /\ UNCHANGED <<srv, nConn, hkTried, hkParsed, hkGot, hkCur, gexIdx, curReq, reported,
                   rate, handshakeOK, reportShown, exit, kexReqOutside, maxKexReq, openAtExit>>
\* GEX_INIT: the one key-exchange computation request of this connection
GexInit ==
    /\ pc = "gex_init" /\ KexReq /\ pc' = "gex_reply"
    /\ UNCHANGED <<srv, nConn, hkTried, hkParsed, hkGot, hkCur, gexIdx, gexStage, gexStep, smallest, reconnFailed, curReq, asked, reported,
                   rate, faults, waits, lastRead, handshakeOK, reportShown, exit, openAtExit>>
\* whatever the reply, the size of the group already received is the probe's result (unless the reply is not a reply at all)
GexReply(o) ==
    /\ pc = "gex_reply" /\ o \in Outcomes /\ Charge(o)
    /\ CloseMain
    /\ GexFinishProbe(IF o = "garbage" THEN -1 ELSE smallest, FALSE)
    /\ UNCHANGED <<srv, nConn, hkTried, hkParsed, hkGot, hkCur, gexIdx, curReq, asked, reported,
                   rate, handshakeOK, reportShown, exit, kexReqOutside, maxKexReq, openAtExit>>

---------------------------------------------------------------------------
(* connection-rate check (dheat.py dh_rate_test) - raw sockets, no SSH traffic sent *)
RateBegin ==
    /\ pc = "rate_begin"
    /\ pc' = IF ~srv.skipRate /\ srv.dh THEN "rate" ELSE "report"
    /\ UNCHANGED <<srv, sock, nConn, hkTried, hkParsed, hkGot, hkCur, gexIdx, gexStage, gexStep, smallest, reconnFailed, curReq, asked,
                   reported, rate, faults, waits, lastRead, handshakeOK, reportShown, exit, kexReqOutside, maxKexReq, openAtExit>>
RateOver == rate.ticks >= RateTicks \/ rate.counted >= RateCap
RU == <<srv, sock, hkTried, hkParsed, hkGot, hkCur, gexIdx, gexStage, gexStep, smallest, reconnFailed, curReq, asked,
        reported, waits, lastRead, handshakeOK, reportShown, exit, kexReqOutside, maxKexReq, openAtExit>>
\* One iteration of the loop: (1) open sockets while fewer than RateConc are in flight and the cap is not reached,
\* (2) select(): the environment makes k >= 0 of the in-flight sockets readable, (3) each readable socket is read
\* (an SSH banner is counted, anything else is not) and closed.  The time/count limit is tested at the loop top only.
OpenGuard == /\ rate.inflight < RateConc
             /\ IF RateMode = "attempts" THEN rate.opened < RateCap ELSE rate.inflight + rate.counted < RateCap
RateOpen(ok) ==
    /\ pc = "rate" /\ rate.stage = "open" /\ ~RateOver /\ OpenGuard /\ Refusal(ok)
    /\ rate' = [rate EXCEPT !.opened = @ + 1, !.inflight = IF ok THEN @ + 1 ELSE @]
    /\ Bump("rate")
    /\ UNCHANGED <<pc>> /\ UNCHANGED RU
RateSelect(k) ==
    /\ pc = "rate" /\ rate.stage = "open" /\ ~RateOver /\ ~OpenGuard
    /\ k \in 0..rate.inflight
    /\ rate' = IF k = 0 THEN (IF Counting THEN [rate EXCEPT !.ticks = @ + 1] ELSE rate)     \* a 0.1 s select timeout
               ELSE [rate EXCEPT !.stage = "handle", !.pending = k]
    /\ UNCHANGED <<pc, nConn, faults>> /\ UNCHANGED RU
RateReply(isBanner) ==
    /\ pc = "rate" /\ rate.stage = "handle" /\ rate.pending > 0
    /\ rate' = [rate EXCEPT !.inflight = @ - 1, !.pending = @ - 1, !.counted = IF isBanner THEN @ + 1 ELSE @,
                             !.stage = IF rate.pending = 1 THEN "open" ELSE "handle"]
    /\ UNCHANGED <<pc, nConn, faults>> /\ UNCHANGED RU
\* the 1.5 s limit is wall-clock time, which the model does not measure: it may strike at any loop top
RateTimeUp ==
    /\ pc = "rate" /\ rate.stage = "open" /\ ~RateOver
    /\ rate' = [rate EXCEPT !.ticks = RateTicks]
    /\ UNCHANGED <<pc, nConn, faults>> /\ UNCHANGED RU
\* limit reached: remaining sockets are closed one by one, then the phase ends
RateDrain ==
    /\ pc = "rate" /\ rate.stage = "open" /\ RateOver /\ rate.inflight > 0
    /\ rate' = [rate EXCEPT !.inflight = @ - 1]
    /\ UNCHANGED <<pc, nConn, faults>> /\ UNCHANGED RU
RateEnd ==
    /\ pc = "rate" /\ rate.stage = "open" /\ RateOver /\ rate.inflight = 0
    /\ pc' = "report"
    /\ UNCHANGED <<rate, nConn, faults>> /\ UNCHANGED RU

---------------------------------------------------------------------------
(* report and exit *)
Report(st) ==
    /\ pc = "report" /\ st \in {0, 2, 3}
    /\ reportShown' = TRUE /\ exit' = st /\ pc' = "exit"
    /\ UNCHANGED <<srv, sock, nConn, hkTried, hkParsed, hkGot, hkCur, gexIdx, gexStage, gexStep, smallest, reconnFailed, curReq, asked,
                   reported, rate, faults, waits, lastRead, handshakeOK, kexReqOutside, maxKexReq, openAtExit>>
\* process exit: whatever is still referenced is closed by the socket's finaliser
Exit ==
    /\ pc = "exit"
    /\ sock' = NoSock /\ openAtExit' = 0 /\ pc' = "done"
    /\ hs' = [hs EXCEPT !.orphans = 0, !.listening = 0]
    /\ UNCHANGED <<srv, nConn, hkTried, hkParsed, hkGot, hkCur, gexIdx, gexStage, gexStep, smallest, reconnFailed, curReq, asked,
                   reported, rate, faults, waits, lastRead, handshakeOK, reportShown, exit, kexReqOutside, maxKexReq>>

\* actions that leave the attempt record alone
Core ==
    \/ \E ok \in BOOLEAN : HConnect(ok) \/ HkConnect(ok) \/ GexConnect(ok)
    \/ HBanner \/ HSendKex \/ HkBegin \/ HkDone \/ HkBanner \/ HkSendKex \/ HkInit \/ HkInit2
    \/ GexBegin \/ GexAlg \/ GrNext \/ GexLoop \/ GexBanner \/ GexSendKex \/ GexReq \/ GexInit
    \/ \E o \in Outcomes : HBannerRead(o) \/ HkBannerRead(o) \/ HkRecvKex(o) \/ HkReply(o) \/ HkGroup(o)
                           \/ GexBannerRead(o) \/ GexRecvKex(o) \/ GexGroup(o) \/ GexReply(o)
    \/ RateBegin \/ RateDrain \/ RateEnd \/ RateTimeUp \/ \E bn \in BOOLEAN : RateReply(bn) \/ RateOpen(bn)
    \/ \E k \in 0..RateConc : RateSelect(k)
    \/ \E st \in {0, 2, 3} : Report(st)
Next ==
    \/ Core /\ UNCHANGED hs
    \/ \E o \in Outcomes \cup {"mismatch"} : HRecvKex(o)
    \/ CListen \/ \E ok \in BOOLEAN : CAccept(ok)
    \/ Exit

Spec == Init /\ [][Next]_vars
FairSpec == Spec /\ WF_vars(Next)

---------------------------------------------------------------------------
(* properties *)
\* C09
ExitDocumented == pc = "done" => exit \in {0, 1, 2, 3}
ReportIffHandshake == pc = "done" => /\ ((handshakeOK /\ srv.granular = <<>>) => (reportShown /\ exit \in {0, 2, 3}))
                                      /\ ((handshakeOK /\ srv.granular # <<>>) => (~reportShown /\ exit \in {0, 3}))     \* -g prints sizes, not a report
                                      /\ (~handshakeOK => (~reportShown /\ exit = 1))
TotalConn == nConn["handshake"] + nConn["hostkey"] + nConn["gex"] + nConn["rate"]
BoundedWaiting == waits <= TotalConn
Terminates == <>(pc = "done")

\* C19
HkFamilies == Cardinality({Family(srv.hk[i]) : i \in 1..Len(srv.hk)})
FootprintBounded ==
    /\ nConn["handshake"] <= (IF hs.sshv = 1 /\ srv.try = "12" THEN 2 ELSE 1)   \* a second one only for the SSH-1 fallback
    /\ hs.orphans <= 1 /\ hs.listening <= 2
    /\ ((hs.sshv = 1 \/ srv.role = "client") => nConn["hostkey"] + nConn["gex"] + nConn["rate"] = 0)    \* no probes of SSH-1 peers or of clients
    /\ nConn["hostkey"] <= Len(srv.hk)                  \* at most one per probed host-key type ...
    /\ ((sock.open /\ sock.phase = "hostkey") => hkCur \notin hkParsed)   \* ... and never for a type already answered (RSA family)
    /\ nConn["gex"] <= (IF srv.granular = <<>> THEN 9 ELSE Len(srv.granular)) * Cardinality(srv.gex)
    /\ nConn["rate"] <= RateCap
    /\ ((srv.skipRate \/ ~srv.dh) => nConn["rate"] = 0)
    /\ rate.inflight <= RateConc
KexReqDiscipline == ~kexReqOutside /\ maxKexReq <= 1
AllClosedAtExit == pc = "done" => (~sock.open /\ rate.inflight = 0 /\ openAtExit = 0 /\ hs.orphans = 0 /\ hs.listening = 0)
\* the protocol version of the attempt only ever goes from 2 to 1, once, and only when both are enabled
FallbackDiscipline == /\ (hs.sshv = 1 => srv.try \in {"1", "12"}) /\ (hs.sshv = 2 => srv.try \in {"2", "12"})
                      /\ (hs.orphans > 0 => (hs.sshv = 1 /\ srv.try = "12"))
OnlyDowngrade == [][hs'.sshv <= hs.sshv]_vars
ProbesOnlyAfterHandshake == (nConn["hostkey"] + nConn["gex"] + nConn["rate"] > 0) => handshakeOK

\* C12 (fault-free behaviours): what is reported is the smallest group handed out, or the follow-up answer for OpenSSH
Answers(a) == IF a \in DOMAIN asked THEN {asked[a][i][2] : i \in 1..Len(asked[a])} \ {0} ELSE {}
LastAnswer(a) == asked[a][Len(asked[a])][2]
GexReportRule == (pc = "done" /\ faults = 0 /\ srv.granular = <<>> /\ hs.sshv = 2 /\ srv.role = "server" /\ handshakeOK) => \A a \in srv.gex :
    IF Answers(a) = {} THEN a \notin DOMAIN reported
    ELSE /\ a \in DOMAIN reported
         /\ IF srv.openssh /\ reported[a].fallback
            THEN /\ reported[a].bits = LastAnswer(a) /\ asked[a][Len(asked[a])][1] = SecondReq /\ reported[a].bits # 2048
            ELSE reported[a].bits = Min(Answers(a)) \/ (srv.openssh /\ asked[a][Len(asked[a])][1] = SecondReq /\ reported[a].bits = LastAnswer(a))
NoSizeWhenRefused == pc = "done" => \A a \in DOMAIN reported : reported[a].bits > 0 /\ reported[a].bits \in Answers(a)
GexRequestsFixed == \A a \in DOMAIN asked : Len(asked[a]) <= (IF srv.granular = <<>> THEN 9 ELSE Len(srv.granular))
\* -g, fault-free: every request was put to every advertised group-exchange algorithm once, in order, and answered by the server's rule
GranularRule == (pc = "done" /\ faults = 0 /\ srv.granular # <<>> /\ handshakeOK) => \A a \in srv.gex :
    /\ a \in DOMAIN asked /\ Len(asked[a]) = Len(srv.granular)
    /\ \A i \in 1..Len(srv.granular) :
          asked[a][i] = <<srv.granular[i], Group(srv, srv.granular[i][1], srv.granular[i][2], srv.granular[i][3])>>

\* C11 connection pattern: one probe answers for the whole RSA family, all members alike
RsaFanOut == \A t \in RSAFam \cap DOMAIN hkGot : \A u \in RSAFam : u \in DOMAIN hkGot /\ hkGot[u] = hkGot[t]
=============================================================================
