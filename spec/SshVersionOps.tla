------------------------- MODULE SshVersionOps -------------------------
(***************************************************************************)
(* Pure operators of the release order (no variables), shared by           *)
(* SshVersion (C14) and SshRating (C13: "available in the identified        *)
(* software version").  See SshVersion.tla for the data model.             *)
(***************************************************************************)
EXTENDS Integers, Sequences

(* numeric, component by component *)
RECURSIVE CmpSeq(_, _)
CmpSeq(a, b) ==
    IF a = <<>> /\ b = <<>> THEN 0
    ELSE IF a = <<>> THEN -1                  \* a proper prefix is the older release
    ELSE IF b = <<>> THEN 1
    ELSE IF Head(a) < Head(b) THEN -1
    ELSE IF Head(a) > Head(b) THEN 1
    ELSE CmpSeq(Tail(a), Tail(b))

CmpInt(x, y) == IF x < y THEN -1 ELSE IF x > y THEN 1 ELSE 0

\* rank of a patch marker within one component tuple
PatchRank(product, p) ==
    CASE product = "OpenSSH"  -> IF p[1] = "p" THEN <<1, p[2]>> ELSE <<1, 1>>     \* none == p1
      [] product = "Dropbear SSH" -> IF p[1] = "test" THEN <<0, p[2]>> ELSE <<1, 0>>  \* testN before the release
      [] OTHER                -> <<1, 0>>

Compare(product, a, b) ==
    LET c == CmpSeq(a.c, b.c) IN
    IF c # 0 THEN c
    ELSE CmpSeq(PatchRank(product, a.p), PatchRank(product, b.p))

\* "available since": an algorithm that first appeared in release s is available in server v
AvailableSince(product, v, s) == Compare(product, v, s) >= 0

\* pairs the property does not order: they differ only by trailing zero components
RECURSIVE AllZero(_)
AllZero(s) == s = <<>> \/ (Head(s) = 0 /\ AllZero(Tail(s)))
RECURSIVE OnlyTrailingZeros(_, _)
OnlyTrailingZeros(a, b) ==
    IF a = <<>> THEN AllZero(b) /\ b # <<>>
    ELSE IF b = <<>> THEN AllZero(a)
    ELSE Head(a) = Head(b) /\ OnlyTrailingZeros(Tail(a), Tail(b))
Undetermined(a, b) == a.c # b.c /\ OnlyTrailingZeros(a.c, b.c)
=============================================================================
