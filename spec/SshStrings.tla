--------------------------- MODULE SshStrings ---------------------------
(***************************************************************************)
(* Algorithm names are TLA+ strings.  TLC evaluates Len, \o and SubSeq on  *)
(* strings, which is all the spelling rules of ssh-audit need (prefix,     *)
(* suffix, infix, last dash).  Names handed to TLC are printable ASCII; the *)
(* harness aliases anything else before it reaches the specification.      *)
(***************************************************************************)
EXTENDS Integers, Sequences

StartsWith(s, p) == Len(p) <= Len(s) /\ SubSeq(s, 1, Len(p)) = p
EndsWith(s, p)   == Len(p) <= Len(s) /\ SubSeq(s, Len(s) - Len(p) + 1, Len(s)) = p
Contains(s, p)   == \E i \in 1..(Len(s) - Len(p) + 1) : SubSeq(s, i, i + Len(p) - 1) = p
CharAt(s, i)     == SubSeq(s, i, i)
\* position of the last occurrence of the one-character string c in s (0 if none)
LastIndexOf(s, c) ==
    LET I == {i \in 1..Len(s) : CharAt(s, i) = c} IN
    IF I = {} THEN 0 ELSE CHOOSE i \in I : \A j \in I : j <= i
IsBlank(s) == \A i \in 1..Len(s) : CharAt(s, i) \in {" ", "\t", "\n", "\r"}

Range(f) == {f[x] : x \in DOMAIN f}
SeqContains(q, x) == \E i \in 1..Len(q) : q[i] = x
RECURSIVE SeqFilter(_, _)
\* SelectSeq with an operator argument of arity 1 is Sequences!SelectSeq; this one keeps q's order for a set test
SeqFilter(q, S) == IF q = <<>> THEN <<>>
                   ELSE (IF Head(q) \in S THEN <<Head(q)>> ELSE <<>>) \o SeqFilter(Tail(q), S)
=============================================================================
