--------------------------- MODULE MC_SshMulti ---------------------------
EXTENDS SshMulti, Json

A(m, p, o) == [marks |-> m, polfail |-> p, outcome |-> o]
\* C07: one archetype per channel through which a scan edits shared rating state
C07Archetypes == {A({}, FALSE, "good"), A({"terrapin"}, FALSE, "warn"), A({"small-rsa"}, FALSE, "fail"), A({"small-gex"}, FALSE, "fail"),
                  A({"ossh-2048"}, FALSE, "warn"), A({}, TRUE, "fail")}
\* C08: healthy and failing outcomes
C08Archetypes == {A({}, FALSE, o) : o \in {"good", "warn", "fail", "connerr", "raise", "sysexit"}}
Lists(S, n) == UNION {[1..k -> S] : k \in 1..n}
Pairs07 == Lists(C07Archetypes, 2)
Triples07 == Lists(C07Archetypes, 3)
Pairs08 == Lists(C08Archetypes, 2)
Triples08 == Lists(C08Archetypes, 3)
=============================================================================
