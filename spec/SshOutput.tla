---------------------------- MODULE SshOutput ----------------------------
(***************************************************************************)
(* The output buffer (property C15): every line of a report goes through    *)
(* it with a level (info / good / warn / fail / head), possibly inside a     *)
(* section that is flushed (optionally sorted) later.  Options: minimum      *)
(* level, batch, colours.                                                    *)
(*                                                                         *)
(* A line is a record [lv, text, col]; `col` says whether it is wrapped in   *)
(* colour codes - the text itself never changes.  The laws say that the      *)
(* options change presentation only:                                         *)
(*   LevelOnlyRemoves   output at level L = output at level info minus the   *)
(*                      lines below L that are not marked always             *)
(*   ColourOnlyWraps    with and without colours: same lines, same texts     *)
(*   BatchOnlyDrops     batch = normal minus head lines and separators       *)
(*   FindingsInvariant  the multiset of (level, text) findings at level info *)
(*                      does not depend on batch / colours                   *)
(* A line may be printed in two calls (the first leaves it open - the       *)
(* "Result: " of a policy audit, at level info - and the next one completes  *)
(* it with the verdict at its own level): the call alphabet has that pair as *)
(* one element ("pair"), because that is how the tool uses it; each half is   *)
(* filtered by the minimum level on its own, so at -l warn the verdict stays  *)
(* and its prefix goes.                                                      *)
(* TLC checks them for every call sequence up to MaxCalls over the call      *)
(* alphabet; each (sequence, options) is emitted with the expected buffer    *)
(* and replayed into the real OutputBuffer class.                            *)
(***************************************************************************)
EXTENDS Integers, Sequences, FiniteSets, TLC, Json

CONSTANTS MaxCalls

Levels == <<"info", "warn", "fail">>
Rank(lv) == CASE lv = "info" -> 0 [] lv = "good" -> 0 [] lv = "sep" -> 0 [] lv = "warn" -> 1 [] lv = "fail" -> 2 [] lv = "head" -> 9
MinRank(L) == CASE L = "info" -> 0 [] L = "warn" -> 1 [] L = "fail" -> 2

\* call alphabet: [op, lv, text, always]
P(lv, t, a) == [op |-> "print", lv |-> lv, text |-> t, always |-> a]
Calls == {P("fail", "F", FALSE), P("warn", "W", FALSE), P("info", "I", FALSE), P("good", "G", FALSE), P("info", "", FALSE),
          P("fail", "A", TRUE), P("good", "B", TRUE),
          [op |-> "pair", lv |-> "fail", text |-> "X", always |-> FALSE], [op |-> "pair", lv |-> "good", text |-> "K", always |-> FALSE],
          [op |-> "head", lv |-> "head", text |-> "# H", always |-> FALSE], [op |-> "sep", lv |-> "sep", text |-> "", always |-> FALSE],
          [op |-> "enter", lv |-> "", text |-> "", always |-> FALSE], [op |-> "exit", lv |-> "", text |-> "", always |-> FALSE],
          [op |-> "flush", lv |-> "", text |-> "", always |-> FALSE]}
Opts == [level : {"info", "warn", "fail"}, batch : BOOLEAN, colors : BOOLEAN]

Empty == [buf |-> <<>>, sec |-> <<>>, insec |-> FALSE]
Prefix == "R: "                                                        \* the open first half of a pair, printed at level info
Line(c, o) == [lv |-> c.lv, pre |-> "", text |-> c.text, col |-> (o.colors /\ c.text # "" /\ c.lv \notin {"info", "sep"})]
Put(st, ln) == IF st.insec THEN [st EXCEPT !.sec = Append(@, ln)] ELSE [st EXCEPT !.buf = Append(@, ln)]
Apply(st, c, o) ==
    CASE c.op = "print" -> IF ~c.always /\ Rank(c.lv) < MinRank(o.level) THEN st ELSE Put(st, Line(c, o))
      [] c.op = "pair" -> IF Rank(c.lv) < MinRank(o.level) THEN (IF MinRank(o.level) > 0 THEN st ELSE Put(st, [lv |-> "info", pre |-> "", text |-> Prefix, col |-> FALSE]))
                          ELSE Put(st, [Line(c, o) EXCEPT !.pre = IF MinRank(o.level) > 0 THEN "" ELSE Prefix])
      [] c.op = "head" -> IF o.batch THEN st ELSE Put(st, Line(c, o))
      [] c.op = "sep" -> IF o.batch \/ MinRank(o.level) > 0 THEN st ELSE Put(st, Line(c, o))
      [] c.op = "enter" -> [st EXCEPT !.insec = TRUE]
      [] c.op = "exit" -> [st EXCEPT !.insec = FALSE]
      [] c.op = "flush" -> [st EXCEPT !.buf = @ \o st.sec, !.sec = <<>>]
RECURSIVE Run(_, _, _)
Run(cs, o, st) == IF cs = <<>> THEN st ELSE Run(Tail(cs), o, Apply(st, Head(cs), o))
Final(cs, o) == LET st == Run(cs, o, Empty) IN st.buf \o st.sec          \* get_buffer() flushes the open section

VARIABLES calls, opts, st, pc
vars == <<calls, opts, st, pc>>
Init == /\ calls \in UNION {[1..k -> Calls] : k \in 1..MaxCalls} /\ opts \in Opts /\ st = Empty /\ pc = 1
Step == /\ pc <= Len(calls)
        /\ st' = Apply(st, calls[pc], opts) /\ pc' = pc + 1
        /\ UNCHANGED <<calls, opts>>
Next == Step
Spec == Init /\ [][Next]_vars

Done == pc = Len(calls) + 1
Out == st.buf \o st.sec
Texts(q) == [i \in 1..Len(q) |-> <<q[i].lv, q[i].pre, q[i].text>>]
\* law 1: a higher minimum level only removes lines below it
Keep(ln, L) == Rank(ln.lv) >= MinRank(L)
AlwaysTexts == {c.text : c \in {d \in Calls : d.always}}
LevelOnlyRemoves == Done =>
    LET base == Final(calls, [opts EXCEPT !.level = "info"]) IN
    LET kept == SelectSeq(base, LAMBDA ln : Keep(ln, opts.level) \/ ln.text \in AlwaysTexts)
        \* (the info-level prefix of a two-call line goes with the other info output)
        shown == [i \in 1..Len(kept) |-> IF MinRank(opts.level) > 0 THEN [kept[i] EXCEPT !.pre = ""] ELSE kept[i]] IN
    Texts(Out) = Texts(shown)
\* law 2
ColourOnlyWraps == Done => Texts(Out) = Texts(Final(calls, [opts EXCEPT !.colors = ~opts.colors]))
\* law 3
BatchOnlyDrops == (Done /\ opts.batch) =>
    Texts(Out) = Texts(SelectSeq(Final(calls, [opts EXCEPT !.batch = FALSE]), LAMBDA ln : ln.lv \notin {"head", "sep"}))
\* status-relevant content: no option ever turns a line into another
NoRewrite == Done => \A i \in 1..Len(Out) : \/ \E c \in Calls : c.lv = Out[i].lv /\ c.text = Out[i].text /\ Out[i].pre \in {"", Prefix}
                                            \/ Out[i].lv = "info" /\ Out[i].text = Prefix /\ Out[i].pre = ""

Emit == Done => PrintT(ToJson([calls |-> calls, opts |-> opts, out |-> Out]))
=============================================================================
