----------------------------- MODULE SshStream -----------------------------
(***************************************************************************)
(* The packet reader over a TCP byte stream (property C10: packets are      *)
(* well-framed *and read back as framed*; the stream side of C09's          *)
(* "segmentation is not a fault").                                          *)
(*                                                                         *)
(* A peer sends a sequence of binary packets (RFC 4253 section 6, no MAC).   *)
(* The network delivers the resulting byte stream in arbitrary segments:    *)
(* `cuts` is the set of offsets at which one recv() ends and the next one    *)
(* begins.  The reader (ssh_socket.SSH_Socket.read_packet) is the state      *)
(* machine below, structured like the code: it needs 4 bytes (length), then *)
(* 1 (padding length), then the payload, then the padding; whenever fewer    *)
(* bytes than it needs are buffered it calls recv() again (ensure_read).     *)
(* Only byte *counts* are modelled - the content of a packet never matters   *)
(* to where the next one begins - so the length the reader "sees" at an      *)
(* offset is the length field that the sender put there, and exists only if *)
(* the offset is the start of a packet (Aligned).                            *)
(*                                                                         *)
(* TLC enumerates every sequence of up to MaxPackets payload sizes drawn     *)
(* from Sizes and every set of up to MaxCuts cut offsets, checks that the    *)
(* reader returns exactly the packets sent whatever the segmentation, and    *)
(* emits each case; the harness frames the same packets with its own         *)
(* encoder, delivers them to the real reader in exactly those segments and   *)
(* compares what read_packet() returns, call by call.                        *)
(***************************************************************************)
EXTENDS Integers, Sequences, FiniteSets, TLC, Json

CONSTANTS Sizes, MaxPackets, MaxCuts,
          Proto        \* 2: RFC 4253 binary packet (no MAC);  1: SSH-1 packet (length, 1..8 bytes of padding, type + data + CRC-32)

Pad(n) == LET p == (8 - ((n + 5) % 8)) % 8 IN IF p < 4 THEN p + 8 ELSE p
PLen(n) == n + Pad(n) + 1
\* SSH-1: the length field counts type + data + CRC (n + 4 for a body of n bytes); padding brings length + padding to a multiple of 8
\* and is never empty (a length that is already a multiple of 8 gets 8 bytes)
Len1(n) == n + 4
Pad1(n) == 8 - (Len1(n) % 8)
FrameLen(n) == IF Proto = 2 THEN 4 + PLen(n) ELSE 4 + Pad1(n) + Len1(n)
\* the reader's steps, in the order of the code's ensure_read() calls, and how many bytes each needs for a body of n bytes
Steps == IF Proto = 2 THEN <<"len", "padlen", "payload", "padding">> ELSE <<"len", "padding", "payload">>
NeedOf(step, n) == CASE step = "len" -> 4
                     [] step = "padlen" -> 1
                     [] step = "payload" -> (IF Proto = 2 THEN n ELSE Len1(n))
                     [] step = "padding" -> (IF Proto = 2 THEN Pad(n) ELSE Pad1(n))
NextStep(step) == LET i == CHOOSE j \in 1..Len(Steps) : Steps[j] = step IN IF i = Len(Steps) THEN "len" ELSE Steps[i + 1]
LastStep == Steps[Len(Steps)]

RECURSIVE SumTo(_, _)
SumTo(q, k) == IF k = 0 THEN 0 ELSE FrameLen(q[k]) + SumTo(q, k - 1)
Min(S) == CHOOSE x \in S : \A y \in S : x <= y

VARIABLES pkts,        \* payload sizes of the packets sent, in order
          cuts,        \* offsets at which the network ends a segment
          delivered,   \* bytes handed to the reader's buffer so far
          consumed,    \* bytes the reader has taken out of its buffer
          pc,          \* one of Steps, or "eof"
          cur,         \* index of the packet being read
          out          \* payload sizes returned by completed read_packet() calls
vars == <<pkts, cuts, delivered, consumed, pc, cur, out>>

Total == SumTo(pkts, Len(pkts))
Start(i) == SumTo(pkts, i - 1)
PacketSeqs == UNION {[1..k -> Sizes] : k \in 1..MaxPackets}
\* all sets of at most MaxCuts (<= 3) offsets, built directly (filtering SUBSET (1..total-1) would enumerate 2^total sets)
CutSets(total) == LET R == 1..(total - 1) IN
    {{}} \cup {{a} : a \in R}
         \cup (IF MaxCuts >= 2 THEN {{a, b} : a \in R, b \in R} ELSE {})
         \cup (IF MaxCuts >= 3 THEN {{a, b, c} : a \in R, b \in R, c \in R} ELSE {})

Init ==
    /\ pkts \in PacketSeqs
    /\ cuts \in CutSets(SumTo(pkts, Len(pkts)))
    /\ delivered = 0 /\ consumed = 0 /\ pc = "len" /\ cur = 1 /\ out = <<>>

Avail == delivered - consumed
\* what the reader needs next
Need == IF pc = "eof" \/ cur > Len(pkts) THEN (IF pc = "len" THEN 4 ELSE 0) ELSE NeedOf(pc, pkts[cur])

\* recv(): the next segment arrives (the stream ends after the last packet: a further recv() reports end of stream)
Recv ==
    /\ pc # "eof" /\ Avail < Need
    /\ IF delivered < Total
       THEN /\ delivered' = Min({c \in cuts \cup {Total} : c > delivered})
            /\ UNCHANGED <<pc, out, cur>>
       ELSE /\ pc' = "eof" /\ UNCHANGED <<delivered, out, cur>>     \* read error: returned as (-1, ...) by read_packet
    /\ UNCHANGED <<pkts, cuts, consumed>>

\* the reader takes what it needs out of the buffer and moves on
Take ==
    /\ pc # "eof" /\ Avail >= Need
    /\ consumed' = consumed + Need
    /\ pc' = NextStep(pc)
    /\ IF pc = LastStep THEN out' = Append(out, pkts[cur]) /\ cur' = cur + 1 ELSE UNCHANGED <<out, cur>>
    /\ UNCHANGED <<pkts, cuts, delivered>>

\* recv() on a socket that has nothing to hand out *yet* (EAGAIN / EWOULDBLOCK): the reader is told to try again.  Nothing changes - a
\* stuttering step - and the reader asks again; the harness injects such answers between the segments of every case
Again == /\ pc # "eof" /\ Avail < Need /\ delivered < Total /\ UNCHANGED vars

Next == Recv \/ Take \/ Again
Spec == Init /\ [][Next]_vars /\ WF_vars(Next)

---------------------------------------------------------------------------
\* a length field is only ever read at the start of a packet (or at the end of the stream, where there is none)
Aligned == pc = "len" => consumed = Start(cur)
\* the reader never takes bytes that have not arrived, and never reads past the packet it is in
NoOverread == /\ consumed <= delivered
              /\ (pc # "eof" /\ cur <= Len(pkts)) => consumed <= Start(cur + 1)
\* whatever the segmentation, exactly the packets sent are returned, in order, then end of stream
AllReturned == pc = "eof" => out = pkts
Prefix == \A i \in 1..Len(out) : i <= Len(pkts) /\ out[i] = pkts[i]
Terminates == <>(pc = "eof")

RECURSIVE SetToSeq(_)
SetToSeq(S) == IF S = {} THEN <<>> ELSE <<Min(S)>> \o SetToSeq(S \ {Min(S)})
Emit == pc = "eof" => PrintT(ToJson([pkts |-> pkts, cuts |-> SetToSeq(cuts), out |-> out]))
=============================================================================
