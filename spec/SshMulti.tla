---------------------------- MODULE SshMulti ----------------------------
(***************************************************************************)
(* Multi-target runs (-T file, --threads k): properties C07 and C08.        *)
(*                                                                         *)
(* The main thread submits every target to a pool of at most `threads`      *)
(* worker threads, then collects finished workers in completion order,     *)
(* printing each one's block, and finally exits with the highest-ranked     *)
(* status.  Each worker thread owns a private copy of the rating tables     *)
(* (created on first use: GetDb), which a scan edits in place; `tdb[th]` is *)
(* the *dirty set* of thread th's copy - the marks left in it - or Absent.  *)
(* A worker also works on its own deep copy of the configuration (policy   *)
(* object with its error accumulator).                                      *)
(*                                                                         *)
(* Constants select the mechanism, so that TLC shows which ones keep the    *)
(* properties:                                                              *)
(*   Cleanup    "never"     only the main thread discards its copy (tree    *)
(*                          as found): Isolation fails on a reused thread   *)
(*              "workerEnd" every worker discards its thread's copy         *)
(*   CopyConfig "deep" | "shared"                                           *)
(*   SysExit    "contained" a worker ending through SystemExit yields an    *)
(*                          error result for its target                     *)
(*              "escapes"   the SystemExit resurfaces in the main thread    *)
(*                          when that worker is collected and ends the run  *)
(*                          (tree as found): Blocks fails                   *)
(***************************************************************************)
EXTENDS Integers, Sequences, FiniteSets, TLC

CONSTANTS
    TargetLists,    \* set of target lists (sequences of archetype records) explored by Init
    MaxThreads,     \* pool sizes 1..MaxThreads
    Cleanup, CopyConfig, SysExit

\* archetype: [marks |-> set of table marks its scan leaves, polfail |-> BOOLEAN (its policy evaluation records errors),
\*             outcome |-> "good" | "warn" | "fail" | "connerr" | "raise" | "sysexit"]
Absent == {"<absent>"}      \* (a set, so that TLC can compare it with dirty sets)
Rank(st) == CASE st = 0 -> 0 [] st = 2 -> 1 [] st = 3 -> 2 [] st = 1 -> 3 [] st = -1 -> 4
StatusOf(o) == CASE o = "good" -> 0 [] o = "warn" -> 2 [] o = "fail" -> 3 [] o = "connerr" -> 1 [] o = "raise" -> -1 [] o = "sysexit" -> 1

VARIABLES
    targets, threads,
    queue,        \* targets not yet taken by a worker (indexes, in list order)
    worker,       \* th |-> [busy, t, scanned]
    tdb,          \* th |-> Absent or the dirty set of the thread's table copy
    cfgShared,    \* marks accumulated in the shared configuration (only grows when CopyConfig = "shared")
    view,         \* t |-> marks that were already there when t was scanned (must be empty)
    result,       \* t |-> status, or -9 (none yet)
    finished,     \* targets whose worker has returned, not yet collected
    printed,      \* sequence of targets whose block was printed
    out,          \* token stream written to stdout
    rank, exit, pc

vars == <<targets, threads, queue, worker, tdb, cfgShared, view, result, finished, printed, out, rank, exit, pc>>
N == Len(targets)
Idle == [busy |-> FALSE, t |-> 0, scanned |-> FALSE]

Init ==
    /\ targets \in TargetLists
    /\ threads \in 1..MaxThreads
    /\ queue = [i \in 1..Len(targets) |-> i]
    /\ worker = [th \in 1..threads |-> Idle]
    /\ tdb = [th \in 1..threads |-> Absent]
    /\ cfgShared = {}
    /\ view = [t \in 1..Len(targets) |-> {}]
    /\ result = [t \in 1..Len(targets) |-> -9]          \* -9: no result yet
    /\ finished = {} /\ printed = <<>> /\ out = <<"open">> /\ rank = 0 /\ exit = -2 /\ pc = "run"

\* a worker thread takes a queued target.  The pool hands targets out in list order, but the moment a worker *starts* on one
\* (what can be observed) is not the moment it was handed out, so the model lets any queued target be started next; nothing
\* in C07 / C08 depends on the order.
Remove(q, t) == SelectSeq(q, LAMBDA x : x # t)
Take(th, t) ==
    /\ pc = "run" /\ ~worker[th].busy /\ \E i \in 1..Len(queue) : queue[i] = t
    /\ worker' = [worker EXCEPT ![th] = [busy |-> TRUE, t |-> t, scanned |-> FALSE]]
    /\ queue' = Remove(queue, t)
    /\ UNCHANGED <<targets, threads, tdb, cfgShared, view, result, finished, printed, out, rank, exit, pc>>

\* the scan: the thread's table copy is created if absent, whatever it already holds is what the report of this
\* target is rendered on top of (foreign marks), and the scan's own marks are added
Scan(th) ==
    /\ pc = "run" /\ worker[th].busy /\ ~worker[th].scanned
    /\ LET t == worker[th].t
           before == IF tdb[th] = Absent THEN {} ELSE tdb[th]
       IN  /\ view' = [view EXCEPT ![t] = before \cup cfgShared]
           /\ tdb' = [tdb EXCEPT ![th] = before \cup targets[t].marks]
           /\ cfgShared' = IF CopyConfig = "shared" /\ targets[t].polfail THEN cfgShared \cup {"policy-errors"} ELSE cfgShared
    /\ worker' = [worker EXCEPT ![th].scanned = TRUE]
    /\ UNCHANGED <<targets, threads, queue, result, finished, printed, out, rank, exit, pc>>

\* the worker returns (status, text); with Cleanup = "workerEnd" it discards its thread's table copy first
Finish(th) ==
    /\ pc = "run" /\ worker[th].busy /\ worker[th].scanned
    /\ LET t == worker[th].t IN
       /\ result' = [result EXCEPT ![t] = StatusOf(targets[t].outcome)]
       /\ finished' = finished \cup {t}
    /\ tdb' = IF Cleanup = "workerEnd" THEN [tdb EXCEPT ![th] = Absent] ELSE tdb
    /\ worker' = [worker EXCEPT ![th] = Idle]
    /\ UNCHANGED <<targets, threads, queue, cfgShared, view, printed, out, rank, exit, pc>>

\* main thread: as_completed() hands over some finished worker
Collect(t) ==
    /\ pc = "run" /\ t \in finished
    /\ finished' = finished \ {t}
    /\ IF targets[t].outcome = "sysexit" /\ SysExit = "escapes"
       THEN \* future.result() re-raises SystemExit in the main thread: the run ends here
            /\ pc' = "done" /\ exit' = 1
            /\ UNCHANGED <<printed, out, rank>>
       ELSE /\ printed' = Append(printed, t)
            /\ rank' = IF Rank(result[t]) > Rank(rank) THEN result[t] ELSE rank
            /\ out' = out \o <<"block">> \o (IF Len(printed) + 1 < N THEN <<"delim">> ELSE <<>>)
            /\ UNCHANGED <<pc, exit>>
    /\ UNCHANGED <<targets, threads, queue, worker, tdb, cfgShared, view, result>>

Exit ==
    /\ pc = "run" /\ Len(printed) = N
    /\ out' = Append(out, "close")
    /\ exit' = rank /\ pc' = "done"
    /\ UNCHANGED <<targets, threads, queue, worker, tdb, cfgShared, view, result, finished, printed, rank>>

Next == (\E th \in 1..threads : (\E t \in 1..N : Take(th, t)) \/ Scan(th) \/ Finish(th)) \/ (\E t \in 1..N : Collect(t)) \/ Exit
Spec == Init /\ [][Next]_vars
FairSpec == Spec /\ WF_vars(Next)

---------------------------------------------------------------------------
(* C07 *)
Isolation == \A t \in 1..N : view[t] = {}
\* C08
Blocks == pc = "done" => /\ Len(printed) = N
                         /\ {printed[i] : i \in 1..Len(printed)} = 1..N
MaxRank(S) == CHOOSE s \in S : \A u \in S : Rank(u) <= Rank(s)
ExitIsMax == pc = "done" => exit = MaxRank({StatusOf(targets[t].outcome) : t \in 1..N})
\* stdout is  open (block (delim block)*)? close
Framing == pc = "done" =>
    /\ Len(out) = 2 * N + 1 /\ out[1] = "open" /\ out[Len(out)] = "close"
    /\ \A i \in 2..(Len(out) - 1) : out[i] = (IF i % 2 = 0 THEN "block" ELSE "delim")
RunEnds == <>(pc = "done")
=============================================================================
