------------------------------ MODULE SshCli ------------------------------
(***************************************************************************)
(* The command line of ssh-audit: which mode an option set selects, which   *)
(* configuration it yields, and which option sets are refused               *)
(* (ssh_audit.process_commandline).  A pure function with a rich case       *)
(* analysis, transcribed so that TLC can enumerate it: every set of up to   *)
(* MaxOpts option tokens (at most one token of each exclusive group) is a   *)
(* case; the expected outcome is emitted and the harness calls the real     *)
(* process_commandline() with the corresponding argv and compares the       *)
(* AuditConf it returns (or the exit status it leaves with).                *)
(*                                                                         *)
(* What it is for: several listed properties rest on an option reaching the *)
(* audit unchanged - C15 (presentation options change nothing else), C18    *)
(* (the port that is dialled), C19 (--skip-rate-test is honoured; the       *)
(* denial-of-service and rate-flood modes are entered only when asked for). *)
(* The laws below state those dependencies over the whole option space.     *)
(***************************************************************************)
EXTENDS Integers, Sequences, FiniteSets, TLC, Json

CONSTANT MaxOpts

\* option tokens; the harness maps each to argv words (e.g. "46" -> -4 -6, "p2200" -> -p 2200, "Pclient" -> -P <client policy file>)
Groups == << {"4", "6", "46", "64"}, {"j", "jj"}, {"p2200", "p0", "p70000"}, {"gok", "gbad"}, {"lwarn", "lfail"},
             {"Pserver", "Pclient", "Pmissing", "Pbuiltin"}, {"host", "hostport"} >>
Singles == {"1", "2", "b", "c", "d", "L", "m", "n", "v", "skip", "lookup", "M", "T", "t3", "threads4", "dheat", "connrate"}
Tokens == Singles \cup UNION {Groups[i] : i \in 1..Len(Groups)}
WellFormed(o) == \A i \in 1..Len(Groups) : Cardinality(o \cap Groups[i]) <= 1
\* all well-formed sets of at most MaxOpts tokens, built by size (never by filtering SUBSET Tokens)
RECURSIVE SetsOfSize(_)
SetsOfSize(k) == IF k = 0 THEN {{}} ELSE LET S == SetsOfSize(k - 1) IN {s \cup {t} : s \in S, t \in Tokens}
OptionSets == {o \in SetsOfSize(MaxOpts) : WellFormed(o)}

Presentation == {"b", "n", "v", "d", "j", "jj", "lwarn", "lfail"}

HasHost(o) == "host" \in o \/ "hostport" \in o
HasP(o) == o \cap {"Pserver", "Pclient", "Pmissing", "Pbuiltin"} # {}
PolicyIsServer(o) == "Pserver" \in o \/ "Pbuiltin" \in o
BadPort(o) == "p0" \in o \/ "p70000" \in o

\* why an option set is refused ("" = it is not); the order is the order in which the code checks
Refusal(o) ==
    IF o = {} THEN "no-arguments"
    ELSE IF "gbad" \in o THEN "bad-gex-test"
    ELSE IF ~HasHost(o) /\ o \cap {"c", "T", "L", "lookup", "m"} = {} THEN "no-target"
    ELSE IF "m" \in o \/ "lookup" \in o \/ "L" \in o THEN ""            \* these modes return before anything else is looked at
    ELSE IF BadPort(o) THEN "bad-port"
    ELSE IF HasP(o) /\ "M" \notin o /\ "Pmissing" \in o THEN "policy-unloadable"
    ELSE IF HasP(o) /\ "M" \notin o /\ "c" \in o /\ PolicyIsServer(o) THEN "server-policy-for-client-audit"
    ELSE IF HasP(o) /\ "M" \notin o /\ "c" \notin o /\ "Pclient" \in o THEN "client-policy-for-server-audit"
    ELSE ""

Mode(o) == IF Refusal(o) # "" THEN "refused"
           ELSE IF "m" \in o THEN "manual"
           ELSE IF "lookup" \in o THEN "lookup"
           ELSE IF "L" \in o THEN "list-policies"
           ELSE IF "c" \in o THEN "client-audit"
           ELSE IF "T" \in o THEN "target-list"
           ELSE "single-target"
\* the status process_commandline() itself leaves with (-1 = it returns a configuration)
ExitOf(o) == IF Mode(o) = "refused" THEN 255 ELSE IF Mode(o) = "list-policies" THEN 0 ELSE -1

Port(o) == IF "c" \in o THEN (IF "p2200" \in o THEN 2200 ELSE 2222)              \* the port to listen on
           ELSE IF "T" \in o THEN (IF "p2200" \in o THEN 2200 ELSE 22)            \* the default port of the listed targets
           ELSE IF "hostport" \in o THEN 2022                                     \* a port in the target spelling wins
           ELSE IF "p2200" \in o THEN 2200 ELSE 22

\* configuration fields read from the options as such (valid in every mode that returns a configuration)
Flags(o) == [batch |-> "b" \in o, verbose |-> "v" \in o, debug |-> "d" \in o, colors |-> "n" \notin o,
             json |-> ("j" \in o \/ "jj" \in o), indent |-> "jj" \in o,
             level |-> IF "lwarn" \in o THEN "warn" ELSE IF "lfail" \in o THEN "fail" ELSE "info",
             client_audit |-> "c" \in o, skip_rate_test |-> "skip" \in o, manual |-> "m" \in o,
             lookup |-> IF "lookup" \in o THEN "aes128-ctr" ELSE "",
             ipv |-> CASE "4" \in o -> <<4>> [] "6" \in o -> <<6>> [] "46" \in o -> <<4, 6>> [] "64" \in o -> <<6, 4>> [] OTHER -> <<>>,
             \* (the option has a default of 5 in the parser, so the code cannot tell "-t given" from "not given": timeout_set is
             \* always TRUE - which is why a client audit gives up after 5 s even without -t, contrary to the comment in
             \* listen_and_accept; the model records what the code does)
             timeout_set |-> TRUE, timeout |-> IF "t3" \in o THEN 3 ELSE 5, threads |-> IF "threads4" \in o THEN 4 ELSE 32,
             make_policy |-> "M" \in o, has_target_file |-> "T" \in o,
             gex_test |-> IF "gok" \in o THEN "2048:3072:4096" ELSE "",
             dheat |-> "dheat" \in o, conn_rate_test |-> "connrate" \in o]
\* fields settled only on the path of an audit (client, target list, single target)
AuditFields(o) == [port |-> Port(o), host |-> IF Mode(o) = "single-target" THEN "example.org" ELSE "",
                   ssh1 |-> IF "1" \notin o /\ "2" \notin o THEN TRUE ELSE "1" \in o,
                   ssh2 |-> IF "1" \notin o /\ "2" \notin o THEN TRUE ELSE "2" \in o,
                   policy_loaded |-> HasP(o) /\ "M" \notin o]
IsAudit(o) == Mode(o) \in {"client-audit", "target-list", "single-target"}

VARIABLES opts, pc
vars == <<opts, pc>>
Init == opts \in OptionSets /\ pc = "given"
Parse == pc = "given" /\ pc' = "decided" /\ UNCHANGED opts
Next == Parse
Spec == Init /\ [][Next]_vars
Done == pc = "decided"

---------------------------------------------------------------------------
(* laws *)
\* C19: the attack modes are entered only when their option is given, and the rate test is skipped exactly when asked
AttackModesOnlyOnRequest == Done => /\ (Flags(opts).dheat <=> "dheat" \in opts)
                                    /\ (Flags(opts).conn_rate_test <=> "connrate" \in opts)
                                    /\ (Flags(opts).skip_rate_test <=> "skip" \in opts)
\* C15: presentation options decide nothing but presentation - mode, refusal, exit status and every other field are those of the
\* same option set without them
Core(o) == [mode |-> Mode(o), exit |-> ExitOf(o), refusal |-> Refusal(o),
            rest |-> [f \in (DOMAIN Flags(o)) \ {"batch", "verbose", "debug", "colors", "json", "indent", "level"} |-> Flags(o)[f]],
            audit |-> IF IsAudit(o) THEN AuditFields(o) ELSE [port |-> 0, host |-> "", ssh1 |-> FALSE, ssh2 |-> FALSE, policy_loaded |-> FALSE]]
\* (a set consisting of presentation options only is refused for want of a target; with nothing at all it is refused for want of arguments)
PresentationOnlyPresents == Done => (LET q == opts \ Presentation IN q # {} => Core(opts) = Core(q))
\* C18: the port of an audit is always a legal port, and the target's own spelling wins over -p
PortLegal == (Done /\ IsAudit(opts)) => (Port(opts) \in 1..65535 /\ ("hostport" \in opts /\ Mode(opts) = "single-target" => Port(opts) = 2022))
\* refusals leave with the usage status and nothing else does
RefusedIffUsageStatus == Done => ((Mode(opts) = "refused") <=> (ExitOf(opts) = 255))

RECURSIVE SetToSeq(_)
SetToSeq(S) == IF S = {} THEN <<>> ELSE LET x == CHOOSE y \in S : TRUE IN <<x>> \o SetToSeq(S \ {x})
Emit == Done => PrintT(ToJson([opts |-> SetToSeq(opts), mode |-> Mode(opts), exit |-> ExitOf(opts), refusal |-> Refusal(opts),
                               flags |-> Flags(opts), audit |-> IF IsAudit(opts) THEN AuditFields(opts) ELSE [none |-> TRUE]]))
=============================================================================
