---------------------------- MODULE SshPolicy ----------------------------
(***************************************************************************)
(* Policy audits (properties C05, C06).                                     *)
(*                                                                         *)
(* A policy is a record                                                     *)
(*   [banner, comp, key, opt, kex, enc, mac : sequences of names, with      *)
(*    has |-> the set of field names the policy specifies,                  *)
(*    hks |-> host-key type |-> [size, catype, casize],                     *)
(*    dhs |-> group-exchange algorithm |-> modulus bits,                    *)
(*    subset |-> BOOLEAN  (allow_algorithm_subset_and_reordering),          *)
(*    larger |-> BOOLEAN  (allow_larger_keys)]                              *)
(* and a peer is what an audit measured:                                    *)
(*   [banner, comp, key, kex, enc, mac, hks, dhs].                          *)
(* Evaluate is written from the statement of C06, not from policy.py.       *)
(* Create is what --make-policy must produce for a peer (C05), Load is the  *)
(* identity on it: the contract the file format has to honour.              *)
(*                                                                         *)
(* Mode "mc":     per field, every (policy, peer) pair of a small universe  *)
(*                (fields are independent in the rule), laws as invariants  *)
(* Mode "oracle": pairs from the JSON file VERIF_CASES                      *)
(* Every pair's expected error fields are emitted for the replay.           *)
(***************************************************************************)
EXTENDS Integers, Sequences, FiniteSets, TLC, Json, IOUtils, SshStrings

CONSTANTS Mode, MaxLen

STRICT_S == "kex-strict-s-v00@openssh.com"
STRICT_C == "kex-strict-c-v00@openssh.com"
Has(p, f) == f \in p.has
Prune(q, S) == SelectSeq(q, LAMBDA n : n \notin S)
Subset(q, r) == Range(q) \subseteq Range(r)

ListOk(p, f, mine, theirs) ==
    IF ~Has(p, f) THEN TRUE
    ELSE IF p.subset THEN Subset(theirs, mine)
    ELSE theirs = mine

SizeOk(p, want, got) == IF p.larger THEN got >= want ELSE got = want

\* the set of mismatched fields (each error names its field)
Errors(p, q) ==
    (IF Has(p, "banner") /\ q.banner # p.banner THEN {"Banner"} ELSE {})
    \cup (IF Has(p, "comp") /\ q.comp # p.comp THEN {"Compression"} ELSE {})
    \cup (IF ~Has(p, "key") THEN {}
          ELSE IF p.subset THEN (IF Subset(q.key, p.key) THEN {} ELSE {"Host keys"})
          ELSE IF Prune(q.key, Range(p.opt)) = p.key THEN {} ELSE {"Host keys"})
    \cup {"Host key (" \o t \o ") sizes" : t \in {t \in DOMAIN p.hks \cap DOMAIN q.hks : ~SizeOk(p, p.hks[t].size, q.hks[t].size)}}
    \cup UNION {
           LET w == p.hks[t]
               g == q.hks[t]
           IN  IF w.catype = "" \/ w.casize = 0 THEN {}
               ELSE IF g.catype # w.catype THEN {"CA signature type"}
               ELSE IF ~SizeOk(p, w.casize, g.casize) THEN {"CA signature size (" \o g.catype \o ")"}
               ELSE {}
           : t \in DOMAIN p.hks \cap DOMAIN q.hks }
    \cup (IF ~Has(p, "kex") THEN {}
          ELSE IF p.subset
               THEN (IF Subset(q.kex, p.kex) THEN {} ELSE {"Key exchanges"})
                    \cup (IF \E m \in {STRICT_S, STRICT_C} : SeqContains(p.kex, m) /\ ~SeqContains(q.kex, m) THEN {"Key exchanges"} ELSE {})
               ELSE IF q.kex = p.kex THEN {} ELSE {"Key exchanges"})
    \cup (IF ListOk(p, "enc", p.enc, q.enc) THEN {} ELSE {"Ciphers"})
    \cup (IF ListOk(p, "mac", p.mac, q.mac) THEN {} ELSE {"MACs"})
    \cup {"Group exchange (" \o a \o ") modulus sizes" : a \in {a \in DOMAIN p.dhs \cap DOMAIN q.dhs : ~SizeOk(p, p.dhs[a], q.dhs[a])}}

Passed(p, q) == Errors(p, q) = {}

\* --make-policy: lists and measured sizes of the peer, exact matching, banner and compression left unset
Create(q) == [banner |-> "", comp |-> <<>>, key |-> q.key, opt |-> <<>>, kex |-> q.kex, enc |-> q.enc, mac |-> q.mac,
              has |-> {"key", "kex", "enc", "mac"}, hks |-> q.hks, dhs |-> q.dhs, subset |-> FALSE, larger |-> FALSE]
Load(p) == p

---------------------------------------------------------------------------
(* universes *)
Names == {"a1", "b2", "c3", STRICT_S}
Lists(S) == UNION {[1..k -> S] : k \in 0..MaxLen}
NELists(S) == UNION {[1..k -> S] : k \in 1..MaxLen}
Sizes == {512, 768, 1024, 2048, 3072, 4096, 16384}        \* (numbers of three, four and five digits: sizes are compared as numbers)
EmptyMap == [x \in {} |-> 0]
NoPeer == [banner |-> "B", comp |-> <<"none">>, key |-> <<>>, kex |-> <<>>, enc |-> <<>>, mac |-> <<>>, hks |-> EmptyMap, dhs |-> EmptyMap]
NoPolicy == [banner |-> "", comp |-> <<>>, key |-> <<>>, opt |-> <<>>, kex |-> <<>>, enc |-> <<>>, mac |-> <<>>, has |-> {},
             hks |-> EmptyMap, dhs |-> EmptyMap, subset |-> FALSE, larger |-> FALSE]
HK(s, ct, cs) == [size |-> s, catype |-> ct, casize |-> cs]

McPairs ==
    \* host keys with optional host keys
    {<<[NoPolicy EXCEPT !.has = {"key"}, !.key = k, !.opt = o, !.subset = s], [NoPeer EXCEPT !.key = pk]>> :
        k \in NELists(Names \ {STRICT_S}), o \in {<<>>, <<"a1">>, <<"c3">>, <<"a1", "b2">>}, s \in BOOLEAN, pk \in Lists(Names \ {STRICT_S})}
    \cup \* key exchanges with the strict marker
    {<<[NoPolicy EXCEPT !.has = {"kex"}, !.kex = k, !.subset = s], [NoPeer EXCEPT !.kex = pk]>> :
        k \in NELists(Names), s \in BOOLEAN, pk \in Lists(Names)}
    \cup \* ... and with both markers in play (each marker the policy lists is mandatory on its own)
    {<<[NoPolicy EXCEPT !.has = {"kex"}, !.kex = k, !.subset = TRUE], [NoPeer EXCEPT !.kex = pk]>> :
        k \in {<<"a1", STRICT_S, STRICT_C>>, <<STRICT_C, STRICT_S>>, <<STRICT_C, "a1">>},
        pk \in {<<"a1">>, <<"a1", STRICT_S>>, <<"a1", STRICT_C>>, <<STRICT_S, STRICT_C>>, <<"a1", STRICT_C, STRICT_S>>, <<STRICT_C>>, <<STRICT_S>>}}
    \cup \* ciphers, MACs
    {<<[NoPolicy EXCEPT !.has = {"enc", "mac"}, !.enc = k, !.mac = <<"a1">>, !.subset = s], [NoPeer EXCEPT !.enc = pk, !.mac = pm]>> :
        k \in NELists(Names \ {STRICT_S}), s \in BOOLEAN, pk \in Lists(Names \ {STRICT_S}), pm \in {<<"a1">>, <<"b2">>, <<"a1", "b2">>}}
    \cup \* host-key / CA sizes
    {<<[NoPolicy EXCEPT !.hks = [t \in {"rsa"} |-> HK(ws, wt, wc)], !.larger = lg],
       [NoPeer EXCEPT !.hks = IF present THEN [t \in {"rsa"} |-> HK(gs, gt, gc)] ELSE EmptyMap]>> :
        ws \in {2048, 3072}, wt \in {"", "ssh-rsa", "ssh-ed25519"}, wc \in {0, 2048, 3072}, lg \in BOOLEAN,
        present \in BOOLEAN, gs \in Sizes, gt \in {"", "ssh-rsa", "ssh-ed25519"}, gc \in {0, 1024, 2048, 3072, 4096}}
    \cup \* group-exchange moduli
    {<<[NoPolicy EXCEPT !.dhs = [a \in {"gex256"} |-> w], !.larger = lg],
       [NoPeer EXCEPT !.dhs = IF present THEN [a \in {"gex256"} |-> g] ELSE EmptyMap]>> :
        w \in {768, 2048, 3072}, lg \in BOOLEAN, present \in BOOLEAN, g \in Sizes}
    \cup \* banner and compression
    \* (compression lists are matched exactly and in order whatever the subset flag says - it speaks of host keys, key exchanges, ciphers and MACs)
    {<<[NoPolicy EXCEPT !.has = h, !.banner = "B", !.comp = pc, !.subset = s], [NoPeer EXCEPT !.banner = b, !.comp = c]>> :
        h \in SUBSET {"banner", "comp"}, b \in {"B", "C"}, pc \in {<<"none">>, <<"none", "zlib">>}, s \in BOOLEAN,
        c \in {<<"none">>, <<"zlib">>, <<"none", "zlib">>, <<"zlib", "none">>}}

\* Fields in combination (the rule treats fields independently - the code evaluates them one after the other, folding one verdict and
\* walking each size map in sorted order, so interactions live between fields and between entries of one map): every choice of
\* {not in the policy, in the policy and not offered by the peer, equal, larger, smaller} for two host-key types and two
\* group-exchange algorithms, with and without larger keys allowed, next to list fields that match or do not.
SizeChoice == {"unlisted", "notoffered", "equal", "larger", "smaller"}
PolEntry(c, w) == c # "unlisted"
PeerVal(c, w) == CASE c = "equal" -> w [] c = "larger" -> w + 1024 [] c = "smaller" -> w - 1024 [] OTHER -> 0
HkTypes2 == {"rsa", "rsb"}         \* (two host-key types that sort in this order)
DhTypes2 == {"gex1", "gex256"}
ListMood == {"allmatch", "key", "mac", "banner", "kex+enc"}
ComboPairs ==
    {<<[NoPolicy EXCEPT !.has = {"banner", "comp", "key", "kex", "enc", "mac"}, !.banner = "B", !.comp = <<"none">>,
                        !.key = <<"a1", "b2">>, !.kex = <<"a1">>, !.enc = <<"b2", "c3">>, !.mac = <<"c3">>, !.larger = lg,
                        !.hks = [t \in {t \in HkTypes2 : PolEntry(IF t = "rsa" THEN h1 ELSE h2, 0)} |-> HK(3072, "", 0)],
                        !.dhs = [a \in {a \in DhTypes2 : PolEntry(IF a = "gex1" THEN d1 ELSE d2, 0)} |-> 3072]],
       [NoPeer EXCEPT !.banner = IF m = "banner" THEN "C" ELSE "B", !.comp = <<"none">>,
                      !.key = IF m = "key" THEN <<"a1">> ELSE <<"a1", "b2">>, !.kex = IF m = "kex+enc" THEN <<"a1", "b2">> ELSE <<"a1">>,
                      !.enc = IF m = "kex+enc" THEN <<"c3", "b2">> ELSE <<"b2", "c3">>, !.mac = IF m = "mac" THEN <<"a1">> ELSE <<"c3">>,
                      !.hks = [t \in {t \in HkTypes2 : (IF t = "rsa" THEN h1 ELSE h2) \in {"equal", "larger", "smaller"}} |->
                                 HK(PeerVal(IF t = "rsa" THEN h1 ELSE h2, 3072), "", 0)],
                      !.dhs = [a \in {a \in DhTypes2 : (IF a = "gex1" THEN d1 ELSE d2) \in {"equal", "larger", "smaller"}} |->
                                 PeerVal(IF a = "gex1" THEN d1 ELSE d2, 3072)]]>> :
        h1 \in SizeChoice, h2 \in SizeChoice, d1 \in SizeChoice, d2 \in SizeChoice, lg \in BOOLEAN, m \in ListMood}

AsSet(x) == {x[i] : i \in 1..Len(x)}
FixMap(m) == m
Input == IF Mode = "oracle" THEN JsonDeserialize(IOEnv.VERIF_CASES) ELSE <<>>
\* JSON carries sets as arrays
PolicyOf(j) == [j EXCEPT !.has = AsSet(@)]

VARIABLES pol, peer, id, errs, pc
vars == <<pol, peer, id, errs, pc>>

Init ==
    /\ pc = "start" /\ errs = {}
    /\ IF Mode = "oracle"
       THEN \E k \in 1..Len(Input) :
               \* a case either carries its policy, or a `base` peer from which the policy is made (C05)
               /\ pol = IF "policy" \in DOMAIN Input[k] THEN PolicyOf(Input[k].policy) ELSE Load(Create(Input[k].base))
               /\ peer = Input[k].peer /\ id = Input[k].id
       ELSE \E pr \in (IF Mode = "combo" THEN ComboPairs ELSE McPairs) : pol = pr[1] /\ peer = pr[2] /\ id = 0

Evaluate ==
    /\ pc = "start" /\ pc' = "done"
    /\ errs' = Errors(pol, peer)
    /\ UNCHANGED <<pol, peer, id>>
Next == Evaluate
Spec == Init /\ [][Next]_vars

---------------------------------------------------------------------------
(* laws (C06) *)
Done == pc = "done"
\* removing one element from one list of the peer
DropAt(q, i) == SubSeq(q, 1, i - 1) \o SubSeq(q, i + 1, Len(q))
Shrinks(q) ==
    {[q EXCEPT !.key = DropAt(q.key, i)] : i \in 1..Len(q.key)} \cup {[q EXCEPT !.kex = DropAt(q.kex, i)] : i \in 1..Len(q.kex)}
    \cup {[q EXCEPT !.enc = DropAt(q.enc, i)] : i \in 1..Len(q.enc)} \cup {[q EXCEPT !.mac = DropAt(q.mac, i)] : i \in 1..Len(q.mac)}
KeepsMarkers(p, q2) == \A m \in {STRICT_S, STRICT_C} : SeqContains(p.kex, m) => SeqContains(q2.kex, m)
ShrinkKeepsPass == (Done /\ pol.subset /\ errs = {}) =>
    \A q2 \in Shrinks(peer) : (~Has(pol, "kex") \/ KeepsMarkers(pol, q2)) => Passed(pol, q2)
Grows(q) ==
    {[q EXCEPT !.hks = [t \in DOMAIN q.hks |-> [q.hks[t] EXCEPT !.size = @ + d]]] : d \in {1, 1024}}
    \cup {[q EXCEPT !.hks = [t \in DOMAIN q.hks |-> [q.hks[t] EXCEPT !.casize = IF @ > 0 THEN @ + d ELSE @]]] : d \in {1, 1024}}
    \cup {[q EXCEPT !.dhs = [a \in DOMAIN q.dhs |-> q.dhs[a] + d]] : d \in {1, 1024}}
GrowKeepsPass == (Done /\ pol.larger /\ errs = {}) => \A q2 \in Grows(peer) : Passed(pol, q2)
ExactImpliesSubset == (Done /\ ~pol.subset /\ errs = {} /\ pol.opt = <<>>) => Passed([pol EXCEPT !.subset = TRUE], peer)
LargerIsWeaker == (Done /\ ~pol.larger /\ errs = {}) => Passed([pol EXCEPT !.larger = TRUE], peer)
UnspecifiedNeverFails == Done => \A f \in {"Banner", "Compression", "Host keys", "Key exchanges", "Ciphers", "MACs"} :
    (f \in errs) => Has(pol, CASE f = "Banner" -> "banner" [] f = "Compression" -> "comp" [] f = "Host keys" -> "key"
                                 [] f = "Key exchanges" -> "kex" [] f = "Ciphers" -> "enc" [] f = "MACs" -> "mac")

(* laws (C05): a policy made from a peer passes on it, and fails on any single-attribute drift *)
RoundTrip == Done => Passed(Load(Create(peer)), peer)

\* C05 drift: a case tagged with the field its perturbation touches must fail and name that field
Drift == (Done /\ Mode = "oracle") => \A k \in 1..Len(Input) :
    (Input[k].id = id /\ "drift" \in DOMAIN Input[k]) =>
        IF Input[k].drift = "" THEN errs = {} ELSE \E f \in errs : StartsWith(f, Input[k].drift)

Emit == Done => PrintT(ToJson([id |-> id, errors |-> errs, passed |-> (errs = {}),
                              case |-> IF Mode \in {"mc", "combo"} THEN [policy |-> pol, peer |-> peer] ELSE <<>>]))
=============================================================================
