---------------------------- MODULE SshBanner ----------------------------
(***************************************************************************)
(* Identification strings (property C16): what a peer puts on the wire     *)
(* before key exchange, and how the tool must read it.                      *)
(*                                                                         *)
(* Everything is a byte sequence (Seq(0..255)): the property is about        *)
(* bytes outside printable ASCII, line endings and spellings.               *)
(*                                                                         *)
(* Peer:  zero or more other lines (none beginning with "SSH-", RFC 4253    *)
(*        section 4.2), then   SSH-<major>.<minor>-<software>[ <comments>]  *)
(*        each ended by CR LF or LF.                                        *)
(* Tool:  SplitLines -> Classify (blank lines skipped, other lines become   *)
(*        header text, the first line of banner form is the banner) ->      *)
(*        Decompose (protocol, software, comments; bytes outside 32..126     *)
(*        shown as "?", banner flagged) -> Render -> Reparse.               *)
(*                                                                         *)
(* Mode "mc": Init ranges over the grammar's small universe; Mode "oracle": *)
(* cases from VERIF_CASES.  The terminal state of every case is emitted.    *)
(***************************************************************************)
EXTENDS Integers, Sequences, FiniteSets, TLC, Json, IOUtils

CONSTANTS Mode, MaxOthers

B_SSH == <<83, 83, 72, 45>>
CR == 13  LF == 10  SP == 32  DASH == 45  DOT == 46  QM == 63  TAB == 9
IsDigit(c) == c \in 48..57
IsWs(c) == c \in {SP, TAB, 11, 12, CR, LF}
Printable(c) == c \in 32..126
StartsWith(s, p) == Len(p) <= Len(s) /\ SubSeq(s, 1, Len(p)) = p
RECURSIVE Flatten(_)
Flatten(ss) == IF ss = <<>> THEN <<>> ELSE Head(ss) \o Flatten(Tail(ss))
RECURSIVE RStrip(_)
RStrip(s) == IF s # <<>> /\ IsWs(s[Len(s)]) THEN RStrip(SubSeq(s, 1, Len(s) - 1)) ELSE s
RECURSIVE LStrip(_)
LStrip(s) == IF s # <<>> /\ IsWs(Head(s)) THEN LStrip(Tail(s)) ELSE s
Strip(s) == LStrip(RStrip(s))
RECURSIVE Collapse(_)
\* runs of whitespace become one space
Collapse(s) == IF s = <<>> THEN <<>>
               ELSE IF IsWs(Head(s)) THEN <<SP>> \o Collapse(LStrip(s)) ELSE <<Head(s)>> \o Collapse(Tail(s))
RECURSIVE Dec(_)
Dec(n) == IF n < 10 THEN <<48 + n>> ELSE Dec(n \div 10) \o <<48 + (n % 10)>>
RECURSIVE Num(_, _)
Num(s, acc) == IF s = <<>> THEN acc ELSE Num(Tail(s), acc * 10 + (Head(s) - 48))

\* --- peer side -----------------------------------------------------------
BannerLine(p) == B_SSH \o Dec(p.major) \o <<DOT>> \o Dec(p.minor) \o <<DASH>> \o p.software
                 \o (IF p.comments = <<>> THEN <<>> ELSE <<SP>> \o p.comments)
Eol(e) == IF e = "crlf" THEN <<CR, LF>> ELSE <<LF>>
Wire(others, p, e) == Flatten([i \in 1..Len(others) |-> others[i] \o Eol(e)]) \o BannerLine(p) \o Eol(e)

\* --- tool side -----------------------------------------------------------
RECURSIVE SplitLines(_, _)
\* complete lines of the stream, line ending removed
SplitLines(s, cur) == IF s = <<>> THEN (IF cur = <<>> THEN <<>> ELSE <<cur>>)
                      ELSE IF Head(s) = LF THEN <<cur>> \o SplitLines(Tail(s), <<>>)
                      ELSE SplitLines(Tail(s), Append(cur, Head(s)))
Sanitise(s) == [i \in 1..Len(s) |-> IF Printable(s[i]) THEN s[i] ELSE QM]
ValidAscii(s) == \A i \in 1..Len(s) : Printable(s[i])
\* SSH-<d>.<d+>-  at the start (on the sanitised line)
DigitsFrom(s, i) == LET J == {j \in i..Len(s) : \A k \in i..j : IsDigit(s[k])} IN IF J = {} THEN 0 ELSE Cardinality(J)
IsBannerForm(s0) ==
    LET s == Sanitise(RStrip(s0)) IN
    /\ StartsWith(s, B_SSH) /\ Len(s) >= 8
    /\ IsDigit(s[5]) /\ s[6] = DOT
    /\ DigitsFrom(s, 7) >= 1
    /\ (7 + DigitsFrom(s, 7) <= Len(s) => s[7 + DigitsFrom(s, 7)] = DASH)
IsBlank(s) == Strip(s) = <<>>
FirstWs(s) == LET I == {i \in 1..Len(s) : IsWs(s[i])} IN IF I = {} THEN Len(s) + 1 ELSE CHOOSE i \in I : \A j \in I : i <= j
Decompose(s0) ==
    LET s == Sanitise(RStrip(s0))
        nd == DigitsFrom(s, 7)
        rest == SubSeq(s, 8 + nd, Len(s))                      \* after "SSH-x.y-"
        fw == FirstWs(rest)
    IN [major |-> s[5] - 48, minor |-> Num(SubSeq(s, 7, 6 + nd), 0),
        software |-> SubSeq(rest, 1, fw - 1),
        comments |-> Collapse(Strip(SubSeq(rest, fw, Len(rest)))),
        valid |-> ValidAscii(RStrip(s0))]
Render(b) == B_SSH \o Dec(b.major) \o <<DOT>> \o Dec(b.minor) \o <<DASH>> \o b.software
             \o (IF b.comments = <<>> THEN <<>> ELSE <<SP>> \o b.comments)

\* --- product families (software string -> product, version, patch) --------
VerChar(c) == IsDigit(c) \/ c = DOT
VerLen(s) == LET J == {j \in 1..Len(s) : \A k \in 1..j : VerChar(s[k])} IN IF J = {} THEN 0 ELSE Cardinality(J)
RECURSIVE TrimDots(_)
TrimDots(s) == IF s # <<>> /\ s[Len(s)] = DOT THEN TrimDots(SubSeq(s, 1, Len(s) - 1)) ELSE s
RECURSIVE LStripSep(_)
LStripSep(s) == IF s # <<>> /\ Head(s) \in {DASH, 95, DOT} THEN LStripSep(Tail(s)) ELSE s
VersionOf(s) == TrimDots(SubSeq(s, 1, VerLen(s)))
Versioned(name, prefix, s) ==
    LET r == SubSeq(s, Len(prefix) + 1, Len(s))
        v == VersionOf(r)
    IN IF Len(v) >= 2 THEN [product |-> name, version |-> v, patch |-> LStripSep(SubSeq(r, Len(v) + 1, Len(r)))]
       ELSE [product |-> "", version |-> <<>>, patch |-> <<>>]
P_OPENSSH == <<79, 112, 101, 110, 83, 83, 72, 95>>
P_DROPBEAR == <<100, 114, 111, 112, 98, 101, 97, 114, 95>>
P_LIBSSH1 == <<108, 105, 98, 115, 115, 104, 45>>
P_LIBSSH2 == <<108, 105, 98, 115, 115, 104, 95>>
P_TINYSSH == <<116, 105, 110, 121, 115, 115, 104, 95>>
P_PUTTY == <<80, 117, 84, 84, 89, 95, 82, 101, 108, 101, 97, 115, 101, 95>>
ProductOf(s) ==
    IF StartsWith(s, P_DROPBEAR) THEN Versioned("Dropbear SSH", P_DROPBEAR, s)
    ELSE IF StartsWith(s, P_OPENSSH) THEN Versioned("OpenSSH", P_OPENSSH, s)
    ELSE IF StartsWith(s, P_LIBSSH1) THEN Versioned("libssh", P_LIBSSH1, s)
    ELSE IF StartsWith(s, P_LIBSSH2) THEN Versioned("libssh", P_LIBSSH2, s)
    ELSE IF StartsWith(s, P_TINYSSH) THEN [product |-> "TinySSH", version |-> SubSeq(s, Len(P_TINYSSH) + 1, Len(s)), patch |-> <<>>]
    ELSE IF StartsWith(s, P_PUTTY) THEN [product |-> "PuTTY", version |-> SubSeq(s, Len(P_PUTTY) + 1, Len(s)), patch |-> <<>>]
    ELSE [product |-> "", version |-> <<>>, patch |-> <<>>]

---------------------------------------------------------------------------
(* universes *)
S(x) == x
Softwares == {<<97>>, <<79, 112, 101, 110, 83, 83, 72, 95, 56, 46, 57, 112, 49>>, <<79, 112, 101, 110, 83, 83, 72, 95, 49, 48, 46, 48>>, <<45, 120, 95, 49>>, <<100, 114, 111, 112, 98, 101, 97, 114, 95, 50, 48, 50, 48, 46, 56, 49>>, <<108, 105, 98, 115, 115, 104, 45, 48, 46, 57, 46, 54>>, <<108, 105, 98, 115, 115, 104, 95, 48, 46, 49, 48, 46, 54>>, <<120, 46, 121, 95, 122, 45, 119>>, <<116, 105, 110, 121, 115, 115, 104, 95, 110, 111, 118, 101, 114, 115, 105, 111, 110>>,
              <<80, 117, 84, 84, 89, 95, 82, 101, 108, 101, 97, 115, 101, 95, 48, 46, 55, 54>>, <<79, 112, 101, 110, 83, 83, 72, 95, 55, 46, 52, 112, 49, 45, 104, 112, 110, 49, 52, 118, 49, 50>>}
Comments == {<<>>, <<99>>, <<99, 32, 100>>, <<99, 32, 32, 100>>, <<85, 98, 117, 110, 116, 117, 45, 51, 117, 98, 117, 110, 116, 117, 48, 46, 49, 32, 101, 120, 116, 114, 97>>}
Others == {<<104, 101, 108, 108, 111>>, <<87, 101, 108, 99, 111, 109, 101, 32, 116, 111, 32, 83, 83, 72>>, <<>>, <<32, 32>>, <<83, 83, 72, 32, 105, 115, 32, 110, 111, 116, 32, 83, 83, 72, 45>>, <<32, 83, 83, 72, 45, 50, 46, 48, 45, 105, 110, 100, 101, 110, 116, 101, 100>>}
Protos == {<<1, 5>>, <<1, 99>>, <<2, 0>>, <<2, 1>>}
Injections == {0, 1, 127, 128, 255}           \* 0 = none
Inject(s, c, pos) == IF c = 0 \/ s = <<>> THEN s ELSE [s EXCEPT ![((pos - 1) % Len(s)) + 1] = c]
McCases ==
    {[others |-> o, parts |-> [major |-> pr[1], minor |-> pr[2], software |-> Inject(sw, c, 2), comments |-> cm], eol |-> e] :
        o \in UNION {[1..k -> Others] : k \in 0..MaxOthers}, pr \in Protos, sw \in Softwares, cm \in Comments, e \in {"crlf", "lf"}, c \in Injections}
    \cup {[others |-> <<>>, parts |-> [major |-> 2, minor |-> 0, software |-> sw, comments |-> Inject(cm, c, ps)], eol |-> "crlf"] :
        sw \in Softwares, cm \in Comments \ {<<>>}, c \in Injections \ {0}, ps \in 1..3}

Input == IF Mode = "oracle" THEN JsonDeserialize(IOEnv.VERIF_CASES) ELSE <<>>
VARIABLES case, wire, lines, header, banner, pc
vars == <<case, wire, lines, header, banner, pc>>
NoBanner == [major |-> 0, minor |-> 0, software |-> <<>>, comments |-> <<>>, valid |-> TRUE]

Init ==
    /\ pc = "send" /\ wire = <<>> /\ lines = <<>> /\ header = <<>> /\ banner = NoBanner
    /\ IF Mode = "oracle" THEN \E k \in 1..Len(Input) : case = Input[k] ELSE case \in McCases
PeerSend ==
    /\ pc = "send" /\ wire' = Wire(case.others, case.parts, case.eol) /\ pc' = "split"
    /\ UNCHANGED <<case, lines, header, banner>>
Split ==
    /\ pc = "split" /\ lines' = SplitLines(wire, <<>>) /\ pc' = "classify"
    /\ UNCHANGED <<case, wire, header, banner>>
\* consume one line: blank -> skipped, banner form -> banner, anything else -> header text
Classify ==
    /\ pc = "classify" /\ lines # <<>>
    /\ LET ln == Head(lines) IN
       IF IsBlank(ln) THEN UNCHANGED <<header, banner, pc>>
       ELSE IF IsBannerForm(ln) THEN banner' = Decompose(ln) /\ pc' = "done" /\ UNCHANGED header
       ELSE header' = Append(header, RStrip(ln)) /\ UNCHANGED <<banner, pc>>
    /\ lines' = Tail(lines)
    /\ UNCHANGED <<case, wire>>
NoMoreLines ==
    /\ pc = "classify" /\ lines = <<>> /\ pc' = "nobanner"
    /\ UNCHANGED <<case, wire, lines, header, banner>>
Next == PeerSend \/ Split \/ Classify \/ NoMoreLines
Spec == Init /\ [][Next]_vars

---------------------------------------------------------------------------
Done == pc = "done"
\* the banner is always found, wherever it is
BannerFound == pc # "nobanner"
\* other lines are header text (blank ones dropped) and never the banner
NonBlank(q) == SelectSeq(q, LAMBDA x : ~IsBlank(x))
HeaderIsOthers == Done => header = [i \in 1..Len(NonBlank(case.others)) |-> RStrip(NonBlank(case.others)[i])]
\* the parts reported are the parts sent (non-printable bytes shown as "?", comments with single spaces)
PartsAreParts == Done =>
    /\ banner.major = case.parts.major /\ banner.minor = case.parts.minor
    /\ banner.software = Sanitise(case.parts.software)
    /\ banner.comments = Collapse(Strip(Sanitise(case.parts.comments)))
    /\ banner.valid = (ValidAscii(case.parts.software) /\ ValidAscii(case.parts.comments))
RoundTrip == Done => LET r == Decompose(Render(banner)) IN
    /\ r.major = banner.major /\ r.minor = banner.minor /\ r.software = banner.software /\ r.comments = banner.comments
KnownProducts == Done =>
    /\ (StartsWith(banner.software, P_OPENSSH) /\ IsDigit(banner.software[Len(P_OPENSSH) + 1]) /\ Len(VersionOf(SubSeq(banner.software, Len(P_OPENSSH) + 1, Len(banner.software)))) >= 2)     \* digits and dots, ending in a digit
          => ProductOf(banner.software).product = "OpenSSH"
Emit == Done => PrintT(ToJson([wire |-> wire, header |-> header, banner |-> banner, rendered |-> Render(banner),
                              product |-> ProductOf(banner.software)]))
=============================================================================
