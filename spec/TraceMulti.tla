---------------------------- MODULE TraceMulti ----------------------------
(***************************************************************************)
(* Trace validation for multi-target runs (code -> spec).                   *)
(*                                                                         *)
(* Input (VERIF_TRACES): a sequence of records                              *)
(*   [threads |-> k, targets |-> << [marks, polfail, outcome], ... >>,      *)
(*    ev |-> << [e |-> "begin", th, t, dirty, absent, shared]               *)
(*              [e |-> "end", th, t, ret, absent]                           *)
(*              [e |-> "printed", t]   [e |-> "exit", status, tokens] >>]    *)
(* begin/end are logged by the guarded wrapper around the worker function   *)
(* (per-thread order is program order; events of different threads are      *)
(* ordered by the log's lock), `dirty` being the keys in which the          *)
(* thread's table copy differs from the master table at that moment         *)
(* (absent = the thread has no copy).  printed/exit come from stdout.        *)
(* targets[t].marks is what the scan of t was observed to leave behind      *)
(* (end-of-scan dirty set minus begin dirty set); the model says what the   *)
(* *next* scan on that thread may then see.                                 *)
(***************************************************************************)
EXTENDS SshMulti, Json, IOUtils

Traces == JsonDeserialize(IOEnv.VERIF_TRACES)
VARIABLES tid, l
tvars == <<vars, tid, l>>
T == Traces[tid].ev
HasEv == l <= Len(T)
E == T[l]
SetOf(q) == {q[i] : i \in 1..Len(q)}
Arch(a) == [marks |-> SetOf(a.marks), polfail |-> a.polfail, outcome |-> a.outcome]

TraceInit ==
    /\ tid \in 1..Len(Traces) /\ l = 1
    /\ targets = [i \in 1..Len(Traces[tid].targets) |-> Arch(Traces[tid].targets[i])]
    /\ threads = Traces[tid].threads
    /\ queue = [i \in 1..Len(targets) |-> i]
    /\ worker = [th \in 1..threads |-> Idle]
    /\ tdb = [th \in 1..threads |-> Absent]
    /\ cfgShared = {}
    /\ view = [t \in 1..Len(targets) |-> {}]
    /\ result = [t \in 1..Len(targets) |-> -9]
    /\ finished = {} /\ printed = <<>> /\ out = <<"open">> /\ rank = 0 /\ exit = -2 /\ pc = "run"

\* worker begins: the thread's table must hold exactly what the model says it holds
TraceTake ==
    /\ HasEv /\ E.e = "begin" /\ E.th \in 1..threads
    /\ Take(E.th, E.t)
    /\ E.absent = (tdb[E.th] = Absent)
    /\ (~E.absent => SetOf(E.dirty) = tdb[E.th])
    /\ (E.shared = 0) = (cfgShared = {})
    /\ l' = l + 1 /\ UNCHANGED tid
TraceScan == (\E th \in 1..threads : Scan(th)) /\ UNCHANGED <<tid, l>>
TraceFinish ==
    /\ HasEv /\ E.e = "end" /\ E.th \in 1..threads
    /\ worker[E.th].busy /\ worker[E.th].t = E.t
    /\ Finish(E.th)
    /\ E.ret = result'[E.t]
    /\ E.absent = (tdb'[E.th] = Absent)
    /\ l' = l + 1 /\ UNCHANGED tid
TraceCollect ==
    /\ HasEv /\ E.e = "printed"
    \* t = 0: a block was printed that stdout alone does not attribute to a target (an error block): some finished target
    /\ \E t \in (IF E.t = 0 THEN finished ELSE {E.t}) : Collect(t)
    /\ pc' = "run"
    /\ l' = l + 1 /\ UNCHANGED tid
TraceExit ==
    /\ HasEv /\ E.e = "exit"
    /\ Exit /\ E.status = exit' /\ E.tokens = out'
    /\ l' = l + 1 /\ UNCHANGED tid

TraceNext == TraceTake \/ TraceScan \/ TraceFinish \/ TraceCollect \/ TraceExit
TraceSpec == TraceInit /\ [][TraceNext]_tvars
Accepted == pc = "done" /\ l = Len(T) + 1
Accept == Accepted => PrintT(ToJson([tid |-> tid, verdict |-> "accept"]))
Progress == PrintT(ToJson([tid |-> tid, at |-> l, pc |-> pc]))
=============================================================================
