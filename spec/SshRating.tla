---------------------------- MODULE SshRating ----------------------------
(***************************************************************************)
(* The report pipeline of one scan (properties C01 C02 C03 C04 C13, and    *)
(* the rating thresholds of C11 C12): from what the peer advertised and    *)
(* what the probes measured to the algorithm lines, their notes, the       *)
(* running exit status, the Terrapin marks and the recommendations.        *)
(*                                                                         *)
(* One action per step of ssh_audit.output(): PostProcess (table edits),   *)
(* Render(cat, i) per advertised algorithm (appends a line, folds the      *)
(* status), Recommend, Finish.  The rating database `DB` is the live       *)
(* table exported from the working tree (Tables), so a table edit moves    *)
(* expectation and observation together - table *content* is C17's         *)
(* business, consistent *use* of it is what is specified here.             *)
(*                                                                         *)
(* Cases: Mode = "oracle": from the JSON file named by VERIF_CASES         *)
(*        Mode = "mc":     the exhaustive Terrapin class space (McCases)   *)
(* Every case's final state is printed (Emit) and replayed by the harness  *)
(* through the real CLI in text, JSON and --lookup form.                   *)
(***************************************************************************)
EXTENDS Integers, Sequences, FiniteSets, TLC, Json, IOUtils, SshStrings, SshVersionOps

CONSTANT Mode

Tables == JsonDeserialize(IOEnv.VERIF_TABLES)
DB     == Tables.db2
Cats   == <<"kex", "key", "enc", "mac">>
RSAFamily == {"ssh-rsa", "rsa-sha2-256", "rsa-sha2-512"}

STRICT_S == "kex-strict-s-v00@openssh.com"
STRICT_C == "kex-strict-c-v00@openssh.com"
GEX256   == "diffie-hellman-group-exchange-sha256"
GEX1     == "diffie-hellman-group-exchange-sha1"

T_TERRAPIN == "vulnerable to the Terrapin attack (CVE-2023-48795), allowing message prefix truncation"
T_2048     == "2048-bit modulus only provides 112-bits of symmetric strength"
T_ECC224   == "224-bit ECC modulus only provides 112-bits of symmetric strength"
T_CA_NIST  == "CA key uses elliptic curves that are suspected as being backdoored by the U.S. National Security Agency"
T_OSSH2048 == "A bug in OpenSSH causes it to fall back to a 2048-bit modulus regardless of server configuration (https://bugzilla.mindrot.org/show_bug.cgi?id=2793)"
T_UNKNOWN_TEXT == "unknown algorithm"
T_UNKNOWN_JSON == "using unknown algorithm"
T_CHG_NOTE == "increase modulus size to 3072 bits or larger"
Small(n, what) == "using small " \o ToString(n) \o "-bit " \o what
T_FALLBACK(n) == "OpenSSH's GEX fallback mechanism was triggered during testing. Very old SSH clients will still be able to create connections using a 2048-bit modulus, though modern clients will use " \o ToString(n) \o ". This can only be disabled by recompiling the code (see https://github.com/openssh/openssh-portable/blob/V_9_4/dh.c#L477)."

---------------------------------------------------------------------------
(* spelling rules *)
IsChaCha(n) == StartsWith(n, "chacha20-poly1305")
IsCBC(n)    == EndsWith(n, "-cbc") \/ EndsWith(n, "-cbc@openssh.org") \/ EndsWith(n, "-cbc@ssh.com")
               \/ n = "rijndael-cbc@lysator.liu.se"
IsETM(n)    == EndsWith(n, "-etm@openssh.com")
IsCert(n)   == Contains(n, "-cert-")
IsSk(n)     == StartsWith(n, "sk-")
IsPseudo(n) == StartsWith(n, "ext-info-") \/ StartsWith(n, "kex-strict-")
IsECC(n)    == StartsWith(n, "ssh-ed25519") \/ StartsWith(n, "ecdsa-sha2-nistp")
\* gss-<mech>-<base64 of the mechanism OID>: the database holds one wildcard entry per mechanism
DbKey(cat, n) == IF cat = "kex" /\ StartsWith(n, "gss-")
                 THEN SubSeq(n, 1, LastIndexOf(n, "-")) \o "*" ELSE n
Known(cat, n) == DbKey(cat, n) \in DOMAIN DB[cat]

Filter(q, P(_)) == SelectSeq(q, P)

---------------------------------------------------------------------------
(* the Terrapin rule (C04) *)
Marker(c) == IF c.role = "client" THEN SeqContains(c.kex, STRICT_C) ELSE SeqContains(c.kex, STRICT_S)
\* The lists the rule reads are those of the direction in which the audited party sends: a server's server-to-client lists
\* (the ones the report shows), a client's client-to-server lists.  They differ from the displayed lists only for a client
\* whose KEXINIT names different algorithms per direction (RFC 4253 7.1 allows it); the case then carries them as tenc / tmac.
TEnc(c) == IF "tenc" \in DOMAIN c THEN c.tenc ELSE c.enc
TMac(c) == IF "tmac" \in DOMAIN c THEN c.tmac ELSE c.mac
ChaChas(c) == Filter(TEnc(c), IsChaCha)
CBCs(c)    == Filter(TEnc(c), IsCBC)
ETMs(c)    == Filter(TMac(c), IsETM)
Pairing(c) == CBCs(c) # <<>> /\ ETMs(c) # <<>>
VulnEnc(c) == ChaChas(c) \o (IF Pairing(c) THEN CBCs(c) ELSE <<>>)
VulnMac(c) == IF Pairing(c) THEN ETMs(c) ELSE <<>>
Exposed(c) == ~Marker(c) /\ (ChaChas(c) # <<>> \/ Pairing(c))
\* names carrying the warning / named in the advisory note
TerrapinWarned(c, cat, n) == /\ ~Marker(c)
                             /\ \/ cat = "enc" /\ SeqContains(VulnEnc(c), n)
                                \/ cat = "mac" /\ SeqContains(VulnMac(c), n)
Advisory(c) == IF Marker(c) THEN VulnEnc(c) \o VulnMac(c) ELSE <<>>
\* one warning per occurrence in the vulnerable list (a name advertised twice is marked twice by the tool's table edit)
RECURSIVE Count(_, _)
Count(q, x) == IF q = <<>> THEN 0 ELSE (IF Head(q) = x THEN 1 ELSE 0) + Count(Tail(q), x)
RECURSIVE Repeat(_, _)
Repeat(x, k) == IF k = 0 THEN <<>> ELSE <<x>> \o Repeat(x, k - 1)
TerrapinNotes(c, cat, n) ==
    IF Marker(c) THEN <<>>
    ELSE IF cat = "enc" THEN Repeat(T_TERRAPIN, Count(VulnEnc(c), n))
    ELSE IF cat = "mac" THEN Repeat(T_TERRAPIN, Count(VulnMac(c), n))
    ELSE <<>>

---------------------------------------------------------------------------
(* size ratings (C11, C12).  Severity: 2 = failure, 1 = warning, 0 = no size note *)
RsaSeverity(bits) == IF bits < 2048 THEN 2 ELSE IF bits < 3072 THEN 1 ELSE 0
EccSeverity(bits) == IF bits < 224 THEN 2 ELSE IF bits < 256 THEN 1 ELSE 0
KeySeverity(type, bits) == IF IsECC(type) THEN EccSeverity(bits) ELSE RsaSeverity(bits)
WarnText(type) == IF IsECC(type) THEN T_ECC224 ELSE T_2048
FixedSize(type) == type \in {"ssh-ed25519", "ssh-ed448"}

HasHk(c, n) == n \in DOMAIN c.hk
\* the measurement that rates name n: its own, or - for the RSA family - the family's single probe
RsaProbe(c) == IF \E m \in RSAFamily : HasHk(c, m)
               THEN c.hk[CHOOSE m \in RSAFamily : HasHk(c, m)] ELSE [size |-> 0, catype |-> "", casize |-> 0]
HkOf(c, n) == IF n \in RSAFamily THEN RsaProbe(c)
              ELSE IF HasHk(c, n) THEN c.hk[n] ELSE [size |-> 0, catype |-> "", casize |-> 0]

HostKeyFails(c, n) ==
    LET h == HkOf(c, n) IN
    IF h.size = 0 /\ h.casize = 0 THEN <<>>
    ELSE IF ~IsCert(n) THEN
        (IF n # "ssh-dss" /\ ~FixedSize(n) /\ KeySeverity(n, h.size) = 2 THEN <<Small(h.size, "modulus")>> ELSE <<>>)
    ELSE
        (IF KeySeverity(n, h.size) = 2 THEN <<Small(h.size, "hostkey modulus")>> ELSE <<>>)
        \o (IF h.casize > 0 /\ KeySeverity(h.catype, h.casize) = 2 THEN <<Small(h.casize, "CA key modulus")>> ELSE <<>>)
        \o (IF StartsWith(h.catype, "ecdsa-sha2-nistp") THEN <<T_CA_NIST>> ELSE <<>>)
HostKeyWarns(c, n) ==
    LET h == HkOf(c, n) IN
    IF h.size = 0 /\ h.casize = 0 THEN <<>>
    ELSE IF ~IsCert(n) THEN
        (IF n # "ssh-dss" /\ ~FixedSize(n) /\ KeySeverity(n, h.size) = 1 THEN <<WarnText(n)>> ELSE <<>>)
    ELSE
        LET w1 == IF KeySeverity(n, h.size) = 1 THEN <<WarnText(n)>> ELSE <<>>
            w2 == IF h.casize > 0 /\ KeySeverity(h.catype, h.casize) = 1 /\ ~SeqContains(w1, WarnText(h.catype))
                  THEN <<WarnText(h.catype)>> ELSE <<>>
        IN w1 \o w2

HasDh(c, n) == n \in DOMAIN c.dh
GexSmall(c, n) == HasDh(c, n) /\ c.dh[n].bits < 2048

---------------------------------------------------------------------------
(* Notes(c, cat, n): the one rating function; every view is defined from it *)
Base(cat, n) == DB[cat][DbKey(cat, n)]

Fails(c, cat, n) ==
    IF cat = "kex" /\ GexSmall(c, n) THEN <<Small(c.dh[n].bits, "modulus")>>      \* replaces the vaguer table reason
    ELSE Base(cat, n).fail \o (IF cat = "key" THEN HostKeyFails(c, n) ELSE <<>>)
Warns(c, cat, n) ==
    LET b == Base(cat, n).warn IN
    b \o (IF cat = "key" THEN HostKeyWarns(c, n) ELSE <<>>)
      \o (IF cat = "kex" /\ HasDh(c, n) /\ RsaSeverity(c.dh[n].bits) = 1 /\ ~SeqContains(b, T_2048) THEN <<T_2048>> ELSE <<>>)
      \o TerrapinNotes(c, cat, n)
OpenSSH2048(c) == /\ SeqContains(c.kex, GEX256) /\ HasDh(c, GEX256) /\ c.dh[GEX256].bits = 2048 /\ c.openssh
Infos(c, cat, n) ==
    Base(cat, n).info
      \o (IF cat = "kex" /\ HasDh(c, n) /\ c.dh[n].fallback THEN <<T_FALLBACK(c.dh[n].bits)>> ELSE <<>>)
      \o (IF cat = "kex" /\ n = GEX256 /\ OpenSSH2048(c) THEN <<T_OSSH2048>> ELSE <<>>)
Since(cat, n) == IF Base(cat, n).since = "" THEN <<>> ELSE <<Base(cat, n).since>>

\* what one algorithm line of a report says
Line(c, cat, n) ==
    IF Known(cat, n)
    THEN [name |-> n, unknown |-> FALSE, fail |-> Fails(c, cat, n), warn |-> Warns(c, cat, n),
          info |-> Since(cat, n) \o Infos(c, cat, n)]
    \* a name the database does not know is flagged unknown; the Terrapin rule is about spellings, so it still applies
    ELSE [name |-> n, unknown |-> TRUE, fail |-> <<>>, warn |-> TerrapinNotes(c, cat, n), info |-> <<>>]
\* severity levels the text view shows for it, in order (an unknown name is a warning in text, a failure in JSON)
Levels(l) == (IF l.unknown THEN <<"warn">> ELSE <<>>) \o
             [i \in 1..Len(l.fail) |-> "fail"] \o [i \in 1..Len(l.warn) |-> "warn"] \o [i \in 1..Len(l.info) |-> "info"]

Fold(st, lv) == IF SeqContains(lv, "fail") THEN 3
                ELSE IF SeqContains(lv, "warn") /\ st # 3 THEN 2 ELSE st

Advertised(c, cat) == CASE cat = "kex" -> c.kex [] cat = "key" -> c.key [] cat = "enc" -> c.enc [] cat = "mac" -> c.mac
NonBlank(q) == SelectSeq(q, LAMBDA n : ~IsBlank(n))

---------------------------------------------------------------------------
(* sizes shown next to a name *)
SizeShown(c, cat, n) ==
    IF cat = "kex" /\ HasDh(c, n) THEN [size |-> c.dh[n].bits, casize |-> 0, catype |-> ""]
    ELSE IF cat = "key" /\ HasHk(c, n) THEN
        LET h == c.hk[n] IN
        IF h.catype # "" /\ h.casize > 0
        THEN [size |-> h.size, casize |-> h.casize, catype |-> IF h.catype \in RSAFamily THEN "RSA" ELSE h.catype]
        ELSE IF n \in RSAFamily THEN [size |-> h.size, casize |-> 0, catype |-> ""]
        ELSE [size |-> 0, casize |-> 0, catype |-> ""]
    ELSE [size |-> 0, casize |-> 0, catype |-> ""]

---------------------------------------------------------------------------
(* recommendations (C13) *)
Recognised(c) == c.sw.product \in {"OpenSSH", "Dropbear SSH", "libssh", "TinySSH"}
HasSoftware(c) == c.sw.product # "none"
SwRelease(c) == [c |-> c.sw.c, p |-> c.sw.p]
\* the database knows entry e in the identified server software
KnownIn(c, e) ==
    \/ e.empty_version
    \/ ~Recognised(c)
    \/ \E k \in 1..Len(e.vers) :
          /\ e.vers[k].prod = c.sw.product /\ ~e.vers[k].cli
          /\ AvailableSince(c.sw.product, SwRelease(c), [c |-> e.vers[k].c, p |-> e.vers[k].p])
Suppressed(c) ==
    (IF OpenSSH2048(c) THEN {GEX256} ELSE {})
    \cup {n \in DOMAIN DB["enc"] : (IsChaCha(n) \/ IsCBC(n)) /\ ~SeqContains(c.enc, n)}
    \cup {n \in DOMAIN DB["mac"] : IsETM(n) /\ ~SeqContains(c.mac, n)}
ChgNames == {GEX256, "rsa-sha2-256", "rsa-sha2-512", "rsa-sha2-256-cert-v01@openssh.com", "rsa-sha2-512-cert-v01@openssh.com"}
\* advertised spellings whose database key is k
AdvertisedAs(c, cat, k) == {n \in Range(Advertised(c, cat)) : DbKey(cat, n) = k}

RecsOf(c) ==
    IF ~HasSoftware(c) THEN {}
    ELSE UNION { UNION {
        LET e == DB[cat][k]
            adv == AdvertisedAs(c, cat, k)
        IN  IF ~KnownIn(c, e) THEN {}
            ELSE IF adv # {} THEN
                 {[cat |-> cat, name |-> n,
                   action |-> IF n \in ChgNames THEN "chg" ELSE "del",
                   level |-> IF Fails(c, cat, n) # <<>> THEN "critical" ELSE "warning"] :
                      n \in {m \in adv : (Fails(c, cat, m) # <<>> \/ Warns(c, cat, m) # <<>>) /\ m \notin Suppressed(c)}}
            ELSE IF /\ Recognised(c) /\ ~e.empty_version
                    /\ Fails(c, cat, k) = <<>> /\ Warns(c, cat, k) = <<>>
                    /\ ~(cat = "key" /\ (IsCert(k) \/ IsSk(k))) /\ ~(cat = "kex" /\ IsPseudo(k))
                    /\ k \notin Suppressed(c)
                 THEN {[cat |-> cat, name |-> k, action |-> "add", level |-> "informational"]}
            ELSE {}
        : k \in DOMAIN DB[cat] } : cat \in Range(Cats) }

---------------------------------------------------------------------------
(* --lookup name1,name2,... : rate names without connecting (beyond the listed properties; bound in C03's lookup leg) *)
LowerChar(c) ==
    CASE c = "A" -> "a" [] c = "B" -> "b" [] c = "C" -> "c" [] c = "D" -> "d" [] c = "E" -> "e" [] c = "F" -> "f" [] c = "G" -> "g"
      [] c = "H" -> "h" [] c = "I" -> "i" [] c = "J" -> "j" [] c = "K" -> "k" [] c = "L" -> "l" [] c = "M" -> "m" [] c = "N" -> "n"
      [] c = "O" -> "o" [] c = "P" -> "p" [] c = "Q" -> "q" [] c = "R" -> "r" [] c = "S" -> "s" [] c = "T" -> "t" [] c = "U" -> "u"
      [] c = "V" -> "v" [] c = "W" -> "w" [] c = "X" -> "x" [] c = "Y" -> "y" [] c = "Z" -> "z" [] OTHER -> c
RECURSIVE Lower(_)
Lower(s0) == IF s0 = "" THEN "" ELSE LowerChar(CharAt(s0, 1)) \o Lower(SubSeq(s0, 2, Len(s0)))
LookupCats(n) == {cat \in Range(Cats) : n \in DOMAIN DB[cat]}
NotFound(names) == {n \in Range(names) : LookupCats(n) = {}}
\* names of the database that contain an unknown name, ignoring case
Suggestions(names) == {<<u, cat, n>> \in (NotFound(names) \X Range(Cats) \X UNION {DOMAIN DB[c] : c \in Range(Cats)}) :
                          n \in DOMAIN DB[cat] /\ Contains(Lower(n), Lower(u))}
LookupFound(names) == {<<cat, n>> \in (Range(Cats) \X Range(names)) : n \in DOMAIN DB[cat]}
LookupStatus(names) ==
    IF NotFound(names) # {} THEN 3
    ELSE IF \E p \in LookupFound(names) : DB[p[1]][p[2]].fail # <<>> THEN 3
    ELSE IF \E p \in LookupFound(names) : DB[p[1]][p[2]].warn # <<>> THEN 2 ELSE 0

---------------------------------------------------------------------------
(* cases *)
NoSw == [product |-> "none", c |-> <<0>>, p |-> <<"none", 0>>]
EmptyMap == [x \in {} |-> 0]
\* exhaustive Terrapin class space: role x marker x ChaCha count x CBC count x ETM count x other algorithms
McSubseq(q) == {SubSeq(q, 1, k) : k \in 0..Len(q)}
McCaseSet ==
    {[id |-> 0, role |-> r,
      kex |-> <<"curve25519-sha256">> \o mk,
      key |-> <<"ssh-ed25519">>,
      enc |-> ch \o cb \o oe, mac |-> et \o om, comp |-> <<"none">>,
      hk |-> EmptyMap, dh |-> EmptyMap, sw |-> NoSw, openssh |-> FALSE] :
        r \in {"server", "client"},
        mk \in {<<>>, <<STRICT_S>>, <<STRICT_C>>, <<STRICT_S, STRICT_C>>},
        ch \in McSubseq(<<"chacha20-poly1305@openssh.com", "chacha20-poly1305">>),
        cb \in McSubseq(<<"aes128-cbc", "3des-cbc">>),
        et \in McSubseq(<<"hmac-sha2-256-etm@openssh.com", "hmac-sha1-etm@openssh.com">>),
        oe \in {<<>>, <<"aes128-ctr">>},
        om \in {<<>>, <<"hmac-sha2-256">>}}
\* C01/C02 list space: every list of length <= MaxLen over the severity symbols of one category (others at a baseline)
MaxLen == IF "VERIF_MAXLEN" \in DOMAIN IOEnv THEN (CASE IOEnv.VERIF_MAXLEN = "2" -> 2 [] IOEnv.VERIF_MAXLEN = "3" -> 3 [] OTHER -> 2) ELSE 2
Symbols(cat) ==
    CASE cat = "kex" -> {"sntrup761x25519-sha512@openssh.com", "curve25519-sha256", "diffie-hellman-group1-sha1",
                         "foo-kex@example.org", "gss-group14-sha256-toWM5Slw5Ew8Mqkay+al2g==", ""}
      [] cat = "key" -> {"ssh-ed25519", "rsa-sha2-512", "ssh-dss", "foo-key@example.org", ""}
      [] cat = "enc" -> {"aes128-ctr", "aes128-cbc", "3des-cbc", "foo-enc@example.org", ""}
      [] cat = "mac" -> {"hmac-sha2-256-etm@openssh.com", "hmac-sha2-256", "hmac-sha1", "foo-mac@example.org", ""}
ListsOver(S) == UNION {[1..k -> S] : k \in 0..MaxLen}
BaseCase(r) == [id |-> 0, role |-> r, kex |-> <<"sntrup761x25519-sha512@openssh.com">>, key |-> <<"ssh-ed25519">>,
                enc |-> <<"aes128-ctr">>, mac |-> <<"hmac-sha2-256-etm@openssh.com">>, comp |-> <<"none">>,
                hk |-> EmptyMap, dh |-> EmptyMap, sw |-> NoSw, openssh |-> FALSE]
\* an empty name-list reaches the tool as the single empty name
Wire(l) == IF l = <<>> THEN <<"">> ELSE l
McListCaseSet ==
    UNION {{[BaseCase(r) EXCEPT ![cat] = Wire(l)] : l \in ListsOver(Symbols(cat))} : cat \in Range(Cats), r \in {"server", "client"}}
\* C02: all four lists vary together (length <= 1 each over the three severities + unknown)
Sev(cat) == Symbols(cat) \ {"", "gss-group14-sha256-toWM5Slw5Ew8Mqkay+al2g=="}
McMixCaseSet ==
    {[BaseCase("server") EXCEPT !.kex = <<a>>, !.key = <<b>>, !.enc = <<d>>, !.mac = <<e>>] :
        a \in Sev("kex"), b \in Sev("key"), d \in Sev("enc"), e \in Sev("mac")}
Input == IF Mode = "oracle" THEN JsonDeserialize(IOEnv.VERIF_CASES) ELSE <<>>

VARIABLES case, pc, ci, ai, lines, status, recs
vars == <<case, pc, ci, ai, lines, status, recs>>

ValidCase(c) == (c.enc # <<>> /\ c.mac # <<>>)

Init ==
    /\ pc = "post"
    /\ ci = 1 /\ ai = 1
    /\ lines = [x \in {"kex", "key", "enc", "mac"} |-> <<>>]
    /\ status = 0
    /\ recs = {}
    /\ IF Mode = "oracle" THEN \E k \in 1..Len(Input) : case = Input[k]
       ELSE IF Mode = "lookup" THEN case = BaseCase("server")
       ELSE IF Mode = "mclist" THEN case \in McListCaseSet
       ELSE IF Mode = "mcmix" THEN case \in McMixCaseSet
       ELSE case \in {c \in McCaseSet : ValidCase(c)}

\* post_process_findings: the table edits are folded into Notes(); this step only fixes the order of the pipeline
PostProcess ==
    /\ pc = "post" /\ pc' = "render"
    /\ UNCHANGED <<case, ci, ai, lines, status, recs>>

CurCat == Cats[ci]
CurList == Advertised(case, CurCat)
\* output_algorithm for element ai of the current category
Render ==
    /\ pc = "render" /\ ci <= 4 /\ ai <= Len(CurList)
    /\ LET n == CurList[ai] IN
       IF IsBlank(n) THEN UNCHANGED <<lines, status>>
       ELSE LET l == Line(case, CurCat, n) IN
            /\ lines' = [lines EXCEPT ![CurCat] = Append(@, l)]
            /\ status' = Fold(status, Levels(l))
    /\ ai' = ai + 1
    /\ UNCHANGED <<case, pc, ci, recs>>
NextCat ==
    /\ pc = "render" /\ ci <= 4 /\ ai > Len(CurList)
    /\ IF ci = 4 THEN pc' = "rec" /\ ci' = ci ELSE pc' = pc /\ ci' = ci + 1
    /\ ai' = 1
    /\ UNCHANGED <<case, lines, status, recs>>
Recommend ==
    /\ pc = "rec" /\ pc' = "done"
    /\ recs' = RecsOf(case)
    /\ UNCHANGED <<case, ci, ai, lines, status>>

Next == PostProcess \/ Render \/ NextCat \/ Recommend
Spec == Init /\ [][Next]_vars

---------------------------------------------------------------------------
(* properties *)
Done == pc = "done"
AllLines == lines["kex"] \o lines["key"] \o lines["enc"] \o lines["mac"]
Names(q) == [i \in 1..Len(q) |-> q[i].name]

\* C01: exactly the non-blank advertised names, once per occurrence, in order, per category
ShownIsAdvertised == Done => \A cat \in Range(Cats) : Names(lines[cat]) = NonBlank(Advertised(case, cat))

\* C02: the exit status is the worst level shown; never downgraded
HasLevel(lv) == \E i \in 1..Len(AllLines) : SeqContains(Levels(AllLines[i]), lv)
ExitRule == Done => /\ (status = 3) = HasLevel("fail")
                    /\ (status = 2) = (~HasLevel("fail") /\ HasLevel("warn"))
                    /\ (status = 0) = (~HasLevel("fail") /\ ~HasLevel("warn"))
StatusMonotone == [][status' >= status]_status
StatusDomain == status \in {0, 2, 3}

\* C03: same name, same notes - whatever the position and the neighbours
PositionIndependent == Done => \A cat \in Range(Cats) : \A i, j \in 1..Len(lines[cat]) :
    lines[cat][i].name = lines[cat][j].name => lines[cat][i] = lines[cat][j]
UnknownFlagged == Done => \A i \in 1..Len(AllLines) :
    AllLines[i].unknown => (SeqContains(Levels(AllLines[i]), "warn") /\ AllLines[i].info = <<>> /\ AllLines[i].fail = <<>>)

\* C04: precisely the vulnerable ciphers and MACs carry the warning
Carries(l) == SeqContains(l.warn, T_TERRAPIN)
TerrapinExact == Done =>
    /\ \A i \in 1..Len(lines["enc"]) : Carries(lines["enc"][i]) =
           (~Marker(case) /\ SeqContains(VulnEnc(case), lines["enc"][i].name))
    /\ \A i \in 1..Len(lines["mac"]) : Carries(lines["mac"][i]) =
           (~Marker(case) /\ SeqContains(VulnMac(case), lines["mac"][i].name))
    /\ \A i \in 1..Len(lines["kex"]) : ~Carries(lines["kex"][i])
    /\ \A i \in 1..Len(lines["key"]) : ~Carries(lines["key"][i])
    /\ Marker(case) => \A i \in 1..Len(AllLines) : ~Carries(AllLines[i])
    /\ Exposed(case) = (~Marker(case) /\ (VulnEnc(case) # <<>> \/ VulnMac(case) # <<>>))
NeverAddTerrapinProne == Done => \A r \in recs :
    r.action = "add" => ~(r.cat = "enc" /\ (IsChaCha(r.name) \/ IsCBC(r.name))) /\ ~(r.cat = "mac" /\ IsETM(r.name))

\* C11 / C12: the size rating never gets worse as a key grows
SizeMonotone == \A a, b \in {512, 1024, 2040, 2047, 2048, 2049, 3071, 3072, 3073, 4096, 8192, 16384} :
    a <= b => RsaSeverity(a) >= RsaSeverity(b)
Thresholds == /\ RsaSeverity(2047) = 2 /\ RsaSeverity(2048) = 1 /\ RsaSeverity(3071) = 1 /\ RsaSeverity(3072) = 0

\* C13: internal consistency of the recommendations with the lines of the same report
LineOf(cat, n) == CHOOSE i \in 1..Len(lines[cat]) : lines[cat][i].name = n
RecsConsistent == Done =>
    /\ \A r \in recs : r.action \in {"del", "chg"} =>
          /\ SeqContains(Advertised(case, r.cat), r.name)
          /\ LET l == lines[r.cat][LineOf(r.cat, r.name)] IN
             /\ (l.fail # <<>> \/ l.warn # <<>>)
             /\ (r.level = "critical") = (l.fail # <<>>)
    /\ \A r \in recs : r.action = "add" =>
          /\ ~SeqContains(Advertised(case, r.cat), r.name)
          /\ ~IsCert(r.name) /\ ~IsSk(r.name) /\ ~IsPseudo(r.name)
          /\ Recognised(case)
    /\ \A r1, r2 \in recs : (r1.cat = r2.cat /\ r1.name = r2.name) => r1 = r2
    /\ ~Recognised(case) => \A r \in recs : r.action # "add"

\* emission: the terminal state of every case, as JSON, for the replay
ShownSizes == [cat \in {"kex", "key"} |->
                 [i \in 1..Len(lines[cat]) |-> SizeShown(case, cat, lines[cat][i].name)]]
LookupInput == IF Mode = "lookup" THEN JsonDeserialize(IOEnv.VERIF_CASES) ELSE <<>>
EmitLookup == Mode = "lookup" =>
    PrintT(ToJson([k \in 1..Len(LookupInput) |->
        [found |-> LookupFound(LookupInput[k]), notfound |-> NotFound(LookupInput[k]), similar |-> Suggestions(LookupInput[k]),
         status |-> LookupStatus(LookupInput[k])]]))

Emit == Done => PrintT(ToJson([id |-> case.id, lines |-> lines, status |-> status, recs |-> recs,
                              advisory |-> Advisory(case), exposed |-> Exposed(case),
                              sizes |-> ShownSizes,
                              suppressed2048 |-> OpenSSH2048(case),
                              case |-> IF Mode # "oracle" THEN case ELSE <<>>]))
=============================================================================
