----------------------------- MODULE SshWire -----------------------------
(***************************************************************************)
(* RFC 4251 / 4253 wire encodings as byte sequences (property C10).         *)
(*                                                                         *)
(* Bytes are 0..255, data is Seq(0..255).  Integers of arbitrary size are   *)
(* <<sign, magnitude>> with sign in {-1, 0, 1} and the magnitude a          *)
(* big-endian byte sequence without leading zero bytes (TLC's own integers  *)
(* are 32 bit).  Encoders and decoders are written independently of each    *)
(* other, so the inverse laws are theorems TLC checks, not definitions.      *)
(*                                                                         *)
(* Mode "mc":     every magnitude up to MaxLen bytes over the alphabet       *)
(*                {00, 01, 7f, 80, ff}, both signs; every name-list up to    *)
(*                length 3 over a small name set; framing for 0..MaxPayload  *)
(* Mode "oracle": values from VERIF_CASES (dense windows, +-2^k +-1, random) *)
(* Every value is emitted with its encodings for the replay into            *)
(* WriteBuf / ReadBuf / SSH2_Kex / SSH_Socket.                              *)
(***************************************************************************)
EXTENDS Integers, Sequences, FiniteSets, TLC, Json, IOUtils

CONSTANTS Mode, MaxLen, MaxPayload

Byte == 0..255
U32(n) == <<(n \div 16777216) % 256, (n \div 65536) % 256, (n \div 256) % 256, n % 256>>       \* n < 2^31 here
U16(n) == <<(n \div 256) % 256, n % 256>>
FromU32(b) == ((b[1] * 256 + b[2]) * 256 + b[3]) * 256 + b[4]                                 \* only for b[1] < 128
String(b) == U32(Len(b)) \o b

RECURSIVE StripZeros(_)
StripZeros(b) == IF b # <<>> /\ Head(b) = 0 THEN StripZeros(Tail(b)) ELSE b
Invert(b) == [i \in 1..Len(b) |-> 255 - b[i]]
RECURSIVE AddOne(_)
\* b + 1 over Len(b) bytes, carry out of the top dropped
AddOne(b) == IF b = <<>> THEN <<>>
             ELSE LET last == b[Len(b)]
                      front == SubSeq(b, 1, Len(b) - 1)
                  IN IF last < 255 THEN Append(front, last + 1) ELSE Append(AddOne(front), 0)
RECURSIVE SubOne(_)
SubOne(b) == IF b = <<>> THEN <<>>
             ELSE LET last == b[Len(b)]
                      front == SubSeq(b, 1, Len(b) - 1)
                  IN IF last > 0 THEN Append(front, last - 1) ELSE Append(SubOne(front), 255)
TwosComplement(b) == AddOne(Invert(b))

\* RFC 4251 mpint body (without the length prefix)
Mp2Body(v) ==
    IF v[1] = 0 THEN <<>>
    ELSE IF v[1] = 1 THEN (IF v[2][1] >= 128 THEN <<0>> \o v[2] ELSE v[2])
    ELSE LET t == TwosComplement(v[2]) IN IF t[1] < 128 THEN <<255>> \o t ELSE t
EncMp2(v) == String(Mp2Body(v))
\* independent decoder: sign from the top bit, magnitude by undoing the two's complement
DecMp2Body(b) ==
    IF b = <<>> THEN <<0, <<>>>>
    ELSE IF b[1] < 128 THEN (LET m == StripZeros(b) IN IF m = <<>> THEN <<0, <<>>>> ELSE <<1, m>>)
    ELSE <<-1, StripZeros(Invert(SubOne(b)))>>
\* canonical (minimal) form: no redundant sign-extension byte
Canonical2(b) == \/ b = <<>>
                 \/ (Len(b) = 1 /\ b # <<0>>)
                 \/ (Len(b) > 1 /\ ~(b[1] = 0 /\ b[2] < 128) /\ ~(b[1] = 255 /\ b[2] >= 128))

\* SSH-1 mpint: 16-bit bit count, then ceil(bits / 8) bytes (unsigned)
TopBits(x) == IF x >= 128 THEN 8 ELSE IF x >= 64 THEN 7 ELSE IF x >= 32 THEN 6 ELSE IF x >= 16 THEN 5
              ELSE IF x >= 8 THEN 4 ELSE IF x >= 4 THEN 3 ELSE IF x >= 2 THEN 2 ELSE IF x >= 1 THEN 1 ELSE 0
BitLen(m) == IF m = <<>> THEN 0 ELSE 8 * (Len(m) - 1) + TopBits(m[1])
EncMp1(m) == U16(BitLen(m)) \o m
DecMp1(b) == LET bits == b[1] * 256 + b[2] IN StripZeros(SubSeq(b, 3, 2 + (bits + 7) \div 8))

\* name-lists
RECURSIVE Join(_)
Join(names) == IF names = <<>> THEN <<>> ELSE IF Len(names) = 1 THEN names[1] ELSE names[1] \o <<44>> \o Join(Tail(names))
EncList(names) == String(Join(names))
RECURSIVE Split(_, _)
Split(b, acc) == IF b = <<>> THEN <<acc>>
                 ELSE IF Head(b) = 44 THEN <<acc>> \o Split(Tail(b), <<>>) ELSE Split(Tail(b), Append(acc, Head(b)))
DecList(body) == Split(body, <<>>)            \* the empty list and the list holding one empty name have the same encoding

\* binary packet protocol (RFC 4253 section 6, no MAC): padding for a payload of n bytes
Pad(n) == LET p == (8 - ((n + 5) % 8)) % 8 IN IF p < 4 THEN p + 8 ELSE p
PLen(n) == n + Pad(n) + 1
FrameLaw(n) == /\ (4 + PLen(n)) % 8 = 0
               /\ Pad(n) >= 4 /\ Pad(n) <= 255
               /\ PLen(n) = n + Pad(n) + 1
               /\ 4 + PLen(n) >= 16
               /\ Pad(n) < 4 + 8                      \* minimal: never a whole spare block

---------------------------------------------------------------------------
Alphabet == {0, 1, 127, 128, 255}
Mags == {m \in UNION {[1..k -> Alphabet] : k \in 1..MaxLen} : m[1] # 0}
McValues == {<<0, <<>>>>} \cup {<<s, m>> : s \in {-1, 1}, m \in Mags}
NameSet == {<<>>, <<97>>, <<97, 64, 98>>, <<120, 61, 43, 47>>}
McLists == UNION {[1..k -> NameSet] : k \in 0..3}

Input == IF Mode = "oracle" THEN JsonDeserialize(IOEnv.VERIF_CASES) ELSE <<>>

VARIABLES kind, val, enc, back, pc
vars == <<kind, val, enc, back, pc>>

Init ==
    /\ pc = "start" /\ enc = <<>> /\ back = <<>>
    /\ IF Mode = "oracle" THEN \E k \in 1..Len(Input) : kind = Input[k].kind /\ val = Input[k].val
       ELSE \/ kind = "mpint" /\ val \in McValues
            \/ kind = "list" /\ val \in McLists
            \/ kind = "frame" /\ val \in 0..MaxPayload

Encode ==
    /\ pc = "start" /\ pc' = "encoded"
    /\ enc' = CASE kind = "mpint" -> EncMp2(val)
                [] kind = "mpint1" -> EncMp1(val[2])
                [] kind = "list" -> EncList(val)
                [] kind = "frame" -> <<Pad(val), PLen(val)>>
    /\ UNCHANGED <<kind, val, back>>
Decode ==
    /\ pc = "encoded" /\ pc' = "done"
    /\ back' = CASE kind = "mpint" -> DecMp2Body(SubSeq(enc, 5, Len(enc)))
                 [] kind = "mpint1" -> <<IF DecMp1(enc) = <<>> THEN 0 ELSE 1, DecMp1(enc)>>
                 [] kind = "list" -> DecList(SubSeq(enc, 5, Len(enc)))
                 [] kind = "frame" -> <<>>
    /\ UNCHANGED <<kind, val, enc>>
Next == Encode \/ Decode
Spec == Init /\ [][Next]_vars

---------------------------------------------------------------------------
Done == pc = "done"
RoundTrip == Done =>
    CASE kind = "mpint" -> back = val
      [] kind = "mpint1" -> back[2] = val[2]
      [] kind = "list" -> (back = val \/ (val = <<>> /\ back = <<<<>>>>))
      [] OTHER -> TRUE
Minimal == (Done /\ kind = "mpint") => Canonical2(SubSeq(enc, 5, Len(enc)))
LengthPrefix == (Done /\ kind \in {"mpint", "list"}) => FromU32(SubSeq(enc, 1, 4)) = Len(enc) - 4
\* re-encoding what was decoded gives the same bytes
ReEncode == (Done /\ kind = "mpint") => EncMp2(back) = enc
Framing == (Done /\ kind = "frame") => FrameLaw(val)
Mp1BitCount == (Done /\ kind = "mpint1") => /\ enc[1] * 256 + enc[2] = BitLen(val[2])
                                            /\ Len(enc) = 2 + (BitLen(val[2]) + 7) \div 8

Emit == (Done /\ kind # "frame") => PrintT(ToJson([kind |-> kind, val |-> val, enc |-> enc]))
=============================================================================
