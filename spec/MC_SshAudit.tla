--------------------------- MODULE MC_SshAudit ---------------------------
(* Model-checking instances of SshAudit: the server families explored by Init. *)
EXTENDS SshAudit, Json

Base == [hk |-> <<>>, kexOK |-> FALSE, kexGex |-> FALSE, gex |-> {}, dh |-> FALSE,
         moduli |-> {}, style |-> "strict", openssh |-> FALSE, skipRate |-> TRUE]
GexSha256 == "diffie-hellman-group-exchange-sha256"
GexSha1 == "diffie-hellman-group-exchange-sha1"

\* C12: every monotone moduli policy, every style, both banners, for sha256 alone, sha1 alone and both
GexFamily ==
    {[Base EXCEPT !.gex = g, !.moduli = m, !.style = st, !.openssh = o] :
        g \in {{GexSha256}, {GexSha1}, {GexSha1, GexSha256}}, m \in SUBSET AllModuli, st \in Styles, o \in BOOLEAN}

\* C09 / C19: fault injection over targeted families
HkLists == {<<>>, <<"ssh-ed25519">>, <<"ssh-rsa", "rsa-sha2-512">>, <<"rsa-sha2-512", "rsa-sha2-256", "ssh-ed25519">>,
            <<"ssh-ed25519", "ssh-rsa-cert-v01@openssh.com", "rsa-sha2-256">>}
HkFamilyServers ==
    {[Base EXCEPT !.hk = h, !.kexOK = k, !.kexGex = kg, !.moduli = IF kg THEN m ELSE {}, !.style = "roundup"] :
        h \in HkLists, k \in BOOLEAN, kg \in BOOLEAN, m \in {{}, {4096}}} \ {s \in {} : TRUE}
SmallPolicies == {{}, {1024}, {2048}, {2048, 4096}, {3072, 8192}}
GexFaultServers ==
    {[Base EXCEPT !.gex = g, !.moduli = m, !.style = st, !.openssh = o] :
        g \in {{GexSha256}, {GexSha1, GexSha256}}, m \in SmallPolicies, st \in Styles, o \in BOOLEAN}
RateServers == {[Base EXCEPT !.dh = d, !.skipRate = sk] : d \in BOOLEAN, sk \in BOOLEAN}
Combined == {[hk |-> <<"rsa-sha2-512", "ssh-ed25519">>, kexOK |-> TRUE, kexGex |-> FALSE, gex |-> {GexSha256}, dh |-> TRUE,
              moduli |-> {2048, 4096}, style |-> "openssh", openssh |-> TRUE, skipRate |-> FALSE]}
FaultFamily == HkFamilyServers \cup GexFaultServers \cup RateServers \cup Combined

\* the C12 oracle: terminal state of every fault-free behaviour
EmitGex == (pc = "done") => PrintT(ToJson([moduli |-> srv.moduli, style |-> srv.style, openssh |-> srv.openssh, gex |-> srv.gex,
                                           asked |-> asked, reported |-> reported, nconn |-> nConn["gex"]]))
=============================================================================
