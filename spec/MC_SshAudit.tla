--------------------------- MODULE MC_SshAudit ---------------------------
(* Model-checking instances of SshAudit: the server families explored by Init. *)
EXTENDS SshAudit, Json, IOUtils

Base == [hk |-> <<>>, kexOK |-> FALSE, kexGex |-> FALSE, gex |-> {}, dh |-> FALSE,
         moduli |-> {}, style |-> "strict", openssh |-> FALSE, skipRate |-> TRUE,
         role |-> "server", proto |-> "2", try |-> "12", cliTimeout |-> FALSE, granular |-> <<>>]
GexSha256 == "diffie-hellman-group-exchange-sha256"
GexSha1 == "diffie-hellman-group-exchange-sha1"

\* C12: every monotone moduli policy, every style, both banners, for sha256 alone, sha1 alone and both
GexFamily ==
    {[Base EXCEPT !.gex = g, !.moduli = m, !.style = st, !.openssh = o] :
        g \in {{GexSha256}, {GexSha1}, {GexSha1, GexSha256}}, m \in SUBSET AllModuli, st \in Styles, o \in BOOLEAN}

\* C09 / C19: fault injection over targeted families
HkLists == {<<>>, <<"ssh-ed25519">>, <<"ssh-rsa", "rsa-sha2-512">>, <<"rsa-sha2-512", "rsa-sha2-256", "ssh-ed25519">>,
            <<"ssh-ed25519", "ssh-rsa-cert-v01@openssh.com", "rsa-sha2-256">>}
HkFamilyServers ==
    {[Base EXCEPT !.hk = h, !.kexOK = k, !.kexGex = kg, !.moduli = IF kg THEN m ELSE {}, !.style = "roundup"] :
        h \in HkLists, k \in BOOLEAN, kg \in BOOLEAN, m \in {{}, {4096}}} \ {s \in {} : TRUE}
SmallPolicies == {{}, {1024}, {2048}, {2048, 4096}, {3072, 8192}}
GexFaultServers ==
    {[Base EXCEPT !.gex = g, !.moduli = m, !.style = st, !.openssh = o] :
        g \in {{GexSha256}, {GexSha1, GexSha256}}, m \in SmallPolicies, st \in Styles, o \in BOOLEAN}
RateServers == {[Base EXCEPT !.dh = d, !.skipRate = sk] : d \in BOOLEAN, sk \in BOOLEAN}
NoServers == {}
Combined == {[hk |-> <<"rsa-sha2-512", "ssh-ed25519">>, kexOK |-> TRUE, kexGex |-> FALSE, gex |-> {GexSha256}, dh |-> TRUE,
              moduli |-> {2048, 4096}, style |-> "openssh", openssh |-> TRUE, skipRate |-> FALSE,
              role |-> "server", proto |-> "2", try |-> "12", cliTimeout |-> FALSE, granular |-> <<>>]}
\* SSH-1 peers under every protocol selection, peers refusing both versions, and client audits (with and without -t)
Full == [hk |-> <<"rsa-sha2-512", "ssh-ed25519">>, kexOK |-> TRUE, kexGex |-> FALSE, gex |-> {GexSha256}, dh |-> TRUE,
         moduli |-> {2048}, style |-> "strict", openssh |-> FALSE, skipRate |-> FALSE,
         role |-> "server", proto |-> "2", try |-> "12", cliTimeout |-> FALSE, granular |-> <<>>]
ProtoServers == {[b EXCEPT !.proto = p, !.try = t] : b \in {Base, Full}, p \in {"1", "2", "none"}, t \in {"12", "1", "2"}}
                  \ {x \in {[b EXCEPT !.proto = "2", !.try = "1"] : b \in {Base, Full}} : TRUE}      \* (-1 against an SSH-2 peer: not modelled)
ClientAudits == {[b EXCEPT !.role = "client", !.cliTimeout = ct] : b \in {Base, Full}, ct \in BOOLEAN}
\* -g request lists against a few moduli policies
GranularRuns == {[Base EXCEPT !.gex = g, !.moduli = m, !.style = st, !.hk = <<"ssh-ed25519">>, !.kexOK = TRUE, !.granular = r] :
                    g \in {{}, {GexSha256}, {GexSha1, GexSha256}}, m \in {{}, {2048}, {2048, 4096}}, st \in {"strict", "openssh"},
                    r \in {<<<<2048, 2048, 2048>>>>, <<<<1024, 1024, 1024>>, <<4096, 4096, 4096>>>>, <<<<1024, 3072, 8192>>, <<2048, 2048, 2048>>, <<512, 512, 512>>>>}}
FaultFamily == HkFamilyServers \cup GexFaultServers \cup RateServers \cup Combined \cup ProtoServers \cup ClientAudits \cup GranularRuns

\* -g (granular group-exchange test; beyond the listed properties, bound in C12): the distinct group sizes a server hands out
\* for a list of (min, pref, max) requests, in the order they are first seen
RECURSIVE Dedup(_, _)
Dedup(q, seen) == IF q = <<>> THEN <<>> ELSE IF Head(q) \in seen THEN Dedup(Tail(q), seen) ELSE <<Head(q)>> \o Dedup(Tail(q), seen \cup {Head(q)})
Granular(sv, reqs) == Dedup(SelectSeq([i \in 1..Len(reqs) |-> Group(sv, reqs[i][1], reqs[i][2], reqs[i][3])], LAMBDA bits : bits > 0), {})
GranularInput == IF "VERIF_GRANULAR" \in DOMAIN IOEnv THEN JsonDeserialize(IOEnv.VERIF_GRANULAR) ELSE <<>>
ASSUME GranularInput = <<>> \/ PrintT(ToJson([k \in 1..Len(GranularInput) |->
            Granular([moduli |-> {GranularInput[k].moduli[i] : i \in 1..Len(GranularInput[k].moduli)}, style |-> GranularInput[k].style], GranularInput[k].reqs)]))

\* reachability (vacuity guards: each of these must be VIOLATED by the model, i.e. the behaviour is reachable)
NeverFallsBack == hs.orphans = 0
NeverClientReport == ~(srv.role = "client" /\ reportShown)
NeverSsh1Report == ~(hs.sshv = 1 /\ reportShown)
NeverGranularFails == ~(srv.granular # <<>> /\ pc = "done" /\ exit = 3)
NeverClientGivesUp == ~(srv.role = "client" /\ pc = "done" /\ exit = 1 /\ nConn["handshake"] = 0)

\* the C12 oracle: terminal state of every fault-free behaviour
EmitGex == (pc = "done") => PrintT(ToJson([moduli |-> srv.moduli, style |-> srv.style, openssh |-> srv.openssh, gex |-> srv.gex,
                                           asked |-> asked, reported |-> reported, nconn |-> nConn["gex"]]))
=============================================================================
