--------------------------- MODULE SshPolicyFile ---------------------------
(***************************************************************************)
(* The policy-file loader (policy.Policy.__init__): what a policy *file*    *)
(* means.  SshPolicy states how a loaded policy judges a peer; this module  *)
(* states how the lines of a file become that policy - the other half of    *)
(* "verdicts follow the documented matching rules" (C06) and of the round    *)
(* trip of C05 (what -M writes is what -P reads).                            *)
(*                                                                         *)
(* The loader is a loop over lines, and the model is that loop: one step per *)
(* line (Step), a final step that insists on a name and a version (Finish).  *)
(* A file is a sequence of line tokens drawn from Vocabulary; what a token    *)
(* *means* is given here (which field it sets, to what, or why it is        *)
(* refused), what it *looks like* is given by the harness (checks/c06.py,    *)
(* LINES), which writes the file, loads it with the real Policy class and    *)
(* compares the object field by field with the record emitted by TLC.        *)
(*                                                                         *)
(* Modelled as the code behaves, including what is surprising:               *)
(*  - flags are only ever raised: "client policy = false" after "= true"    *)
(*    leaves a client policy; any value but true/TRUE/True is ignored;        *)
(*  - an old-style cakey_size_<type> line takes the host key size from the   *)
(*    *most recent* hostkey_size_* line (a local variable of the loop), and  *)
(*    is refused - by an UnboundLocalError - when there was none;            *)
(*  - host_key_sizes / dh_modulus_sizes (new style) replace the whole map,   *)
(*    old-style lines add to it;                                            *)
(*  - an empty list value is a list holding one empty name.                  *)
(***************************************************************************)
EXTENDS Integers, Sequences, FiniteSets, TLC, Json

CONSTANTS Vocabulary,      \* the line tokens files are made of (a subset of AllTokens)
          MaxLines,        \* body lines per file
          Headers          \* the possible first lines of a file: a set of sequences of tokens, e.g. {<<>>, <<"name", "version">>}

AllTokens == {"comment", "blank", "noeq", "unknown", "unknown-case",
              "name", "name-other", "name-unquoted", "name-empty", "name-escaped", "version", "version2",
              "banner", "banner-unquoted", "comp",
              "key", "key2", "opt", "kex", "kex-gss", "enc", "enc-spaces", "enc-indented", "enc-single", "enc-empty", "mac",
              "hk-old-rsa", "hk-old-ed", "hk-old-bad", "ca-old-rsacert", "ca-old-edcert", "hks-new", "hks-bad",
              "dh-old", "dh-old2", "dh-new", "dh-bad",
              "client", "client-false", "client-upper", "subset", "subset-false", "larger", "larger-yes"}
ASSUME Vocabulary \subseteq AllTokens

HkTypes == {"ssh-rsa", "ssh-ed25519", "ssh-rsa-cert-v01@openssh.com", "ssh-ed25519-cert-v01@openssh.com"}
DhTypes == {"diffie-hellman-group-exchange-sha256", "diffie-hellman-group-exchange-sha1"}
NoHk == [size |-> -1, catype |-> "", casize |-> 0]          \* no entry for this host key type
NoText == <<>>                                               \* a text field that was never set; <<t>> = set to t
NoList == <<>>                                               \* a list field that was never set; <<l>> = set to the list l

Fresh == [name |-> NoText, version |-> NoText, banner |-> NoText,
          comp |-> NoList, key |-> NoList, opt |-> NoList, kex |-> NoList, enc |-> NoList, mac |-> NoList,
          hksSet |-> FALSE, hks |-> [t \in HkTypes |-> NoHk],
          dhsSet |-> FALSE, dhs |-> [t \in DhTypes |-> -1],
          server |-> TRUE, subset |-> FALSE, larger |-> FALSE,
          lastHk |-> -1,          \* the loop's local variable hostkey_size (-1: not yet bound)
          warned |-> 0,           \* deprecation warnings printed
          status |-> "loading", reason |-> ""]

Refuse(s, why) == [s EXCEPT !.status = "refused", !.reason = why]

\* what each kind of line does to the object being built
TextOf(t) == CASE t = "name" -> "verif" [] t = "name-other" -> "other" [] t = "name-empty" -> "" [] t = "name-escaped" -> "a\"b"
               [] t = "version" -> "1" [] t = "version2" -> "2" [] t = "banner" -> "SSH-2.0-OpenSSH_9.6"
ListOf(t) == CASE t = "comp" -> <<"none", "zlib@openssh.com">>
               [] t = "key" -> <<"ssh-ed25519", "rsa-sha2-512">> [] t = "key2" -> <<"ssh-ed25519">>
               [] t = "opt" -> <<"ssh-ed25519-cert-v01@openssh.com">>
               [] t = "kex" -> <<"curve25519-sha256", "diffie-hellman-group-exchange-sha256">>
               [] t = "kex-gss" -> <<"gss-group14-sha256-toWM5Slw5Ew8Mqkay+al2g==", "curve25519-sha256">>
               [] t = "enc" -> <<"aes256-ctr", "aes128-ctr">> [] t = "enc-spaces" -> <<"aes256-ctr", "aes128-ctr">>
               [] t = "enc-indented" -> <<"aes128-ctr">> [] t = "enc-single" -> <<"chacha20-poly1305@openssh.com">>
               [] t = "enc-empty" -> <<"">>
               [] t = "mac" -> <<"hmac-sha2-256-etm@openssh.com">>
ListField(t) == CASE t = "comp" -> "comp" [] t \in {"key", "key2"} -> "key" [] t = "opt" -> "opt" [] t \in {"kex", "kex-gss"} -> "kex"
                  [] t \in {"enc", "enc-spaces", "enc-indented", "enc-single", "enc-empty"} -> "enc" [] t = "mac" -> "mac"
NewHks == [t \in HkTypes |-> CASE t = "ssh-rsa" -> [size |-> 3072, catype |-> "", casize |-> 0]
                               [] t = "ssh-rsa-cert-v01@openssh.com" -> [size |-> 3072, catype |-> "ssh-rsa", casize |-> 4096]
                               [] OTHER -> NoHk]
NewDhs == [t \in DhTypes |-> IF t = "diffie-hellman-group-exchange-sha256" THEN 3072 ELSE -1]

Step(s, t) ==
    IF s.status # "loading" THEN s                                           \* the exception has left the loop already
    ELSE CASE t \in {"comment", "blank"} -> s
      [] t = "noeq" -> Refuse(s, "unparsable-line")
      [] t \in {"unknown", "unknown-case"} -> Refuse(s, "invalid-field")
      [] t \in {"name-unquoted", "banner-unquoted"} -> Refuse(s, "unquoted")
      [] t \in {"name", "name-other", "name-empty", "name-escaped"} -> [s EXCEPT !.name = <<TextOf(t)>>]
      [] t \in {"version", "version2"} -> [s EXCEPT !.version = <<TextOf(t)>>]
      [] t = "banner" -> [s EXCEPT !.banner = <<TextOf(t)>>]
      [] t \in {"comp", "key", "key2", "opt", "kex", "kex-gss", "enc", "enc-spaces", "enc-indented", "enc-single", "enc-empty", "mac"} ->
             [s EXCEPT ![ListField(t)] = <<ListOf(t)>>]
      \* old style: one line per host key type; the size is also left in the loop's local variable
      [] t = "hk-old-rsa" -> [s EXCEPT !.hksSet = TRUE, !.hks["ssh-rsa"] = [size |-> 2048, catype |-> "", casize |-> 0], !.lastHk = 2048, !.warned = @ + 1]
      [] t = "hk-old-ed" -> [s EXCEPT !.hksSet = TRUE, !.hks["ssh-ed25519"] = [size |-> 256, catype |-> "", casize |-> 0], !.lastHk = 256, !.warned = @ + 1]
      [] t = "hk-old-bad" -> Refuse([s EXCEPT !.warned = @ + 1], "bad-number")
      [] t = "ca-old-rsacert" -> IF s.lastHk = -1 THEN Refuse([s EXCEPT !.warned = @ + 1], "cakey-before-hostkey")
                                 ELSE [s EXCEPT !.hksSet = TRUE, !.warned = @ + 1,
                                                !.hks["ssh-rsa-cert-v01@openssh.com"] = [size |-> s.lastHk, catype |-> "ssh-rsa", casize |-> 4096]]
      [] t = "ca-old-edcert" -> IF s.lastHk = -1 THEN Refuse([s EXCEPT !.warned = @ + 1], "cakey-before-hostkey")
                                ELSE [s EXCEPT !.hksSet = TRUE, !.warned = @ + 1,
                                               !.hks["ssh-ed25519-cert-v01@openssh.com"] = [size |-> s.lastHk, catype |-> "ssh-ed25519", casize |-> 256]]
      \* new style: the whole map at once
      [] t = "hks-new" -> [s EXCEPT !.hksSet = TRUE, !.hks = NewHks]
      [] t = "hks-bad" -> Refuse(s, "bad-json")
      [] t = "dh-old" -> [s EXCEPT !.dhsSet = TRUE, !.dhs["diffie-hellman-group-exchange-sha256"] = 2048, !.warned = @ + 1]
      [] t = "dh-old2" -> [s EXCEPT !.dhsSet = TRUE, !.dhs["diffie-hellman-group-exchange-sha1"] = 4096, !.warned = @ + 1]
      [] t = "dh-new" -> [s EXCEPT !.dhsSet = TRUE, !.dhs = NewDhs]
      [] t = "dh-bad" -> Refuse([s EXCEPT !.warned = @ + 1], "bad-number")
      \* flags: raised by "true" in any case, never lowered
      [] t \in {"client", "client-upper"} -> [s EXCEPT !.server = FALSE]
      [] t = "subset" -> [s EXCEPT !.subset = TRUE]
      [] t = "larger" -> [s EXCEPT !.larger = TRUE]
      [] t \in {"client-false", "subset-false", "larger-yes"} -> s

Finish(s) == IF s.status # "loading" THEN s
             ELSE IF s.name = NoText THEN Refuse(s, "no-name")
             ELSE IF s.version = NoText THEN Refuse(s, "no-version")
             ELSE [s EXCEPT !.status = "loaded"]

RECURSIVE Run(_, _)
Run(s, f) == IF f = <<>> THEN s ELSE Run(Step(s, Head(f)), Tail(f))
Load(f) == Finish(Run(Fresh, f))

---------------------------------------------------------------------------
VARIABLES file,    \* the lines of the file (tokens)
          i,       \* the line the loop is at
          obj      \* the Policy object under construction
vars == <<file, i, obj>>

Bodies == UNION {[1..k -> Vocabulary] : k \in 0..MaxLines}
Init == /\ \E h \in Headers, b \in Bodies : file = h \o b
        /\ i = 1 /\ obj = Fresh
Line == /\ obj.status = "loading" /\ i <= Len(file)
        /\ obj' = Step(obj, file[i]) /\ i' = i + 1 /\ UNCHANGED file
End == /\ obj.status = "loading" /\ i > Len(file)
       /\ obj' = Finish(obj) /\ UNCHANGED <<file, i>>
Next == Line \/ End
Spec == Init /\ [][Next]_vars
Done == obj.status # "loading"

---------------------------------------------------------------------------
(* laws *)
Inert(t) == t \in {"comment", "blank"}
Strip(f) == SelectSeq(f, LAMBDA t : ~Inert(t))
\* the machine computes Load
MachineIsLoad == Done => obj = Load(file)
\* comments and blank lines mean nothing, wherever they stand
CommentsAreInert == Done => Load(Strip(file)) = obj
\* a loaded policy has a name and a version; a refused one says why
NamedAndVersioned == Done => /\ (obj.status = "loaded" => obj.name # NoText /\ obj.version # NoText /\ obj.reason = "")
                             /\ (obj.status = "refused" => obj.reason # "")
\* the first offending line decides: what follows it is never looked at
FirstErrorWins == (Done /\ obj.status = "refused" /\ obj.reason \notin {"no-name", "no-version"}) =>
                     \E k \in 1..Len(file) : /\ Run(Fresh, SubSeq(file, 1, k)).status = "refused"
                                             /\ Run(Fresh, SubSeq(file, 1, k)) = [obj EXCEPT !.status = "refused"]
                                             /\ (k > 1 => Run(Fresh, SubSeq(file, 1, k - 1)).status = "loading")
\* what a line touches; in a file that loads, lines that touch different things may be written in either order
Touches(t) == CASE Inert(t) -> {}
                [] t \in {"name", "name-other", "name-empty", "name-escaped"} -> {"name"}
                [] t \in {"version", "version2"} -> {"version"}
                [] t = "banner" -> {"banner"}
                [] t \in {"comp", "key", "key2", "opt", "kex", "kex-gss", "enc", "enc-spaces", "enc-indented", "enc-single", "enc-empty", "mac"} -> {ListField(t)}
                [] t \in {"hk-old-rsa", "hk-old-ed", "ca-old-rsacert", "ca-old-edcert", "hks-new"} -> {"hks"}
                [] t \in {"dh-old", "dh-old2", "dh-new"} -> {"dhs"}
                [] t \in {"client", "client-upper", "client-false"} -> {"server"}
                [] t \in {"subset", "subset-false"} -> {"subset"}
                [] t \in {"larger", "larger-yes"} -> {"larger"}
                [] OTHER -> {"*"}                                            \* refusing lines: order matters (the first one wins)
Swap(f, k) == [j \in 1..Len(f) |-> IF j = k THEN f[k + 1] ELSE IF j = k + 1 THEN f[k] ELSE f[j]]
IndependentLinesCommute == (Done /\ obj.status = "loaded") => \A k \in 1..(Len(file) - 1) :
                              ("*" \notin Touches(file[k]) \cup Touches(file[k + 1]) /\ Touches(file[k]) \cap Touches(file[k + 1]) = {})
                                 => Load(Swap(file, k)) = obj
\* flags are only ever raised (action property)
FlagsOnlyRise == [][/\ (obj.subset => obj'.subset) /\ (obj.larger => obj'.larger) /\ (~obj.server => ~obj'.server)]_vars
\* a certificate's old-style entry never invents a host key size: it is the size of a hostkey_size_ line of the same file
OldCaSizeComesFromTheFile == Done => \A t \in {"ssh-rsa-cert-v01@openssh.com", "ssh-ed25519-cert-v01@openssh.com"} :
                                 obj.hks[t].size \in {-1, 256, 2048, 3072}

Emit == Done => PrintT(ToJson([file |-> file, obj |-> obj]))
=============================================================================
