------------------------------ MODULE SshSched ------------------------------
(***************************************************************************)
(* Schedules of the worker threads of a multi-target run (C07, C08).        *)
(*                                                                         *)
(* SshMulti models *what* the workers share (the per-thread rating tables,  *)
(* the configuration object, the collection of results) and TLC explores     *)
(* every interleaving of its coarse actions.  The code has many more points  *)
(* at which one worker can overtake another - every network operation of an  *)
(* audit - and state that SshMulti does not know about can be shared there   *)
(* (a class attribute, a module-level cache).  This module generates the     *)
(* schedules with which the harness drives the real worker threads: worker w *)
(* performs Ops[w] network operations; at each one the scheduler decides who *)
(* goes next; a *preemption* is a switch away from a worker that could have  *)
(* continued.  TLC enumerates every schedule with at most MaxPreempt         *)
(* preemptions and emits it as a plan (segments <<worker, n>>: "let w        *)
(* perform n operations"; n = -1: "until it is done"), and the harness        *)
(* (harness/sched.py) stops the real threads at their socket operations and  *)
(* releases them in that order.  What must hold under every plan is the      *)
(* property itself: each target's result equals its single-target result.    *)
(*                                                                         *)
(* What the bound buys is stated as a theorem about the generator and        *)
(* checked by TLC (GridCovered, in MC form below): with two workers and two   *)
(* preemptions every pair of positions (worker 1 has done i operations,       *)
(* worker 2 has done j) is visited by some plan - so any interference that    *)
(* needs "1 is exactly here while 2 is exactly there" is exercised, whatever  *)
(* the state it goes through.                                                *)
(***************************************************************************)
EXTENDS Integers, Sequences, FiniteSets, TLC, Json

CONSTANTS Ops,            \* <<n1, n2, ...>>: network operations of each worker (measured on single-target runs)
          MaxPreempt      \* preemptions per schedule

W == 1..Len(Ops)

VARIABLES pos,            \* pos[w]: operations worker w has performed
          cur,            \* the worker that ran last (0: none yet)
          pre,            \* preemptions so far
          plan,           \* the schedule so far, as segments <<w, n>>
          seen            \* the positions visited (history; for GridCovered)
vars == <<pos, cur, pre, plan, seen>>

Done(w) == pos[w] = Ops[w]
AllDone == \A w \in W : Done(w)

Init == /\ pos = [w \in W |-> 0] /\ cur = 0 /\ pre = 0 /\ plan = <<>> /\ seen = {[w \in W |-> 0]}

\* worker w performs its next operation
Step(w) ==
    /\ ~Done(w)
    /\ \/ cur = w                                             \* it simply continues
       \/ cur = 0                                             \* the first choice is free
       \/ cur # w /\ cur # 0 /\ Done(cur)                     \* the one before is done: no preemption
       \/ cur # w /\ cur # 0 /\ ~Done(cur) /\ pre < MaxPreempt
    /\ pre' = IF cur # w /\ cur # 0 /\ ~Done(cur) THEN pre + 1 ELSE pre
    /\ pos' = [pos EXCEPT ![w] = @ + 1]
    /\ cur' = w
    /\ plan' = IF cur = w THEN [plan EXCEPT ![Len(plan)] = <<w, plan[Len(plan)][2] + 1>>] ELSE Append(plan, <<w, 1>>)
    /\ seen' = seen \cup {pos'}

Next == \E w \in W : Step(w)
Spec == Init /\ [][Next]_vars

\* every worker's operations happen, in its own order, exactly once: the plan is a schedule of the program
RECURSIVE SumFor(_, _, _)
SumFor(p, w, k) == IF k = 0 THEN 0 ELSE (IF p[k][1] = w THEN p[k][2] ELSE 0) + SumFor(p, w, k - 1)
PlanIsSchedule == \A w \in W : SumFor(plan, w, Len(plan)) = pos[w]
PreemptBound == pre <= MaxPreempt
\* a finished plan, with the last segment of each worker left open (-1) so that a worker with more operations than measured still finishes
RECURSIVE LastSegOf(_, _, _)
LastSegOf(p, w, k) == IF k = 0 THEN 0 ELSE IF p[k][1] = w THEN k ELSE LastSegOf(p, w, k - 1)
Open(p) == [k \in 1..Len(p) |-> IF LastSegOf(p, p[k][1], Len(p)) = k THEN <<p[k][1] - 1, -1>> ELSE <<p[k][1] - 1, p[k][2]>>]
Emit == AllDone => PrintT(ToJson([plan |-> Open(plan), preemptions |-> pre]))

\* the coverage claim, for two workers: checked as an invariant that must FAIL for every pair (i, j) - the harness asks TLC for the
\* set of visited positions instead: at the end of every schedule `seen` is printed and the union must be the whole grid
EmitSeen == AllDone => PrintT(ToJson([seen |-> {<<s[1], s[2]>> : s \in seen}]))
=============================================================================
