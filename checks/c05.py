"""C05 - a policy made from a target passes on that target and fails on any drift.

SshPolicy!Create / Load / Errors: the policy --make-policy must produce for a peer is Create(peer) (its lists and
measured sizes, exact matching) and loading the written file must give that record back.  TLC checks RoundTrip on
every peer and Drift on every single-attribute perturbation (the perturbed peer must fail and the error must name
the field) and supplies the expected mismatched fields.  Replay through the real CLI: -M file against a fake server
built from the peer, then -P file against the same server (must pass, no errors) and against each perturbed server
(different KEXINIT, RSA modulus length, CA key, group).  Peers: small-universe shapes with real names, names over
the RFC 4251 character set (=, +, /, @, #, ", :), every gss-* spelling of the database.
Built-in policies: a peer configured exactly as each policy lists must pass `-P "<name>"`.
"""
import json
import random

from harness import common, tlc, runner, peers
from checks import rating, c06

HOST = rating.HOST
FIELD_OF = {'kex': 'Key exchanges', 'key': 'Host keys', 'enc': 'Ciphers', 'mac': 'MACs'}


def make_peers(tb, rnd, tier):
    P = []

    def add(kex, key, enc, mac, hks=None, dhs=None, banner='OpenSSH_9.6'):
        P.append({'banner': banner, 'comp': ['none'], 'kex': kex, 'key': key, 'enc': enc, 'mac': mac, 'hks': hks or {}, 'dhs': dhs or {}})
    ed = {'ssh-ed25519': {'size': 256, 'catype': '', 'casize': 0}}

    def rsa(names, size):
        return {n: {'size': size, 'catype': '', 'casize': 0} for n in names}
    add(['curve25519-sha256', 'diffie-hellman-group16-sha512'], ['ssh-ed25519'], ['aes128-ctr', 'aes256-ctr'], ['hmac-sha2-256', 'hmac-sha2-512'], dict(ed))
    add(['curve25519-sha256', 'kex-strict-s-v00@openssh.com'], ['rsa-sha2-512', 'rsa-sha2-256', 'ssh-ed25519'],
        ['chacha20-poly1305@openssh.com', 'aes128-gcm@openssh.com'], ['umac-128-etm@openssh.com', 'hmac-sha2-256-etm@openssh.com'],
        dict(ed, **rsa(['rsa-sha2-512', 'rsa-sha2-256', 'ssh-rsa'], 3072)))
    add(['curve25519-sha256', 'diffie-hellman-group-exchange-sha256'], ['rsa-sha2-512', 'ssh-ed25519'], ['aes128-ctr'], ['hmac-sha2-256'],
        dict(ed, **rsa(['rsa-sha2-512', 'rsa-sha2-256', 'ssh-rsa'], 2048)), {'diffie-hellman-group-exchange-sha256': 3072})
    add(['curve25519-sha256'], ['ssh-ed25519', 'ssh-rsa-cert-v01@openssh.com'], ['aes128-ctr', 'aes192-ctr', 'aes256-ctr'], ['hmac-sha2-512'],
        dict(ed, **{'ssh-rsa-cert-v01@openssh.com': {'size': 3072, 'catype': 'ssh-rsa', 'casize': 4096}}))
    add(['curve25519-sha256'], ['ssh-ed25519-cert-v01@openssh.com', 'ssh-ed25519'], ['aes128-ctr'], ['hmac-sha2-256', 'hmac-sha1'],
        dict(ed, **{'ssh-ed25519-cert-v01@openssh.com': {'size': 256, 'catype': 'ssh-ed25519', 'casize': 256}}))
    add(['diffie-hellman-group14-sha256', 'diffie-hellman-group-exchange-sha256', 'diffie-hellman-group-exchange-sha1'], ['ssh-ed25519'],
        ['aes128-ctr'], ['hmac-sha2-256'], dict(ed), {'diffie-hellman-group-exchange-sha256': 2048, 'diffie-hellman-group-exchange-sha1': 2048},
        banner='Generic_1.0')
    # group sizes that differ between the two group-exchange methods (RFC 4419 leaves the choice of group to the server, per request): each
    # method's size is measured, recorded and compared on its own
    add(['curve25519-sha256', 'diffie-hellman-group-exchange-sha1', 'diffie-hellman-group-exchange-sha256'], ['ssh-ed25519'],
        ['aes128-ctr'], ['hmac-sha2-256'], dict(ed), {'diffie-hellman-group-exchange-sha256': 3072, 'diffie-hellman-group-exchange-sha1': 2048},
        banner='Generic_1.0')
    add(['diffie-hellman-group-exchange-sha256', 'diffie-hellman-group-exchange-sha1', 'curve25519-sha256'], ['ssh-ed25519'],
        ['aes128-ctr'], ['hmac-sha2-256'], dict(ed), {'diffie-hellman-group-exchange-sha256': 2048, 'diffie-hellman-group-exchange-sha1': 4096},
        banner='Generic_1.0')
    # a server that enforces the requested group-exchange range strictly (refuses the opening 512..1536 request)
    add(['curve25519-sha256', 'diffie-hellman-group-exchange-sha256'], ['rsa-sha2-512', 'ssh-ed25519'], ['aes128-ctr'], ['hmac-sha2-256'],
        dict(ed, **rsa(['rsa-sha2-512', 'rsa-sha2-256', 'ssh-rsa'], 3072)), {'diffie-hellman-group-exchange-sha256': 3072})
    P[-1]['gex_style'] = 'strict'
    # OpenSSH's own group selection (requests below 2048 are clamped, a range holding none of its moduli gets the built-in fallback group):
    # the tool's follow-up probe is what measures these servers, and the policy records *that* size
    # (3072 only: such a server answers every request its moduli cannot satisfy with a fallback group, so a 5120-bit modulus would be
    # measured as 4096 - a limit of the measurement that C12 models, not a drift the policy could see)
    for bits in (3072,):
        add(['curve25519-sha256', 'diffie-hellman-group-exchange-sha256'], ['rsa-sha2-512', 'ssh-ed25519'], ['aes128-ctr'], ['hmac-sha2-256'],
            dict(ed, **rsa(['rsa-sha2-512', 'rsa-sha2-256', 'ssh-rsa'], 3072)), {'diffie-hellman-group-exchange-sha256': bits})
        P[-1]['gex_style'] = 'openssh'
    # a server that advertises RSA host keys and hangs up when asked for one: nothing was measured for them (the tool keeps a size-0
    # placeholder); the policy made from it still loads and passes on it
    add(['curve25519-sha256'], ['rsa-sha2-512', 'rsa-sha2-256', 'ssh-ed25519'], ['aes128-ctr'], ['hmac-sha2-256'],
        dict(ed, **rsa(['rsa-sha2-512', 'rsa-sha2-256', 'ssh-rsa'], 0)))
    # servers that send SSH_MSG_DEBUG messages in front of their key-exchange replies
    add(['curve25519-sha256', 'diffie-hellman-group-exchange-sha256'], ['rsa-sha2-512', 'ssh-ed25519-cert-v01@openssh.com', 'ssh-ed25519'], ['aes128-ctr'], ['hmac-sha2-256'],
        dict(ed, **dict(rsa(['rsa-sha2-512', 'rsa-sha2-256', 'ssh-rsa'], 3072), **{'ssh-ed25519-cert-v01@openssh.com': {'size': 256, 'catype': 'ssh-rsa', 'casize': 4096}})),
        {'diffie-hellman-group-exchange-sha256': 4096})
    P[-1]['debug_kinds'] = {'kexreply': 2, 'gexgroup': 2, 'gexreply': 3}
    # an empty name-list is legal on the wire (an AEAD-only server needs no MAC): the tool reads it as the single empty name
    add(['curve25519-sha256'], ['ssh-ed25519'], ['aes256-gcm@openssh.com', 'chacha20-poly1305@openssh.com'], [''], dict(ed))
    add(['curve25519-sha256', 'sntrup761x25519-sha512@openssh.com'], ['ssh-ed25519'], [''], ['hmac-sha2-256'], dict(ed))
    # every gss-* spelling of the database
    gss = [n[:-1] + t for n in sorted(tb['db2']['kex']) if n.startswith('gss-') and n.endswith('*')
           for t in (['toWM5Slw5Ew8Mqkay+al2g=='] if tier == 'quick' else ['toWM5Slw5Ew8Mqkay+al2g==', 'A/vxljAEU54gt9a48EiANQ=='])]
    for i in range(0, len(gss), 3):
        add(['curve25519-sha256'] + gss[i:i + 3], ['ssh-ed25519'], ['aes128-ctr'], ['hmac-sha2-256'], dict(ed))
    # names over the RFC 4251 character set
    charset = ''.join(chr(c) for c in range(33, 127) if chr(c) not in ',')
    for _ in range(6 if tier == 'quick' else 40):
        def nm():
            return ''.join(rnd.choice(charset) for _ in range(rnd.randint(3, 12))) + rnd.choice(['', '@example.org', '=', '==', '+/='])
        add(['curve25519-sha256', nm()], ['ssh-ed25519', nm()], ['aes128-ctr', nm(), nm()], [nm(), 'hmac-sha2-256'], dict(ed))
    # random real-name peers
    db = tb['db2']
    probeable = set(rating.DEFAULT_HK)
    for _ in range(6 if tier == 'quick' else 60):
        kex = ['curve25519-sha256'] + rnd.sample([n for n in sorted(db['kex']) if not n.startswith('gss-') and 'group-exchange' not in n], rnd.randint(0, 3))
        key = ['ssh-ed25519'] + rnd.sample(['rsa-sha2-512', 'rsa-sha2-256', 'ssh-rsa'], rnd.randint(0, 2))
        enc = rnd.sample(sorted(db['enc']), rnd.randint(1, 4))
        mac = rnd.sample(sorted(db['mac']), rnd.randint(1, 3))
        h = dict(ed)
        if len(key) > 1:
            h.update(rsa(['rsa-sha2-512', 'rsa-sha2-256', 'ssh-rsa'], rnd.choice([2048, 3072, 4096])))
        add(kex, key, enc, mac, h)
    return P


def perturbations(q, rnd):
    """[(tag, drift-field-prefix, perturbed peer)] - one covered attribute changed at a time."""
    out = []
    import copy
    extra = {'kex': 'diffie-hellman-group18-sha512', 'key': 'ssh-ed448', 'enc': 'aes256-gcm@openssh.com', 'mac': 'hmac-sha2-512-etm@openssh.com'}
    for f in ('kex', 'key', 'enc', 'mac'):
        if extra[f] not in q[f]:
            p = copy.deepcopy(q)
            p[f].insert(rnd.randrange(len(p[f]) + 1), extra[f])
            if f == 'key':
                p['hks'][extra[f]] = {'size': 448, 'catype': '', 'casize': 0}
            out.append(('add-' + f, FIELD_OF[f], p))
        if len(q[f]) > 1:
            p = copy.deepcopy(q)
            i = rnd.randrange(len(p[f]))
            if not (f == 'kex' and p[f][i] == 'curve25519-sha256') and not (f == 'key' and p[f][i] == 'ssh-ed25519'):
                removed = p[f].pop(i)
                if f == 'key':
                    fam = ('ssh-rsa', 'rsa-sha2-256', 'rsa-sha2-512')
                    if removed in fam and not any(x in fam for x in p[f]):
                        for x in fam:
                            p['hks'].pop(x, None)
                    elif removed not in fam:
                        p['hks'].pop(removed, None)
                out.append(('remove-' + f, FIELD_OF[f], p))
            p = copy.deepcopy(q)
            i = rnd.randrange(len(p[f]) - 1)
            if p[f][i] != p[f][i + 1]:
                p[f][i], p[f][i + 1] = p[f][i + 1], p[f][i]
                out.append(('swap-' + f, FIELD_OF[f], p))
    fam = [t for t in ('ssh-rsa', 'rsa-sha2-256', 'rsa-sha2-512') if t in q['hks']]
    if fam and any(t in q['key'] for t in fam):
        for d in (-1024, 1024):
            if q['hks'][fam[0]]['size'] + d <= 0:
                continue            # (a key that is withheld cannot get smaller)
            p = copy.deepcopy(q)
            for t in fam:
                p['hks'][t]['size'] += d
            out.append(('rsa-size%+d' % d, 'Host key (', p))
    for t, v in q['hks'].items():
        if v['catype']:
            if v['catype'] == 'ssh-rsa':
                for d in (-1024, 1024):
                    p = copy.deepcopy(q)
                    p['hks'][t]['casize'] += d
                    out.append(('ca-size%+d' % d, 'CA signature size', p))
            p = copy.deepcopy(q)
            if v['catype'] == 'ssh-rsa':
                p['hks'][t]['catype'], p['hks'][t]['casize'] = 'ssh-ed25519', 256
            else:
                p['hks'][t]['catype'], p['hks'][t]['casize'] = 'ssh-rsa', 3072
            out.append(('ca-type', 'CA signature type', p))
            if t.startswith('ssh-rsa-cert'):
                p = copy.deepcopy(q)
                p['hks'][t]['size'] += 1024
                out.append(('cert-size+1024', 'Host key (', p))
    for a in q['dhs']:
        for d in (-1024, 1024):
            p = copy.deepcopy(q)
            p['dhs'][a] += d
            out.append(('modulus%+d' % d, 'Group exchange (', p))
    return out


def server_of(q):
    hk = {t: rating.hostkey_blob(t, (v['size'], v['catype'], v['casize'])) for t, v in q['hks'].items() if v['size'] > 0}      # (size 0: advertised, never presented)
    cfg = peers.ServerCfg(banner=('SSH-2.0-' + q['banner']).encode(), kexinit={k: ([] if q[k] == [''] else q[k]) for k in ('kex', 'key', 'enc', 'mac', 'comp')}, hostkeys=hk)
    if q['dhs']:
        cfg['gex'] = {'per_alg': {a: {'style': q.get('gex_style', 'roundup'), 'moduli': [b]} for a, b in q['dhs'].items()}}
    if q.get('debug_kinds'):
        cfg['debug_kinds'] = dict(q['debug_kinds'])        # SSH_MSG_DEBUG messages in front of probe replies (legal; must not cost a measurement)
    return cfg


def run(tier):
    ck = common.Check('C05', tier)
    rnd = random.Random(ck.seed)
    tb = rating.tables()
    P = make_peers(tb, rnd, tier)
    # batch 1: --make-policy
    scs = [{'argv': ['-n', '--skip-rate-test', '-M', '{tmp}/made.txt', HOST], 'servers': {(HOST, 22): server_of(q)}, 'collect': ['made.txt']} for q in P]
    made = runner.run_many(scs)
    cases, plan = [], []
    for i, (q, r) in enumerate(zip(P, made)):
        ck.evaluated()
        if r.get('harness_error') or r.get('hang'):
            raise common.Machinery('make-policy run failed: %r' % (r.get('harness_error') or 'hang'))
        text = r['files'].get('made.txt')
        replay = {'peer': q, 'exit': r['exit'], 'stdout': r['stdout'][-1500:], 'policy_file': text}
        if r['exit'] != 0 or text is None:
            ck.violation('make-policy-failed exit=%s' % r['exit'], '-M against the peer did not write a policy', replay)
            continue
        cases.append({'id': len(cases) + 1, 'base': q, 'peer': q, 'drift': ''})
        plan.append((i, 'same', text, q))
        for tag, field, p2 in perturbations(q, rnd):
            cases.append({'id': len(cases) + 1, 'base': q, 'peer': p2, 'drift': field})
            plan.append((i, tag, text, p2))
    cfg = 'SPECIFICATION Spec\nCONSTANTS\n Mode = "oracle"\n MaxLen = 2\nINVARIANT RoundTrip\nINVARIANT Drift\nINVARIANT Emit\n'
    res = tlc.run('SshPolicy', cfg, generated={'cases.json': json.dumps(cases)}, env={'VERIF_CASES': 'cases.json'}, workers=1)
    ck.add_tlc(res)
    common.require(res.ok, 'SshPolicy: %s violated on the rule itself (a perturbation the rule does not catch?):\n%s' % (res.violated, '\n'.join(res.trace[-40:])))
    exp = {p['id']: p for p in res.prints if isinstance(p, dict) and 'errors' in p}
    common.require(len(exp) == len(cases), 'TLC emitted %d verdicts for %d cases' % (len(exp), len(cases)))
    ck.log('%d peers, %d (policy, peer) cases: RoundTrip and Drift hold on the rule' % (len(P), len(cases)))
    # batch 2: -P with the written file
    scs2 = []
    for (i, tag, text, p2) in plan:
        for js in (False, True):
            scs2.append({'argv': (['-j'] if js else ['-n']) + ['--skip-rate-test', '-P', '{tmp}/made.txt', HOST],
                         'servers': {(HOST, 22): server_of(p2)}, 'files': {'made.txt': text}})
    res2 = runner.run_many(scs2)
    k = 0
    for c, (i, tag, text, p2) in zip(cases, plan):
        e = exp[c['id']]
        for js in (False, True):
            r = res2[k]
            k += 1
            ck.evaluated()
            if r.get('harness_error') or r.get('hang'):
                raise common.Machinery('policy run failed: %r' % (r.get('harness_error') or 'hang'))
            ck.nontrivial((i, tag, js))
            replay = {'base_peer': c['base'], 'audited_peer': p2, 'perturbation': tag, 'policy_file': text, 'expected': e, 'exit': r['exit'],
                      'stdout': r['stdout'][-2500:]}
            kind = _name_kind(c['base'])
            if r['exit'] not in (0, 3):
                what = 'policy-unloadable' if 'Error while loading policy file' in r['stdout'] else 'policy-audit-exit=%s' % r['exit']
                ck.violation('%s names=%s' % (what, kind), '[%s] -P with the policy written by -M ends with status %s: %s' % (tag, r['exit'], r['stdout'].strip().split('\n')[0][:200]), replay)
                continue
            want_exit = 0 if e['passed'] else 3
            if r['exit'] != want_exit:
                ck.violation(('made-policy-fails-on-its-own-target' if tag == 'same' else 'drift-not-detected kind=%s' % _gen(tag)) + ' names=%s' % kind,
                             '[%s] exit %s, the rule says %s (%r)' % (tag, r['exit'], 'passed' if e['passed'] else 'failed', sorted(e['errors'])), replay)
                continue
            if js:
                doc = json.loads(r['stdout'])
                got = sorted({x['mismatched_field'] for x in doc.get('errors', [])})
                if got != sorted(e['errors']):
                    ck.violation('mismatched-fields kind=%s' % _gen(tag), '[%s] JSON names %r, the rule names %r' % (tag, got, sorted(e['errors'])), replay)
                    continue
            ck.cov['traces_validated_against_impl'] += 1
    targets_leg(ck, cases, plan, exp, tier)
    client_leg(ck, rnd, tier)
    overwrite_leg(ck, P)
    builtin_leg(ck, tb, tier)
    ck.sample({'peer': P[1], 'policy_file_head': (made[1]['files'].get('made.txt') or '')[-600:]})
    ck.cov['rule'] = ('peers: boundary shapes with real names, every gss-* spelling, names over the RFC 4251 charset, random database names; for each: -M, then -P on the '
                      'same server and on every single-attribute perturbation {add, remove, swap} x {kex, key, enc, mac}, RSA size +-, CA size +-, CA type, cert size, '
                      'modulus +-; expected verdict/fields from TLC (SshPolicy: Create, Load, Errors; laws RoundTrip, Drift); all built-in policies against their own peer')
    # "every built-in policy is passed by a peer configured exactly as that policy lists" - also when the peer offers the policy's optional host keys
    from checks import c06
    c06.builtin_optional_leg(ck, tier)
    return ck.finish()


def targets_leg(ck, cases, plan, exp, tier):
    """The made policy applied to several targets in one invocation (-P file -T list): the target it was made from passes with an
    empty error list and every drifted target fails naming its own field, whatever the other targets of the run are."""
    from checks import multi
    by_base = {}
    for c, pl in zip(cases, plan):
        by_base.setdefault(pl[0], []).append((c, pl))
    scs, meta = [], []
    for i, group in sorted(by_base.items())[:(8 if tier == 'quick' else 40)]:
        same = [g for g in group if g[1][1] == 'same']
        drift = [g for g in group if g[1][1] != 'same' and not exp[g[0]['id']]['passed']]
        if not same or len(drift) < 2:
            continue
        seq = [drift[0], same[0], drift[len(drift) // 2], same[0], drift[-1]]
        tg = [('server', server_of(pl[3])) for _, pl in seq]
        for threads in (1, 2):
            sc, labels = multi.scenario(tg, threads, tuple(range(len(tg))) if threads == 1 else None, json_out=True, extra=['-P', '{tmp}/made.txt'])
            sc['files']['made.txt'] = same[0][1][2]
            scs.append(sc)
            meta.append((seq, labels, threads))
    for (seq, labels, threads), sc, r in zip(meta, scs, runner.run_many(scs)):
        ck.evaluated()
        if r.get('harness_error') or r.get('hang'):
            raise common.Machinery('multi-target made-policy run failed: %r' % (r.get('harness_error') or 'hang'))
        replay = {'policy_file': sc['files']['made.txt'], 'argv': sc['argv'], 'targets': [pl[1] for _, pl in seq], 'exit': r['exit'], 'stdout': r['stdout'][-3000:]}
        try:
            doc = json.loads(r['stdout'])
        except ValueError:
            ck.violation('made-policy-target-list-json-unparsable', 'stdout of -j -P made.txt -T list is not JSON', replay)
            continue
        ok = True
        for el in doc:
            lab = '%s:%s' % (el.get('host'), el.get('port'))
            if lab not in labels:
                continue
            c, pl = seq[labels.index(lab)]
            e = exp[c['id']]
            got = sorted({x['mismatched_field'] for x in el.get('errors', [])})
            if el.get('passed') != e['passed'] or got != sorted(e['errors']):
                ck.violation('made-policy-in-target-list %s threads=%d' % ('own-target' if pl[1] == 'same' else 'drifted-target', threads),
                             '[%s] as one of several targets: passed=%r errors=%r; the rule gives passed=%r errors=%r'
                             % (pl[1], el.get('passed'), got, e['passed'], sorted(e['errors'])), replay)
                ok = False
                break
        if ok and r['exit'] != 3:
            ck.violation('made-policy-in-target-list exit=%s' % r['exit'], 'a run with drifted targets ends with status %s' % r['exit'], replay)
            ok = False
        if ok:
            ck.cov['traces_validated_against_impl'] += 1


def client_of(q):
    k = {f: ([] if q[f] == [''] else q[f]) for f in ('kex', 'key', 'enc', 'mac', 'comp')}
    for f in ('enc_c2s', 'mac_c2s'):
        if f in q:
            k[f] = q[f]
    return {'banner': ('SSH-2.0-' + q['banner']).encode(), 'kexinit': k}


def client_leg(ck, rnd, tier):
    """Client policies (-c -M, then -c -P): the same two laws for a client peer, including clients whose KEXINIT names different
    algorithms per direction - the policy is made from, and compared with, the lists the report shows."""
    C = []

    def add(kex, key, enc, mac, **kw):
        C.append(dict({'banner': 'OpenSSH_9.6', 'comp': ['none', 'zlib@openssh.com'], 'kex': kex, 'key': key, 'enc': enc, 'mac': mac, 'hks': {}, 'dhs': {}}, **kw))
    add(['curve25519-sha256', 'diffie-hellman-group16-sha512', 'kex-strict-c-v00@openssh.com'], ['ssh-ed25519', 'rsa-sha2-512'],
        ['chacha20-poly1305@openssh.com', 'aes256-gcm@openssh.com'], ['hmac-sha2-256-etm@openssh.com', 'hmac-sha2-512'])
    add(['curve25519-sha256', 'ecdh-sha2-nistp256'], ['ssh-ed25519', 'ecdsa-sha2-nistp256', 'rsa-sha2-256'], ['aes128-ctr', 'aes256-ctr'], ['hmac-sha2-256', 'hmac-sha1'],
        enc_c2s=['aes256-gcm@openssh.com', 'aes128-ctr', '3des-cbc'], mac_c2s=['hmac-sha2-512-etm@openssh.com'])
    add(['sntrup761x25519-sha512@openssh.com', 'curve25519-sha256'], ['ssh-ed25519'], ['aes128-gcm@openssh.com'], ['umac-128-etm@openssh.com', 'hmac-sha2-256'],
        enc_c2s=['aes128-gcm@openssh.com'], mac_c2s=['hmac-sha2-256', 'umac-128-etm@openssh.com'])
    add(['curve25519-sha256'], ['ssh-ed25519'], ['aes128-ctr', 'aes192-ctr', 'aes256-ctr'], ['hmac-sha2-512'], enc_c2s=['aes256-ctr'], mac_c2s=['hmac-sha2-512'])
    base_args = ['--skip-rate-test', '-c', '-p', '2222', '-t', '5']
    made = runner.run_many([{'argv': ['-n'] + base_args + ['-M', '{tmp}/made.txt'], 'clients': [client_of(q)], 'collect': ['made.txt']} for q in C])
    cases, plan = [], []
    for i, (q, r) in enumerate(zip(C, made)):
        ck.evaluated()
        if r.get('harness_error') or r.get('hang'):
            raise common.Machinery('client make-policy run failed: %r' % (r.get('harness_error') or 'hang'))
        text = r['files'].get('made.txt')
        if r['exit'] != 0 or text is None:
            ck.violation('client-make-policy-failed exit=%s' % r['exit'], '-c -M did not write a policy', {'peer': q, 'stdout': r['stdout'][-1500:]})
            continue
        if 'client policy = true' not in text:
            ck.violation('client-policy-not-marked', 'the policy written by -c -M is not marked as a client policy', {'peer': q, 'policy_file': text})
        cases.append({'id': len(cases) + 1, 'base': _core(q), 'peer': _core(q), 'drift': ''})
        plan.append((i, 'same', text, q))
        for tag, field, p2 in perturbations(q, rnd):
            if tag.split('-')[0] not in ('add', 'remove', 'swap'):
                continue
            p2['hks'] = {}
            cases.append({'id': len(cases) + 1, 'base': _core(q), 'peer': _core(p2), 'drift': field})
            plan.append((i, tag, text, p2))
    cfg = 'SPECIFICATION Spec\nCONSTANTS\n Mode = "oracle"\n MaxLen = 2\nINVARIANT RoundTrip\nINVARIANT Drift\nINVARIANT Emit\n'
    res = tlc.run('SshPolicy', cfg, generated={'cases.json': json.dumps(cases)}, env={'VERIF_CASES': 'cases.json'}, workers=1)
    ck.add_tlc(res)
    common.require(res.ok, 'SshPolicy (client policies): %s violated on the rule itself:\n%s' % (res.violated, '\n'.join(res.trace[-40:])))
    exp = {p['id']: p for p in res.prints if isinstance(p, dict) and 'errors' in p}
    common.require(len(exp) == len(cases), 'TLC emitted %d verdicts for %d client cases' % (len(exp), len(cases)))
    runs = runner.run_many([{'argv': ['-j'] + base_args + ['-P', '{tmp}/made.txt'], 'clients': [client_of(p2)], 'files': {'made.txt': text}}
                            for (i, tag, text, p2) in plan])
    for c, (i, tag, text, p2), r in zip(cases, plan, runs):
        e = exp[c['id']]
        ck.evaluated()
        ck.nontrivial(('client', i, tag))
        replay = {'base_client': C[i], 'audited_client': p2, 'perturbation': tag, 'policy_file': text, 'expected': e, 'exit': r.get('exit'), 'stdout': (r.get('stdout') or '')[-2500:]}
        if r.get('harness_error') or r.get('hang'):
            raise common.Machinery('client policy run failed: %r' % (r.get('harness_error') or 'hang'))
        want_exit = 0 if e['passed'] else 3
        if r['exit'] != want_exit:
            ck.violation(('made-client-policy-fails-on-its-own-client' if tag == 'same' else 'client-drift-not-detected kind=%s' % _gen(tag)),
                         '[client, %s] exit %s, the rule says %s (%r)' % (tag, r['exit'], 'passed' if e['passed'] else 'failed', sorted(e['errors'])), replay)
            continue
        try:
            doc = json.loads(r['stdout'])
        except ValueError:
            ck.violation('client-policy-json-unparsable', 'stdout of -j -c -P is not JSON', replay)
            continue
        got = sorted({x['mismatched_field'] for x in doc.get('errors', [])})
        if got != sorted(e['errors']):
            ck.violation('client-mismatched-fields kind=%s' % _gen(tag), '[client, %s] JSON names %r, the rule names %r' % (tag, got, sorted(e['errors'])), replay)
            continue
        ck.cov['traces_validated_against_impl'] += 1


def _core(q):
    return {k: q[k] for k in ('banner', 'comp', 'kex', 'key', 'enc', 'mac', 'hks', 'dhs')}


def _gen(tag):
    import re
    return re.sub(r'[-+]\d+$', '', tag)


def _name_kind(q):
    names = q['kex'] + q['key'] + q['enc'] + q['mac']
    if any('=' in n for n in names):
        return 'with-equals-sign'
    return 'plain'


def builtin_leg(ck, tb, tier):
    """Every built-in policy is passed by a peer configured exactly as that policy lists."""
    scs, meta = [], []
    for name, p in sorted(tb['policies'].items()):
        hks = {}
        for t in p['host_keys']:
            v = p['hostkey_sizes'].get(t)
            if v:
                hks[t] = {'size': v['hostkey_size'], 'catype': v.get('ca_key_type', ''), 'casize': v.get('ca_key_size', 0)}
            elif t in rating.DEFAULT_HK:
                d = rating.DEFAULT_HK[t]
                hks[t] = {'size': d[0], 'catype': d[1], 'casize': d[2]}
        q = {'banner': 'OpenSSH_9.6', 'comp': ['none'], 'kex': p['kex'], 'key': p['host_keys'], 'enc': p['ciphers'], 'mac': p['macs'], 'hks': hks,
             'dhs': dict(p['dh_modulus_sizes'])}
        cfg = server_of(q)
        if p['server']:
            scs.append({'argv': ['-n', '--skip-rate-test', '-P', name, HOST], 'servers': {(HOST, 22): cfg}})
        else:
            scs.append({'argv': ['-n', '-c', '-p', '2222', '-P', name], 'clients': [cfg]})
        meta.append((name, q))
    res = runner.run_many(scs)
    for (name, q), sc, r in zip(meta, scs, res):
        ck.evaluated()
        ck.nontrivial(('builtin', name))
        if r.get('harness_error') or r.get('hang'):
            raise common.Machinery('built-in policy run failed: %r' % (r.get('harness_error') or 'hang'))
        if r['exit'] != 0:
            ck.violation('builtin-policy-fails-on-its-own-peer', 'policy %r: a peer configured exactly as listed gets status %s' % (name, r['exit']),
                         {'policy': name, 'peer': q, 'argv': sc['argv'], 'stdout': r['stdout'][-2000:]})
        else:
            ck.cov['traces_validated_against_impl'] += 1
    ck.notes.append('%d built-in policies audited against their own peer' % len(meta))


def overwrite_leg(ck, P):
    """--make-policy never overwrites an existing file (the audited peer must not be able to clobber a policy in use)."""
    scs = []
    for q in P[:6]:
        scs.append({'argv': ['-n', '--skip-rate-test', '-M', '{tmp}/made.txt', HOST], 'servers': {(HOST, 22): server_of(q)},
                    'files': {'made.txt': 'name = "precious"\nversion = 7\n'}, 'collect': ['made.txt']})
    for r in runner.run_many(scs):
        ck.evaluated()
        if r.get('harness_error') or r.get('hang'):
            raise common.Machinery('make-policy run failed: %r' % (r.get('harness_error') or 'hang'))
        if r['files'].get('made.txt') != 'name = "precious"\nversion = 7\n' or 'file already exists' not in r['stdout']:
            ck.violation('make-policy-overwrites-existing-file', '-M on an existing file: file content changed or no error reported',
                         {'stdout': r['stdout'][-800:], 'file_after': r['files'].get('made.txt')})
        else:
            ck.cov['traces_validated_against_impl'] += 1
            ck.nontrivial(('overwrite', r['stdout'][-40:]))
