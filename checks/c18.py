"""C18 - the tool connects to, and reports on, exactly the target that was named.

SshTarget.tla: spelling -> (host, port) with the -p option as default port, port validation, resolver family and the
order in which addresses may be tried.  The harness builds the case product (hosts x port spellings x documented forms
x {command line, targets-file line with surrounding whitespace and blank neighbours} x -p x -4/-6/-46/-64 x resolver
answers); TLC evaluates each case (expected host, port, rejection, resolver family, address order) and checks
NoConnectionWhenRejected, AttemptsAreOrderedPrefix, OnlyWantedFamilies, PortIsParsedPort on the model.  Replay through the
CLI with the fake resolver: every getaddrinfo() and connect() the tool makes - including those of the probe phases and,
in a sample, the rate check - is compared with the expectation, and the label on the report ('(gen) target:', 'Host:',
JSON target / host+port) must name the same host and port.
"""
import json
import random
import socket

from harness import common, tlc, runner, peers
from checks import rating, c08

AF = {4: socket.AF_INET, 6: socket.AF_INET6, 0: 0}
LAWS = ['NoConnectionWhenRejected', 'AttemptsAreOrderedPrefix', 'OnlyWantedFamilies', 'PortIsParsedPort']
V4, V6 = '192.0.2.10', '2001:db8::10'


EXTRA_HOSTS = ('::2001:db8:1:2:3:4:443', '2001:db8:1:2:3:4:5::', 'build_agent.ci.internal', 'xn--bcher-kva.example')


def build(tier, rnd):
    hosts = [('host1', 'name'), ('a.b.example', 'name'), ('1.2.3.4', 'v4'), ('::1', 'v6'), ('fe80::1', 'v6'), ('2001:db8:0:0:0:0:0:1', 'v6'),
             ('::ffff:192.0.2.1', 'v6'), ('64:ff9b::198.51.100.7', 'v6'), ('fe80::1%eth0', 'v6'),         # embedded IPv4 part, zone id
             # seven written groups next to a '::' that stands for one (legal, if not canonical); names with characters beyond letters, digits, '.', '-'
             ('::2001:db8:1:2:3:4:443', 'v6'), ('2001:db8:1:2:3:4:5::', 'v6'), ('build_agent.ci.internal', 'name'), ('xn--bcher-kva.example', 'name')]
    ports = [None, 1, 22, 2222, 65535, 0, 65536, 70000]
    popts = [(0, None), (1, '1'), (22, '22'), (2222, '2222'), (65535, '65535'), (-5, '0'), (65536, '65536')]
    fams = ['', '4', '6', '46', '64']
    answers = {'v4only': [(4, V4)], 'v6only': [(6, V6)], 'v4first': [(4, V4), (6, V6)], 'v6first': [(6, V6), (4, V4)], 'none': [],
               'interleaved646': [(6, V6), (4, V4), (6, '2001:db8::11')], 'interleaved464': [(4, V4), (6, V6), (4, '192.0.2.11')]}
    cases = []
    for host, kind in hosts:
        spellings = [(host, None)]
        for p in ports[1:]:
            if kind == 'v6':
                spellings.append(('[%s]:%d' % (host, p), p))
            else:
                spellings.append(('%s:%d' % (host, p), p))
        if kind == 'v6':
            spellings.append(('[%s]' % host, None))
        else:
            spellings.append(('%s:' % host, None))
        for sp, p in spellings:
            for source in ('argv', 'file'):
                for popt, parg in popts:
                    if tier == 'quick' and popt not in (0, 2222) and not (p in (None, 22, 2222)):
                        continue
                    for fam in fams:
                        if tier == 'quick' and fam in ('4', '6') and popt not in (0,):
                            continue
                        if tier == 'quick' and host in EXTRA_HOSTS and (fam not in ('', '64') or p not in (None, 22, 65535, 70000)):
                            continue        # (the further spellings vary the host part: fewer port / family combinations in the quick tier)
                        if kind == 'name':
                            ans_names = list(answers)
                            if tier == 'quick':
                                ans_names = ['v4first', 'v6first', 'interleaved646', 'interleaved464'] if fam in ('46', '64', '') else ['v4first', 'none']
                        else:
                            ans_names = ['self']
                        for an in ans_names:
                            ans = [(4 if kind == 'v4' else 6, host)] if an == 'self' else answers[an]
                            sp2 = sp
                            if source == 'file':
                                sp2 = rnd.choice(['', ' ', '\t', '  ']) + sp + rnd.choice(['', ' ', '  ', '\t'])
                            cases.append({'id': len(cases) + 1, 'spelling': sp2, 'source': source, 'popt': popt, 'popt_arg': parg, 'fam': fam,
                                          'answer': [[f, ip] for f, ip in ans], 'host_kind': kind, 'raw_host': host})
    # targets-file lines that name nothing
    for sp in ['', ' ', '   ', '\t']:
        cases.append({'id': len(cases) + 1, 'spelling': sp, 'source': 'file', 'popt': 0, 'popt_arg': None, 'fam': '', 'answer': [], 'host_kind': 'name', 'raw_host': ''})
    return cases


POLICY_NAME = 'Hardened OpenSSH Server v9.4 (version 2)'


def scenario(c, exp, rate=False, refuse_first=False, json_out=False, policy=False):
    srv = c08.healthy()['warn']
    servers = {}
    if not exp['rejected'] and not exp['skipped']:
        for i, (f, ip) in enumerate(exp['order']):
            if refuse_first and i == 0:
                continue
            servers[(ip, exp['port'])] = srv
    resolver = {}
    if c['host_kind'] == 'name' and c['raw_host']:
        ans = [(AF[f], ip) for f, ip in c['answer']]
        resolver[c['raw_host']] = ans if ans else socket.gaierror(-2, 'Name or service not known')
    argv = (['-j'] if json_out else ['-n']) + ([] if rate else ['--skip-rate-test'])
    if c['fam']:
        argv += ['-' + c['fam']] if len(c['fam']) == 1 else ['-' + c['fam'][0], '-' + c['fam'][1]]
    if c['popt_arg'] is not None:
        argv += ['-p', c['popt_arg']]
    if policy:
        argv += ['-P', POLICY_NAME]
    files = {}
    if c['source'] == 'argv':
        argv.append(c['spelling'])
    else:
        files['targets.txt'] = '\n' + c['spelling'] + '\n\n' + 'anchor.example\n'
        argv += ['-T', '{tmp}/targets.txt', '--threads', '1']
        resolver['anchor.example'] = [(socket.AF_INET, '192.0.2.99')]
        ap = c['popt'] if 1 <= c['popt'] <= 65535 else 22
        servers[('192.0.2.99', ap)] = srv
    return {'argv': argv, 'servers': servers, 'resolver': resolver, 'files': files}


def list_leg(ck):
    """A targets file with more lines than worker threads: every listed target is dialled, on its own port, and reported under its
    own label with its own server's banner - none twice, none skipped (tasks that wait in the queue keep their own target)."""
    base = c08.healthy()['warn']
    scs, meta = [], []
    for n, threads in ((3, 1), (4, 1), (4, 2), (5, 3), (2, 1), (-4, 1), (-3, 2)):
        servers, lines, want = {}, [], {}
        resolver = {}
        same_host = n < 0            # negative: the same host on every line, each line with another port
        n = abs(n)
        for i in range(n):
            host = 'node%d.example' % (0 if same_host else i)
            ip = '192.0.2.%d' % (10 + (0 if same_host else i))
            port = (22 if i == 0 else 2200 + i) if same_host else (22 if i % 2 == 0 else 2200 + i)
            resolver[host] = [(socket.AF_INET, ip)]
            cfg = peers.ServerCfg(base)
            cfg['banner'] = b'SSH-2.0-Node_%d.0' % i
            servers[(ip, port)] = cfg
            lines.append(host if port == 22 else '%s:%d' % (host, port))
            want['%s:%d' % (host, port)] = ('%s:%d' % (ip, port), 'SSH-2.0-Node_%d.0' % i)
        scs.append({'argv': ['-j', '--skip-rate-test', '--threads', str(threads), '-T', '{tmp}/targets.txt'], 'servers': servers, 'resolver': resolver,
                    'files': {'targets.txt': '\n'.join(lines) + '\n'}})
        meta.append((n, threads, want))
    # a listed target that cannot be reached (nothing listens there / the name has no address), first and in the middle: every other
    # listed target is still dialled and reported under its own label (text mode: the error text of the failed one would break a JSON array)
    down_scs = []
    for (n, threads, want), sc in list(zip(meta, scs))[:4]:
        for where in (0, 1):
            for kind in ('refused', 'unresolvable'):
                lines = sc['files']['targets.txt'].split('\n')
                lines.insert(where, 'down.example:2299' if kind == 'refused' else 'nowhere.invalid')
                t = dict(sc, argv=['-n'] + [a for a in sc['argv'] if a != '-j'], files={'targets.txt': '\n'.join(lines)},
                         resolver=dict(sc['resolver'], **({'down.example': [(socket.AF_INET, '192.0.2.250')]} if kind == 'refused' else {})))
                down_scs.append((t, want, threads, where, kind))
    for (t, want, threads, where, kind), r in zip(down_scs, runner.run_many([x[0] for x in down_scs])):
        ck.evaluated()
        replay = {'argv': t['argv'], 'lines': t['files']['targets.txt'], 'exit': r.get('exit'), 'stdout': (r.get('stdout') or '')[-2500:]}
        if r.get('harness_error'):
            raise common.Machinery('target-list run failed: %r' % r.get('harness_error'))
        if r.get('hang'):
            ck.violation('target-list-never-ends with=%s' % kind, 'a target list holding a line that cannot be reached never ends', replay)
            continue
        out_lines = r['stdout'].split('\n')
        counts = {lab: sum(1 for l in out_lines if l in ('(gen) target: %s' % lab, '(gen) target: %s' % (lab[:-3] if lab.endswith(':22') else lab))) for lab in want}
        dialled = {'%s:%d' % (e['host'], e['port']) for e in r['events'] if e.get('ev') == 'connect' and 'host' in e}
        missing = sorted(v[0] for v in want.values() if v[0] not in dialled)
        if missing:
            ck.violation('listed-target-not-dialled with=%s' % kind, 'a line that cannot be reached (%s, position %d of the file): the listed targets at %r are never dialled' % (kind, where + 1, missing), replay)
        elif any(v != 1 for v in counts.values()):
            ck.violation('listed-target-not-reported with=%s' % kind, 'a line that cannot be reached (%s, position %d of the file), %d thread(s): target labels shown %r (each reachable target must be reported once)'
                         % (kind, where + 1, threads, counts), replay)
        else:
            ck.cov['traces_validated_against_impl'] += 1
            ck.nontrivial(('list-down', len(want), threads, where, kind))
    # the same lists in text mode at every minimum level: each result block still says which target it is about
    tscs = []
    for (n, threads, want), sc in list(zip(meta, scs))[:3]:
        for lvl in ('info', 'warn', 'fail'):
            t = dict(sc)
            t['argv'] = ['-n', '-l', lvl] + [a for a in sc['argv'] if a != '-j']
            tscs.append((t, want, lvl, threads))
    for (t, want, lvl, threads), r in zip(tscs, runner.run_many([x[0] for x in tscs])):
        ck.evaluated()
        if r.get('harness_error') or r.get('hang'):
            raise common.Machinery('target-list run failed: %r' % (r.get('harness_error') or 'hang'))
        lines = r['stdout'].split('\n')
        # (the label leaves the default port out: "host" for host:22)
        counts = {lab: sum(1 for l in lines if l in ('(gen) target: %s' % lab, '(gen) target: %s' % (lab[:-3] if lab.endswith(':22') else lab))) for lab in want}
        if any(v != 1 for v in counts.values()):
            ck.violation('report-not-labelled level=%s' % lvl, 'text output of a target list at -l %s: target labels shown %r (each listed target must be named exactly once)' % (lvl, counts),
                         {'argv': t['argv'], 'lines': t['files']['targets.txt'], 'stdout': r['stdout'][-2000:]})
        else:
            ck.cov['traces_validated_against_impl'] += 1
            ck.nontrivial(('list-text', len(want), threads, lvl))
    for (n, threads, want), sc, r in zip(meta, scs, runner.run_many(scs)):
        ck.evaluated()
        if r.get('harness_error') or r.get('hang'):
            raise common.Machinery('target-list run failed: %r' % (r.get('harness_error') or 'hang'))
        replay = {'lines': sc['files']['targets.txt'], 'argv': sc['argv'], 'exit': r['exit'], 'stdout': r['stdout'][-2000:]}
        first = {}
        for e in r['events']:
            if e.get('ev') == 'connect' and 'host' in e:
                first.setdefault('%s:%d' % (e['host'], e['port']), 0)
                first['%s:%d' % (e['host'], e['port'])] += 1
        dialled = sorted(first)
        expect = sorted(v[0] for v in want.values())
        if dialled != expect:
            ck.violation('listed-target-not-dialled threads<targets' if threads < n else 'listed-target-not-dialled',
                         '%d targets, %d thread(s): dialled %r, listed %r' % (n, threads, dialled, expect), replay)
            continue
        try:
            doc = json.loads(r['stdout'])
            got = sorted((el['target'], el['banner']['raw']) for el in doc)
        except (ValueError, KeyError, TypeError):
            ck.violation('target-list-json-unparsable', 'stdout of -T -j is not a JSON array of reports', replay)
            continue
        if got != sorted((k, v[1]) for k, v in want.items()):
            ck.violation('report-label-mismatch', '%d targets, %d thread(s): reports (label, banner) %r, expected %r' % (n, threads, got, sorted((k, v[1]) for k, v in want.items())), replay)
        else:
            ck.cov['traces_validated_against_impl'] += 1
            ck.nontrivial(('list', n, threads))


def run(tier):
    ck = common.Check('C18', tier)
    rnd = random.Random(ck.seed)
    cases = build(tier, rnd)
    cfg = 'SPECIFICATION Spec\nCONSTANT Mode = "oracle"\n' + ''.join('INVARIANT %s\n' % i for i in LAWS) + 'INVARIANT Emit\n'
    exp = {}
    for s in range(0, len(cases), 5000):
        part = [{k: v for k, v in c.items() if k != 'popt_arg'} for c in cases[s:s + 5000]]
        res = tlc.run('SshTarget', cfg, generated={'cases.json': json.dumps(part)}, env={'VERIF_CASES': 'cases.json'})
        ck.add_tlc(res)
        common.require(res.ok, 'SshTarget: %s violated on the model:\n%s' % (res.violated, '\n'.join(res.trace[-30:])))
        for p in res.prints:
            if isinstance(p, dict) and 'order' in p:
                exp[p['id']] = p
    common.require(len(exp) == len(cases), 'TLC evaluated %d of %d cases' % (len(exp), len(cases)))
    ck.log('%d target cases evaluated by TLC; laws %s hold' % (len(cases), ', '.join(LAWS)))
    scs, meta = [], []
    for c in cases:
        e = exp[c['id']]
        variants = [dict()]
        if not e['rejected'] and not e['skipped'] and len(e['order']) > 1 and c['id'] % 3 == 0:
            variants.append(dict(refuse_first=True))
        if not e['rejected'] and not e['skipped'] and (c['id'] % 11 == 0 or (c['id'] % 3 == 1 and e['port'] != 22)):
            variants.append(dict(rate=True))
        if c['id'] % 5 == 0:
            variants.append(dict(json_out=True))
        if not e['rejected'] and not e['skipped'] and c['source'] == 'argv' and (c['host_kind'] == 'v6' or c['id'] % 7 == 0):
            variants.append(dict(policy=True))          # a policy audit labels its verdict with the target too ('Host:' line)
        for v in variants:
            scs.append(scenario(c, e, **v))
            meta.append((c, e, v))
    ck.log('%d CLI scenarios' % len(scs))
    results = runner.run_many(scs)
    for sc, (c, e, v), r in zip(scs, meta, results):
        ck.evaluated()
        if r.get('harness_error') or r.get('hang'):
            raise common.Machinery('target run failed: %r' % (r.get('harness_error') or 'hang'))
        ck.nontrivial((c['spelling'].strip(), c['source'], c['popt'], c['fam'], tuple(map(tuple, c['answer'])), tuple(sorted(v))))
        anchor = '192.0.2.99'
        res_ev = [x for x in r['events'] if x.get('ev') == 'resolve' and x.get('host') != 'anchor.example']
        con_ev = [x for x in r['events'] if x.get('ev') == 'connect' and x.get('host') != anchor]
        replay = {'case': c, 'variant': v, 'expected': e, 'argv': sc['argv'], 'targets_file': sc['files'].get('targets.txt'), 'exit': r['exit'],
                  'resolves': [(x['host'], x['port'], x['family']) for x in res_ev], 'connects': [(x['host'], x['port'], x['family'], x['ok']) for x in con_ev],
                  'stdout': r['stdout'][-1500:]}
        form = _form(c)
        if c['source'] == 'file':
            ap = c['popt'] if 1 <= c['popt'] <= 65535 else 22
            anchor_con = [x for x in r['events'] if x.get('ev') == 'connect' and x.get('host') == anchor]
            anchor_res = [x for x in r['events'] if x.get('ev') == 'resolve' and x.get('host') == 'anchor.example' and x.get('port') != 0]
            if not (e['rejected'] or (c['popt'] != 0 and not 1 <= c['popt'] <= 65535)):
                if any(x['port'] != ap for x in anchor_con + anchor_res) or not anchor_res:
                    ck.violation('neighbouring-line-changes-port', 'the next line of the targets file (no port given) is dialled on port %r; the default port is %d'
                                 % (sorted({x['port'] for x in anchor_con + anchor_res}), ap), replay)
                    continue
        if e['skipped']:
            if res_ev or con_ev:
                ck.violation('blank-line-becomes-target', 'a targets-file line holding only %r is treated as a target (resolves %r)' % (c['spelling'], replay['resolves']), replay)
            else:
                ck.cov['traces_validated_against_impl'] += 1
            continue
        if e['rejected']:
            if con_ev:
                ck.violation('connects-despite-invalid-port %s' % form, 'connection attempts %r although the port is outside 1-65535' % (replay['connects'],), replay)
            else:
                ck.cov['traces_validated_against_impl'] += 1
            continue
        bad = None
        for x in res_ev:
            if x['host'] != e['host']:
                bad = ('resolves-other-host %s' % form, 'looks up %r, the target names host %r' % (x['host'], e['host']))
            elif x['port'] not in (e['port'], 0):
                bad = ('resolves-other-port %s' % form, 'looks up port %r, the target names port %r' % (x['port'], e['port']))
            elif x['family'] != AF[e['family']]:
                bad = ('resolver-family fam=%s' % (c['fam'] or 'none'), 'asks the resolver for family %r, option -%s calls for %r' % (x['family'], c['fam'], AF[e['family']]))
            if bad:
                break
        if not bad and not res_ev:
            bad = ('target-never-resolved %s' % form, 'no lookup for host %r' % e['host'])
        if not bad:
            order = [(AF[f], ip) for f, ip in e['order']]
            # group connects by the resolve that precedes them
            groups, cur = [], None
            for x in r['events']:
                if x.get('ev') == 'resolve' and x.get('host') != 'anchor.example':
                    cur = []
                    groups.append(cur)
                elif x.get('ev') == 'connect' and x.get('host') != anchor and cur is not None:
                    cur.append(x)
            # the rate check resolves once and opens many sockets: each of them must go to the first address of the requested order
            split = []
            for g in groups:
                nbs = [x for x in g if x.get('nb')]
                if nbs:
                    split += [[x] for x in nbs]
                    g = [x for x in g if not x.get('nb')]
                if g:
                    split.append(g)
            for g in split:
                seq = [(x['family'], x['host']) for x in g]
                if any(x['port'] != e['port'] for x in g):
                    bad = ('connects-other-port %s' % form, 'dials port %r, the target names %r' % ([x['port'] for x in g], e['port']))
                elif seq != order[:len(seq)]:
                    nb = any(x.get('nb') for x in g)
                    bad = ('address-order fam=%s phase=%s' % (c['fam'] or 'none', 'rate-check' if nb else 'audit'),
                           'tries %r, the requested families/order allow %r' % (seq, order))
                if bad:
                    break
        if not bad and r['exit'] in (0, 2, 3):
            bad = _label(c, e, v, r)
        if bad:
            ck.violation(bad[0], '[%s %r -p %s -%s] %s' % (c['source'], c['spelling'], c['popt_arg'], c['fam'], bad[1]), replay)
        else:
            ck.cov['traces_validated_against_impl'] += 1
    ck.sample({'spelling': cases[40]['spelling'], 'source': cases[40]['source'], 'popt': cases[40]['popt_arg'], 'fam': cases[40]['fam'],
               'expected': {k: exp[cases[40]['id']][k] for k in ('host', 'port', 'rejected', 'family', 'order')}})
    list_leg(ck)
    ck.cov['rule'] = ('hosts {names, IPv4, IPv6 compressed/link-local/full} x ports {none,1,22,2222,65535,0,65536,70000} x documented spellings x {argv, targets-file line '
                      'with whitespace and blank neighbours} x -p {absent,1,22,2222,65535,0,65536} x {-4,-6,-46,-64,none} x resolver answers; expectation from TLC '
                      '(SshTarget); every getaddrinfo/connect of the run compared, incl. probe phases, first-address-refuses and rate-check variants; labels compared')
    return ck.finish()


def _form(c):
    s = c['spelling'].strip()
    f = 'bracketed' if s.startswith('[') else ('host:port' if s.count(':') == 1 else 'bare')
    return 'form=%s source=%s popt=%s' % (f, c['source'], 'set' if c['popt'] != 0 else 'absent')


def _label(c, e, v, r):
    host, port = e['host'], e['port']
    v6 = c['host_kind'] == 'v6'
    if v.get('json_out'):
        try:
            doc = json.loads(r['stdout'])
        except ValueError:
            return ('label-json-unparsable', 'stdout is not JSON')
        el = doc[0] if isinstance(doc, list) else doc
        els = doc if isinstance(doc, list) else [doc]
        want = '%s:%d' % (host, port)
        if not any(isinstance(x, dict) and x.get('target') == want for x in els):
            return ('label view=json', 'JSON target %r, the target is %r' % ([x.get('target') for x in els if isinstance(x, dict)], want))
        return None
    if v.get('policy'):
        import re
        want = host if port == 22 else ('[%s]:%d' % (host, port) if v6 else '%s:%d' % (host, port))
        got = re.findall(r'^Host:\s+(.*)$', r['stdout'], re.M)
        if got != [want]:
            return ('label view=policy-text', 'policy verdict labelled %r, the target is %r' % (got, want))
        return None
    if c['source'] == 'file':
        want = host if port == 22 else ('[%s]:%d' % (host, port) if v6 else '%s:%d' % (host, port))
        if ('(gen) target: %s\n' % want) not in r['stdout']:
            import re
            got = re.findall(r'^\(gen\) target: (.*)$', r['stdout'], re.M)
            return ('label view=text', 'report labelled %r, the target is %r' % (got, want))
    return None
