"""C06 - policy verdicts follow the documented matching rules.

SshPolicy!Errors is the rule as the statement words it.  TLC enumerates, per field, every (policy, peer) pair of
the small universe (lists up to MaxLen over 3 names + the strict-kex marker, optional host keys, size maps over
boundary values, CA type/size, banner/compression), checks the laws ShrinkKeepsPass, GrowKeepsPass,
ExactImpliesSubset, LargerIsWeaker, UnspecifiedNeverFails, RoundTrip on every pair and emits the expected
mismatched fields.  Every pair is replayed in-process (policy text -> Policy(policy_data=..), peer -> SSH2_Kex
with recorded host keys / moduli, a fresh Policy object per evaluation as the CLI does) and a sample through the
real CLI (-P file, text and JSON, exit status).
"""
import json
import random

from harness import common, tlc, runner, peers, report
from checks import rating

FIELD_KEYS = {'key': 'host keys', 'opt': 'optional host keys', 'kex': 'key exchanges', 'enc': 'ciphers', 'mac': 'macs'}
LAWS = ['ShrinkKeepsPass', 'GrowKeepsPass', 'ExactImpliesSubset', 'LargerIsWeaker', 'UnspecifiedNeverFails', 'RoundTrip']


def policy_text(p, name='verif'):
    has = set(p['has'])
    sep = p.get('sep', ', ')
    lines = ['name = "%s"' % name, 'version = 1']
    if 'banner' in has:
        lines.append('banner = "%s"' % banner_text(p['banner']))
    if 'comp' in has:
        lines.append('compressions = %s' % ', '.join(p['comp']))
    for f in ('key', 'kex', 'enc', 'mac'):
        if f in has:
            lines.append('%s = %s' % (FIELD_KEYS[f], sep.join(p[f])))
    if p.get('opt'):
        lines.append('optional host keys = %s' % sep.join(p['opt']))
    hks = _map(p.get('hks'))
    if hks:
        d = {}
        for t, v in hks.items():
            e = {'hostkey_size': v['size']}
            if v['catype'] != '' and v['casize'] != 0:
                e['ca_key_type'] = v['catype']
                e['ca_key_size'] = v['casize']
            d[t] = e
        lines.append('host_key_sizes = %s' % json.dumps(d))
    dhs = _map(p.get('dhs'))
    if dhs:
        lines.append('dh_modulus_sizes = %s' % json.dumps(dhs))
    if p.get('client'):
        lines.append('client policy = true')
    lines.append('allow_algorithm_subset_and_reordering = %s' % ('true' if p['subset'] else 'false'))
    lines.append('allow_larger_keys = %s' % ('true' if p['larger'] else 'false'))
    return '\n'.join(lines) + '\n'


def _map(m):
    return m if isinstance(m, dict) else {}


def banner_text(b):
    return 'SSH-2.0-%s' % b


def evaluate_inprocess(p, q):
    from ssh_audit.policy import Policy
    from ssh_audit.ssh2_kex import SSH2_Kex
    from ssh_audit.ssh2_kexparty import SSH2_KexParty
    from ssh_audit.banner import Banner
    from ssh_audit.outputbuffer import OutputBuffer
    pol = Policy(policy_data=policy_text(p))
    party = SSH2_KexParty(list(q['enc']), list(q['mac']), list(q['comp']), [''])
    kex = SSH2_Kex(OutputBuffer(), b'\x00' * 16, list(q['kex']), list(q['key']), party, party, False, 0)
    for t, v in _map(q.get('hks')).items():
        kex.set_host_key(t, b'', v['size'], v['catype'], v['casize'])
    for a, bits in _map(q.get('dhs')).items():
        kex.set_dh_modulus_size(a, bits)
    banner = Banner.parse(banner_text(q['banner']))
    passed, errors, text = pol.evaluate(banner, kex)
    return passed, errors, text


def run(tier):
    ck = common.Check('C06', tier)
    rnd = random.Random(ck.seed)
    runner.load_repo()
    maxlen = 2 if tier == 'quick' else 3
    cfg = 'SPECIFICATION Spec\nCONSTANTS\n Mode = "mc"\n MaxLen = %d\n' % maxlen + ''.join('INVARIANT %s\n' % i for i in LAWS) + 'INVARIANT Emit\n'
    res = tlc.run('SshPolicy', cfg, workers=1, timeout=3000)
    ck.add_tlc(res)
    common.require(res.ok, 'SshPolicy: the rule violates its own law %s:\n%s' % (res.violated, '\n'.join(res.trace[-30:])))
    pairs = [p for p in res.prints if isinstance(p, dict) and 'errors' in p]
    # fields in combination: two host-key types x two group-exchange algorithms x {unlisted, not offered, equal, larger, smaller} x larger-keys flag x list fields
    # that match or do not (the code folds one verdict over all fields and walks each size map in order)
    res_c = tlc.run('SshPolicy', cfg.replace('Mode = "mc"', 'Mode = "combo"'), workers=None, timeout=3000)
    ck.add_tlc(res_c)
    common.require(res_c.ok, 'SshPolicy (fields in combination): the rule violates its own law %s:\n%s' % (res_c.violated, '\n'.join(res_c.trace[-30:])))
    combo = [p for p in res_c.prints if isinstance(p, dict) and 'errors' in p]
    common.require(len(combo) >= 6000, 'too few combinations enumerated (%d)' % len(combo))
    if tier == 'quick':
        combo = [p for i, p in enumerate(combo) if i % 2 == ck.seed % 2]
    ck.log('TLC enumerated %d combinations of fields' % len(combo))
    pairs += combo
    ck.log('TLC enumerated %d (policy, peer) pairs; laws %s hold' % (len(pairs), ', '.join(LAWS)))
    common.require(len(pairs) > 1000, 'too few pairs enumerated')
    nfail = 0
    for e in pairs:
        p, q = e['case']['policy'], e['case']['peer']
        ck.evaluated()
        try:
            passed, errors, text = evaluate_inprocess(p, q)
        except Exception as ex:     # noqa
            ck.violation('evaluate-raises %s' % type(ex).__name__, 'Policy.evaluate raised %r' % (ex,), {'policy': p, 'peer': q, 'policy_text': policy_text(p)})
            continue
        got = sorted({x['mismatched_field'] for x in errors})
        want = sorted(e['errors'])
        if not e['passed']:
            nfail += 1
            ck.nontrivial(json.dumps([p, q], sort_keys=True))
        replay = {'policy': p, 'peer': q, 'policy_text': policy_text(p), 'expected_errors': want, 'tool_errors': errors, 'tool_passed': passed}
        if passed != e['passed']:
            ck.violation('verdict field=%s mode=%s' % (_field(p), _mode(p)), 'tool says passed=%r, the rule says %r (expected mismatches %r, tool %r)' % (passed, e['passed'], want, got), replay)
        elif got != want:
            ck.violation('error-fields field=%s mode=%s' % (_field(p), _mode(p)), 'tool names %r, the rule names %r' % (got, want), replay)
        elif passed != (len(errors) == 0):
            ck.violation('passed-iff-no-errors', 'passed=%r with %d errors' % (passed, len(errors)), replay)
        else:
            for x in errors:
                if not ({'mismatched_field', 'expected_required', 'expected_optional', 'actual'} <= set(x)):
                    ck.violation('error-shape', 'error entry lacks expected/actual values: %r' % (x,), replay)
            ck.cov['traces_validated_against_impl'] += 1
    ck.log('%d pairs replayed in-process (%d failing verdicts)' % (len(pairs), nfail))
    ck.sample({'policy_text': policy_text(pairs[len(pairs) // 2]['case']['policy']), 'peer': pairs[len(pairs) // 2]['case']['peer'],
               'expected_errors': pairs[len(pairs) // 2]['errors']})
    cli_leg(ck, tier, rnd)
    policy_file_leg(ck, tier, rnd)
    ck.cov['rule'] = ('TLC: per field every (policy, peer) pair - lists up to length %d over {a1,b2,c3,strict marker} x optional host keys x subset flag; size maps '
                      '{2048,3072} x {1024..4096} x CA type/size x larger flag; banner/compression - with the laws checked on each; all replayed in-process, a sample '
                      'through the CLI. distinct non-trivial = distinct failing pairs' % maxlen)
    ck.cov['exhaustive'] = True
    ck.assumptions += ['policy lists are non-empty (a policy file cannot express an empty list)', 'fields are independent in the rule, so the product is taken per field']
    return ck.finish()


# what each line token of SshPolicyFile.tla looks like in a file
LINES = {
    'comment': '# ciphers = 3des-cbc', 'blank': '   \t', 'noeq': 'ciphers aes256-ctr', 'unknown': 'cipher = aes256-ctr', 'unknown-case': 'Ciphers = aes256-ctr',
    'name': 'name = "verif"', 'name-other': 'name="other"', 'name-unquoted': 'name = verif', 'name-empty': 'name =', 'name-escaped': 'name = "a\\"b"',
    'version': 'version = 1', 'version2': 'version=2', 'banner': 'banner = "SSH-2.0-OpenSSH_9.6"', 'banner-unquoted': 'banner = SSH-2.0-OpenSSH_9.6',
    'comp': 'compressions = none, zlib@openssh.com',
    'key': 'host keys = ssh-ed25519, rsa-sha2-512', 'key2': 'host keys = ssh-ed25519', 'opt': 'optional host keys = ssh-ed25519-cert-v01@openssh.com',
    'kex': 'key exchanges = curve25519-sha256, diffie-hellman-group-exchange-sha256',
    'kex-gss': 'key exchanges = gss-group14-sha256-toWM5Slw5Ew8Mqkay+al2g==, curve25519-sha256',
    'enc': 'ciphers = aes256-ctr, aes128-ctr', 'enc-spaces': 'ciphers =   aes256-ctr ,aes128-ctr  ', 'enc-indented': '\t  ciphers = aes128-ctr   ',
    'enc-single': 'ciphers = chacha20-poly1305@openssh.com', 'enc-empty': 'ciphers =', 'mac': 'macs = hmac-sha2-256-etm@openssh.com',
    'hk-old-rsa': 'hostkey_size_ssh-rsa = 2048', 'hk-old-ed': 'hostkey_size_ssh-ed25519 = 256', 'hk-old-bad': 'hostkey_size_ssh-rsa = big',
    'ca-old-rsacert': 'cakey_size_ssh-rsa-cert-v01@openssh.com = 4096', 'ca-old-edcert': 'cakey_size_ssh-ed25519-cert-v01@openssh.com = 256',
    'hks-new': 'host_key_sizes = {"ssh-rsa": {"hostkey_size": 3072}, "ssh-rsa-cert-v01@openssh.com": {"hostkey_size": 3072, "ca_key_type": "ssh-rsa", "ca_key_size": 4096}}',
    'hks-bad': 'host_key_sizes = {"ssh-rsa": {"hostkey_size": 3072}',
    'dh-old': 'dh_modulus_size_diffie-hellman-group-exchange-sha256 = 2048', 'dh-old2': 'dh_modulus_size_diffie-hellman-group-exchange-sha1 = 4096',
    'dh-new': 'dh_modulus_sizes = {"diffie-hellman-group-exchange-sha256": 3072}', 'dh-bad': 'dh_modulus_size_diffie-hellman-group-exchange-sha256 = 2k',
    'client': 'client policy = true', 'client-false': 'client policy = false', 'client-upper': 'client policy = TRUE',
    'subset': 'allow_algorithm_subset_and_reordering = true', 'subset-false': 'allow_algorithm_subset_and_reordering = false',
    'larger': 'allow_larger_keys = True', 'larger-yes': 'allow_larger_keys = yes'}
FILE_LAWS = ['MachineIsLoad', 'CommentsAreInert', 'NamedAndVersioned', 'FirstErrorWins', 'IndependentLinesCommute', 'OldCaSizeComesFromTheFile']
INTERACTING = ['comment', 'name', 'version', 'enc', 'enc-single', 'hk-old-rsa', 'hk-old-ed', 'ca-old-rsacert', 'ca-old-edcert', 'hks-new', 'dh-old', 'dh-old2', 'dh-new',
               'client', 'client-false', 'larger', 'noeq']


def _load_policy_text(text):
    """-> ('refused', reason class, detail) | ('loaded', {field: value})"""
    import contextlib
    import io
    from ssh_audit.policy import Policy
    buf = io.StringIO()
    try:
        with contextlib.redirect_stdout(buf), contextlib.redirect_stderr(buf):
            p = Policy(policy_data=text)
    except BaseException as e:      # noqa  (the CLI catches Exception around the load and leaves with the error status)
        m = str(e)
        reason = ('unparsable-line' if 'could not parse line' in m else 'invalid-field' if 'invalid field' in m else 'unquoted' if 'enclosed in quotes' in m
                  else 'no-name' if 'does not have a name' in m else 'no-version' if 'does not have a version' in m
                  else 'cakey-before-hostkey' if isinstance(e, (UnboundLocalError, NameError)) else 'bad-json' if type(e).__name__ == 'JSONDecodeError'
                  else 'bad-number' if isinstance(e, ValueError) and 'invalid literal' in m else 'other:%s' % type(e).__name__)
        return 'refused', reason, {'exception': repr(e), 'warned': buf.getvalue().count('deprecated features'), 'catchable': isinstance(e, Exception)}
    opt = lambda v: [] if v is None else [v]                                                 # noqa
    hks = {}
    for t, e in (p._hostkey_sizes or {}).items():                                            # pylint: disable=protected-access
        hks[t] = {'size': e.get('hostkey_size'), 'catype': e.get('ca_key_type', ''), 'casize': e.get('ca_key_size', 0)}
    return 'loaded', {'name': opt(p._name), 'version': opt(p._version), 'banner': opt(p._banner), 'comp': opt(p._compressions), 'key': opt(p._host_keys),
                      'opt': opt(p._optional_host_keys), 'kex': opt(p._kex), 'enc': opt(p._ciphers), 'mac': opt(p._macs),
                      'hksSet': p._hostkey_sizes is not None, 'hks': hks, 'dhsSet': p._dh_modulus_sizes is not None, 'dhs': dict(p._dh_modulus_sizes or {}),
                      'server': p.is_server_policy(), 'subset': p._allow_algorithm_subset_and_reordering, 'larger': p._allow_larger_keys,
                      'warned': buf.getvalue().count('deprecated features'), 'name_and_version': p.get_name_and_version()}, None


def _seq(v):
    """TLC prints an empty sequence and an empty function alike; lists of lists come back as lists."""
    return [list(x) if isinstance(x, (list, tuple)) else x for x in (v or [])]


def policy_file_leg(ck, tier, rnd):
    """SshPolicyFile.tla bound to policy.Policy(policy_data=...): every file TLC enumerates is written out, loaded by the real class and the
    object compared field by field with the model's; a sample goes through the CLI (-P file) to see that a refused file stops the run
    before any connection and a loaded one decides the verdict the loaded fields imply."""
    full = sorted(LINES)
    runs = [('all lines', full, 2 if tier == 'quick' else 3, '{<<>>, <<"name", "version">>}')]
    runs.append(('interacting lines', INTERACTING, 3 if tier == 'quick' else 4, '{<<"name", "version">>}' if tier == 'quick' else '{<<>>, <<"name", "version">>}'))
    seen = set()
    expected = {}
    total = 0
    for label, vocab, maxlines, headers in runs:
        cfg = ('SPECIFICATION Spec\nCONSTANTS\n Vocabulary = {%s}\n MaxLines = %d\n Headers <- HeadersDef\n' % (', '.join('"%s"' % t for t in vocab), maxlines)
               + ''.join('INVARIANT %s\n' % i for i in FILE_LAWS) + 'PROPERTY FlagsOnlyRise\nINVARIANT Emit\n')
        mod = ('---- MODULE MC_SshPolicyFile ----\nEXTENDS SshPolicyFile\nHeadersDef == %s\n====\n' % headers)
        res = tlc.run('MC_SshPolicyFile', cfg, generated={'MC_SshPolicyFile.tla': mod}, workers=None, timeout=3000)
        ck.add_tlc(res)
        common.require(res.ok, 'SshPolicyFile (%s): %s violated:\n%s' % (label, res.violated, '\n'.join(res.trace[-30:])))
        cases = [p for p in res.prints if isinstance(p, dict) and 'obj' in p]
        common.require(len(cases) > 500, 'SshPolicyFile (%s) emitted only %d files' % (label, len(cases)))
        ck.log('SshPolicyFile (%s): %d files of up to %d body lines; laws %s, FlagsOnlyRise hold' % (label, len(cases), maxlines, ', '.join(FILE_LAWS)))
        for c in cases:
            toks = tuple(c['file'] or [])
            if toks in seen:
                continue
            seen.add(toks)
            expected[toks] = c['obj']
            total += 1
            ck.evaluated()
            text = '\n'.join(LINES[t] for t in toks) + '\n'
            want = c['obj']
            kind, got, detail = _load_policy_text(text)
            replay = {'file_tokens': list(toks), 'policy_text': text, 'expected': {k: want[k] for k in ('status', 'reason')}, 'observed': (kind, got if kind == 'refused' else None, detail)}
            if want['status'] == 'refused' and want['reason'] == 'cakey-before-hostkey' and kind == 'loaded':
                # the model refuses because the code does (an unbound local); a loader that copes with such a file breaks nothing the
                # property states, so nothing is compared - the size such an entry gets when a host key size *was* given is compared below
                ck.cov['traces_validated_against_impl'] += 1
                continue
            if want['status'] == 'refused':
                if kind != 'refused':
                    ck.violation('policy-file-accepted reason=%s' % want['reason'], 'the file %r is loaded although the loader is documented to refuse it (%s)' % (list(toks), want['reason']), replay)
                elif got != want['reason'] and not got.startswith('other:') and want['reason'] != 'cakey-before-hostkey':
                    # (a refusal the harness cannot classify is still a refusal; the refusal of a CA size without a host key size is an
                    # accident of the code - an unbound local - so any refusal will do there; what is reported is a *different line or rule* deciding)
                    ck.violation('policy-file-refusal expected=%s observed=%s' % (want['reason'], got), 'the file %r is refused for %s (%s), the model says %s'
                                 % (list(toks), got, detail['exception'][:120], want['reason']), replay)
                elif not detail['catchable']:
                    ck.violation('policy-file-refusal-uncatchable', 'the file %r is refused by %s, which the command line does not turn into its error status' % (list(toks), detail['exception'][:120]), replay)
                else:
                    ck.cov['traces_validated_against_impl'] += 1
                    ck.nontrivial(('policy-file', toks))
                continue
            if kind != 'loaded':
                ck.violation('policy-file-refused reason=%s' % got, 'the file %r is refused (%s: %s), the model loads it' % (list(toks), got, detail['exception'][:160]), replay)
                continue
            bad = []
            for f in ('name', 'version', 'banner'):
                if _seq(want[f]) != got[f]:
                    bad.append((f, _seq(want[f]), got[f]))
            for f in ('comp', 'key', 'opt', 'kex', 'enc', 'mac'):
                if _seq(want[f]) != [list(x) for x in got[f]]:
                    bad.append((f, _seq(want[f]), got[f]))
            for f in ('hksSet', 'dhsSet', 'server', 'subset', 'larger', 'warned'):
                if want[f] != got[f]:
                    bad.append((f, want[f], got[f]))
            whks = {t: e for t, e in want['hks'].items() if e['size'] != -1}
            if whks != got['hks']:
                bad.append(('hks', whks, got['hks']))
            wdhs = {t: n for t, n in want['dhs'].items() if n != -1}
            if wdhs != got['dhs']:
                bad.append(('dhs', wdhs, got['dhs']))
            if not bad and got['name_and_version'] != '%s (version %s)' % (want['name'][0], want['version'][0]):
                bad.append(('name_and_version', '%s (version %s)' % (want['name'][0], want['version'][0]), got['name_and_version']))
            if bad:
                f, w, g = bad[0]
                replay['observed_fields'] = got
                ck.violation('policy-file-field field=%s' % f, 'the file %r loads with %s = %r, its lines say %r%s' % (list(toks), f, g, w, '' if len(bad) == 1 else ' (%d more fields differ)' % (len(bad) - 1)), replay)
            else:
                ck.cov['traces_validated_against_impl'] += 1
                ck.nontrivial(('policy-file', toks))
    ck.notes.append('policy-file leg: %d distinct files replayed into Policy(policy_data=...)' % total)
    policy_file_cli_leg(ck, tier, rnd, expected)


def policy_file_cli_leg(ck, tier, rnd, expected):
    """A sample of the enumerated files through the command line: refused => the error status and no connection at all; loaded =>
    the audit runs and the verdict is the one the loaded fields imply for a fixed server (ciphers / host key sizes / moduli)."""
    import os
    import shutil
    import tempfile
    n = 60 if tier == 'quick' else 400
    sample = rnd.sample(sorted(expected), min(n, len(expected)))
    want_of = expected
    # the server every sampled policy is applied to: what the 'enc' line lists, ed25519 + rsa-sha2-512 host keys (RSA 3072), GEX 3072
    server = dict(kex=['curve25519-sha256', 'diffie-hellman-group-exchange-sha256'], key=['ssh-ed25519', 'rsa-sha2-512'], enc=['aes256-ctr', 'aes128-ctr'],
                  mac=['hmac-sha2-256-etm@openssh.com'])
    tmp = tempfile.mkdtemp(prefix='vpolf-')
    try:
        scs = []
        for k, toks in enumerate(sample):
            path = os.path.join(tmp, 'p%d.txt' % k)
            with open(path, 'w') as f:
                f.write('\n'.join(LINES[t] for t in toks) + '\n')
            c = rating.mk_case(900 + k, kex=server['kex'], key=server['key'], enc=server['enc'], mac=server['mac'])
            sc = rating.scenario(c, 'json')
            sc['argv'] = ['-P', path] + [a for a in sc['argv']]
            scs.append(sc)
        for toks, sc, r in zip(sample, scs, runner.run_many(scs)):
            ck.evaluated()
            want = want_of[tuple(toks)]
            replay = {'file_tokens': list(toks), 'policy_text': '\n'.join(LINES[t] for t in toks), 'argv': sc['argv'][2:], 'exit': r.get('exit'), 'stdout': (r.get('stdout') or '')[-1500:],
                      'connections': r.get('nconn')}
            if r.get('harness_error') or r.get('hang'):
                ck.violation('policy-file-cli-run-did-not-complete', 'a run with the policy file %r did not complete: %r' % (list(toks), r.get('harness_error') or 'hang'), replay)
                continue
            nconn = r.get('nconn') or 0
            if want['status'] == 'refused' and want['reason'] == 'cakey-before-hostkey':
                continue
            if want['status'] == 'refused' or not want['server']:
                # (a client policy is refused for a server audit)
                if r['exit'] != 255 and r['exit'] != -1:
                    ck.violation('policy-file-cli-refused-status', 'the policy file %r cannot be used (%s) but the run ends with status %r' % (list(toks), want['reason'] or 'client policy', r['exit']), replay)
                elif nconn:
                    ck.violation('policy-file-cli-refused-connects', 'the policy file %r cannot be used (%s) yet %d connection(s) were made' % (list(toks), want['reason'] or 'client policy', nconn), replay)
                else:
                    ck.cov['traces_validated_against_impl'] += 1
                    ck.nontrivial(('policy-file-cli', tuple(toks)))
                continue
            # loaded server policy: the verdict over the fields the model says were loaded
            enc_ok = (not want['enc']) or list(want['enc'][0]) == server['enc'] or (want['subset'] and set(server['enc']) <= set(want['enc'][0]))
            if r['exit'] not in (0, 3):
                ck.violation('policy-file-cli-status', 'a loaded policy file %r: the audit ends with status %r' % (list(toks), r['exit']), replay)
            elif not enc_ok and r['exit'] != 3:
                ck.violation('policy-file-cli-verdict', 'the policy file %r lists ciphers %r, the server offers %r, yet the audit passes' % (list(toks), want['enc'][0], server['enc']), replay)
            else:
                ck.cov['traces_validated_against_impl'] += 1
                ck.nontrivial(('policy-file-cli', tuple(toks)))
    finally:
        shutil.rmtree(tmp, ignore_errors=True)
    ck.notes.append('policy-file CLI leg: %d files through -P' % len(sample))


def _field(p):
    if _map(p.get('hks')):
        return 'hostkey-sizes'
    if _map(p.get('dhs')):
        return 'dh-sizes'
    h = sorted(p['has'])
    return '+'.join(h) if h else 'none'


def _mode(p):
    return ('subset' if p['subset'] else 'exact') + ('+larger' if p['larger'] else '')


# ---------------------------------------------------------------------------
# CLI leg: real names, the real -P path, text and JSON, exit status (also C02's policy clause)
# ---------------------------------------------------------------------------
REAL = {
    'kex': ['curve25519-sha256', 'sntrup761x25519-sha512@openssh.com', 'diffie-hellman-group16-sha512', 'kex-strict-s-v00@openssh.com'],
    'key': ['ssh-ed25519', 'rsa-sha2-512', 'rsa-sha2-256'],
    'enc': ['aes256-gcm@openssh.com', 'aes128-ctr', 'chacha20-poly1305@openssh.com'],
    'mac': ['hmac-sha2-256-etm@openssh.com', 'hmac-sha2-512-etm@openssh.com', 'umac-128-etm@openssh.com'],
}


def cli_cases(rnd, n):
    cases = []
    for i in range(n):
        def pick(f, lo=1):
            k = rnd.randint(lo, len(REAL[f]))
            return rnd.sample(REAL[f], k)
        peer = {'banner': 'OpenSSH_9.6', 'comp': ['none'], 'key': pick('key'), 'kex': pick('kex'), 'enc': pick('enc'), 'mac': pick('mac')}
        rs = rnd.choice([2048, 3072, 4096])
        peer['hks'] = {t: {'size': rs if t != 'ssh-ed25519' else 256, 'catype': '', 'casize': 0} for t in peer['key']}
        if not any(k in ('curve25519-sha256', 'diffie-hellman-group16-sha512') for k in peer['kex']):
            peer['hks'] = {}        # no key exchange the tool can drive: nothing can be measured on this peer
        peer['dhs'] = {}
        if peer['hks'] and i % 6 == 5:
            # the server advertises its RSA key types but closes the probe connection instead of presenting the key: the size on
            # record is 0, which satisfies no policy size (neither exactly nor as "at least")
            for t in peer['hks']:
                if t != 'ssh-ed25519':
                    peer['hks'][t]['size'] = 0
        subset, larger = rnd.random() < 0.5, rnd.random() < 0.5
        pol = {'banner': '', 'comp': [], 'opt': [], 'has': ['key', 'kex', 'enc', 'mac'], 'subset': subset, 'larger': larger, 'dhs': {}}
        for f in ('key', 'kex', 'enc', 'mac'):
            base = list(peer[f])
            r = rnd.random()
            if r < 0.35:
                pass
            elif r < 0.55:
                rnd.shuffle(base)
            elif r < 0.8:
                extra = [x for x in REAL[f] if x not in base]
                if extra:
                    base.insert(rnd.randrange(len(base) + 1), rnd.choice(extra))
            else:
                if len(base) > 1:
                    base.pop(rnd.randrange(len(base)))
            pol[f] = base
        want = rs if rnd.random() < 0.6 else rnd.choice([2048, 3072, 4096])
        pol['hks'] = {t: {'size': want, 'catype': '', 'casize': 0} for t in peer['key'] if t != 'ssh-ed25519'}
        if rnd.random() < 0.3:
            pol['opt'] = [rnd.choice(REAL['key'])]
        if rnd.random() < 0.2:
            pol['has'] = pol['has'] + ['banner']
            pol['banner'] = rnd.choice(['OpenSSH_9.6', 'OpenSSH_9.7'])
        if i % 5 == 4:
            # a client policy, audited with -c against a client; a client names its lists per direction and nothing is probed on it
            pol['client'] = True
            pol['hks'] = {}
            peer['hks'] = {}
            peer['client'] = True
            if i % 10 == 9:
                peer['enc_c2s'] = [x for x in REAL['enc'] if x not in peer['enc']][:2] or ['aes128-cbc']
                peer['mac_c2s'] = list(reversed(REAL['mac']))[:2]
        if i % 7 == 3 and not pol.get('client') and peer['hks']:
            # a server that also offers a group exchange: the policy prescribes a modulus size, the probe measures the server's
            G = 'diffie-hellman-group-exchange-sha256'
            bits = rnd.choice([2048, 3072, 4096])
            peer['kex'] = peer['kex'] + [G]
            peer['dhs'] = {G: bits}
            pol['kex'] = pol['kex'] + [G] if rnd.random() < 0.8 else pol['kex']
            pol['dhs'] = {G: bits if rnd.random() < 0.5 else rnd.choice([2048, 3072, 4096])}
        pol['sep'] = (', ', ',', ' , ', ',  ')[i % 4]            # a policy file is written by people too: blanks around the commas are optional
        cases.append({'id': i + 1, 'policy': pol, 'peer': peer})
    return cases


def text_error_entries(stdout):
    """Errors block of a text policy report -> [(field, actual as shown)]"""
    import re
    out = report.strip_ansi(stdout)
    ents = []
    cur = None
    for line in out.split('\n'):
        m = re.match(r'\s*\* (.*) did not match\.\s*$', line)
        if m:
            cur = [m.group(1), None]
            ents.append(cur)
            continue
        m = re.match(r'\s*- Actual:\s*(.*?)\s*$', line)
        if m and cur is not None and cur[1] is None:
            cur[1] = m.group(1)
    return [(f, a) for f, a in ents]


def json_error_entries(doc):
    def norm(v):
        return ', '.join(str(x) for x in v) if isinstance(v, list) else str(v)
    return [(x['mismatched_field'], norm(x.get('actual', []))) for x in doc.get('errors', [])]


def compare_error_views(ck, tag, text_stdout, doc, replay):
    """Every error of the JSON report is rendered in the text report's Errors block (same field, same actual value); the text block
    shows nothing the JSON report lacks.  Identical entries may be shown once."""
    tx = set(text_error_entries(text_stdout))
    js = set(json_error_entries(doc))
    if tx != js:
        missing, extra = sorted(js - tx), sorted(tx - js)
        ck.violation('cli-text-errors-differ-from-json %s' % tag, 'the Errors block of the text report %s' %
                     ('lacks %r' % (missing,) if missing else 'shows %r, which the JSON report does not hold' % (extra,)), replay)
        return False
    return True


def same_field_errors_leg(ck):
    """Two errors under one field name (two certificates whose CA is too small / of the wrong type): each is reported, in both views."""
    ed = {'size': 256, 'catype': '', 'casize': 0}
    shapes = [
        ('two-ca-sizes', {'ssh-rsa-cert-v01@openssh.com': (3072, 'ssh-rsa', 2048), 'ssh-ed25519-cert-v01@openssh.com': (256, 'ssh-rsa', 3072)},
         {'ssh-rsa-cert-v01@openssh.com': {'size': 3072, 'catype': 'ssh-rsa', 'casize': 4096}, 'ssh-ed25519-cert-v01@openssh.com': {'size': 256, 'catype': 'ssh-rsa', 'casize': 4096}}, 2),
        ('two-ca-types', {'ssh-rsa-cert-v01@openssh.com': (3072, 'ssh-rsa', 4096), 'ssh-ed25519-cert-v01@openssh.com': (256, 'ssh-ed25519', 256)},
         {'ssh-rsa-cert-v01@openssh.com': {'size': 3072, 'catype': 'ecdsa-sha2-nistp256', 'casize': 256}, 'ssh-ed25519-cert-v01@openssh.com': {'size': 256, 'catype': 'ecdsa-sha2-nistp256', 'casize': 256}}, 2),
        ('one-ca-size', {'ssh-rsa-cert-v01@openssh.com': (3072, 'ssh-rsa', 2048), 'ssh-ed25519-cert-v01@openssh.com': (256, 'ssh-rsa', 4096)},
         {'ssh-rsa-cert-v01@openssh.com': {'size': 3072, 'catype': 'ssh-rsa', 'casize': 4096}, 'ssh-ed25519-cert-v01@openssh.com': {'size': 256, 'catype': 'ssh-rsa', 'casize': 4096}}, 1)]
    scs, meta = [], []
    for tag, actual, pol_hks, nerr in shapes:
        key = sorted(actual) + ['ssh-ed25519']
        pol = {'banner': '', 'comp': [], 'opt': [], 'has': ['key'], 'key': key, 'subset': False, 'larger': False, 'dhs': {}, 'hks': dict(pol_hks, **{'ssh-ed25519': ed})}
        hk = {t: rating.hostkey_blob(t, v) for t, v in actual.items()}
        hk['ssh-ed25519'] = rating.hostkey_blob('ssh-ed25519', (256, '', 0))
        srv = peers.ServerCfg(banner=b'SSH-2.0-OpenSSH_9.6', kexinit={'kex': ['curve25519-sha256'], 'key': key, 'enc': ['aes256-ctr'], 'mac': ['hmac-sha2-256'], 'comp': ['none']}, hostkeys=hk)
        for js in (False, True):
            scs.append({'argv': (['-j'] if js else ['-n']) + ['--skip-rate-test', '-P', '{tmp}/policy.txt', rating.HOST], 'servers': {(rating.HOST, 22): srv},
                        'files': {'policy.txt': policy_text(pol)}})
            meta.append((tag, js, nerr, pol))
    results = runner.run_many(scs)
    for i in range(0, len(scs), 2):
        tag, _, nerr, pol = meta[i]
        rt, rj = results[i], results[i + 1]
        ck.evaluated()
        replay = {'shape': tag, 'policy_text': policy_text(pol), 'text': {'exit': rt.get('exit'), 'stdout': (rt.get('stdout') or '')[-2500:]}, 'json': {'exit': rj.get('exit'), 'stdout': (rj.get('stdout') or '')[-2500:]}}
        if rt.get('harness_error') or rt.get('hang') or rj.get('harness_error') or rj.get('hang'):
            ck.violation('same-field-errors-run-did-not-complete', 'a policy audit did not complete', replay)
            continue
        try:
            doc = json.loads(rj['stdout'])
        except ValueError:
            ck.violation('cli-json-unparsable', 'policy JSON output does not parse', replay)
            continue
        if rt['exit'] != 3 or rj['exit'] != 3 or doc.get('passed') is not False:
            ck.violation('same-field-errors-verdict shape=%s' % tag, 'certificates with CA keys the policy does not allow: exit %r / %r, passed=%r' % (rt['exit'], rj['exit'], doc.get('passed')), replay)
            continue
        ca = [e for e in json_error_entries(doc) if e[0].startswith('CA signature')]
        if len(ca) != nerr:
            ck.violation('same-field-errors-count shape=%s' % tag, 'the JSON report holds %d CA errors %r, the rule gives %d' % (len(ca), ca, nerr), replay)
            continue
        if compare_error_views(ck, 'shape=%s' % tag, rt['stdout'], doc, replay):
            ck.cov['traces_validated_against_impl'] += 1
            ck.nontrivial(('same-field-errors', tag))


def cli_leg(ck, tier, rnd, n=None):
    n = n or (150 if tier == 'quick' else 1500)
    cases = cli_cases(rnd, n)
    cfg = 'SPECIFICATION Spec\nCONSTANTS\n Mode = "oracle"\n MaxLen = 2\n' + ''.join('INVARIANT %s\n' % i for i in LAWS) + 'INVARIANT Emit\n'
    res = tlc.run('SshPolicy', cfg, generated={'cases.json': json.dumps(cases)}, env={'VERIF_CASES': 'cases.json'}, workers=1)
    ck.add_tlc(res)
    common.require(res.ok, 'SshPolicy (oracle): %s violated:\n%s' % (res.violated, '\n'.join(res.trace[-30:])))
    exp = {p['id']: p for p in res.prints if isinstance(p, dict) and 'errors' in p}
    common.require(len(exp) == len(cases), 'TLC emitted %d verdicts for %d cases' % (len(exp), len(cases)))
    scs = []
    for c in cases:
        q = c['peer']
        hk = {t: rating.hostkey_blob(t, (v['size'], v['catype'], v['casize'])) for t, v in q['hks'].items() if v['size'] > 0}
        srv = peers.ServerCfg(banner=banner_text(q['banner']).encode(), kexinit={'kex': q['kex'], 'key': q['key'], 'enc': q['enc'], 'mac': q['mac'], 'comp': q['comp']},
                              hostkeys=hk)
        if q.get('dhs'):
            srv['gex'] = {'per_alg': {a: {'style': 'roundup', 'moduli': [b_]} for a, b_ in q['dhs'].items()}}
        for js in (False, True):
            if q.get('client'):
                kx = {'kex': q['kex'], 'key': q['key'], 'enc': q['enc'], 'mac': q['mac'], 'comp': q['comp']}
                for f in ('enc_c2s', 'mac_c2s'):
                    if f in q:
                        kx[f] = q[f]
                scs.append({'argv': (['-j'] if js else ['-n']) + ['--skip-rate-test', '-c', '-p', '2222', '-t', '5', '-P', '{tmp}/policy.txt'],
                            'clients': [{'banner': banner_text(q['banner']).encode(), 'kexinit': kx}], 'files': {'policy.txt': policy_text(c['policy'])}})
                continue
            scs.append({'argv': (['-j'] if js else ['-n']) + ['--skip-rate-test', '-P', '{tmp}/policy.txt', rating.HOST],
                        'servers': {(rating.HOST, 22): srv}, 'files': {'policy.txt': policy_text(c['policy'])}})
    results = runner.run_many(scs)
    k = 0
    for c in cases:
        e = exp[c['id']]
        text_out = None
        for js in (False, True):
            r, sc = results[k], scs[k]
            k += 1
            ck.evaluated()
            if r.get('harness_error') or r.get('hang'):
                raise common.Machinery('policy run failed: %r' % (r.get('harness_error') or 'hang'))
            replay = {'policy_text': policy_text(c['policy']), 'peer': c['peer'], 'expected': e, 'argv': sc['argv'], 'exit': r['exit'], 'stdout': r['stdout'][-2500:]}
            want_exit = 0 if e['passed'] else 3
            if r['exit'] != want_exit:
                ck.violation('cli-exit view=%s' % ('json' if js else 'text'), 'policy audit exits %r, verdict by the rule is %s' % (r['exit'], 'passed' if e['passed'] else 'failed'), replay)
                continue
            if js:
                try:
                    doc = json.loads(r['stdout'])
                except ValueError:
                    ck.violation('cli-json-unparsable', 'policy JSON output does not parse', replay)
                    continue
                got = sorted({x['mismatched_field'] for x in doc.get('errors', [])})
                if doc.get('passed') != e['passed'] or got != sorted(e['errors']):
                    ck.violation('cli-json-verdict', 'JSON says passed=%r fields %r; the rule says passed=%r fields %r' % (doc.get('passed'), got, e['passed'], sorted(e['errors'])), replay)
                    continue
                if text_out is not None and not compare_error_views(ck, 'case', text_out, doc, dict(replay, text_stdout=text_out[-2500:])):
                    continue
            else:
                ok_line = 'Passed' in r['stdout'] and 'Failed!' not in r['stdout']
                if ok_line != e['passed']:
                    ck.violation('cli-text-verdict', 'text result line disagrees with the rule (passed=%r)' % e['passed'], replay)
                    continue
                for f in e['errors']:
                    if ('* %s did not match.' % f) not in r['stdout']:
                        ck.violation('cli-text-error-missing', 'mismatched field %r not named in the Errors block' % f, replay)
                text_out = r['stdout']
            ck.cov['traces_validated_against_impl'] += 1
            if not e['passed']:
                ck.nontrivial(('cli', c['id'], js))
    ck.notes.append('CLI leg: %d policy audits through -P (text and JSON): exit status 0 <=> passed, 3 <=> failed' % len(results))
    same_field_errors_leg(ck)
    multi_target_leg(ck, cases, exp, rnd)
    builtin_optional_leg(ck, tier)


def builtin_optional_leg(ck, tier):
    """Built-in policies: host keys are compared after removing the policy's optional host keys, so a server configured exactly as
    the policy lists that additionally offers one of its optional host-key types (sized as the policy prescribes) passes."""
    from checks import c05
    tb = rating.tables()
    scs, meta = [], []
    for name, p in sorted(tb['policies'].items()):
        if not p['server'] or not p.get('optional_host_keys'):
            continue
        opts = [t for t in p['optional_host_keys'] if t not in p['host_keys']]
        allopts = list(opts)
        if tier != 'thorough':
            # one type the tool cannot probe (a security-key type: advertised, never measured) and one it can
            sk = [t for t in opts if t.startswith('sk-')][:1]
            opts = sk + [t for t in opts if not t.startswith('sk-')][:2 - len(sk)]
        # one optional type at a time, then several next to one another (all of them in front, all of them behind, a pair in the middle)
        groups = [(k % (len(p['host_keys']) + 1), [o]) for k, o in enumerate(opts)]
        if len(allopts) >= 2:
            groups += [(0, allopts), (len(p['host_keys']), list(reversed(allopts))), (len(p['host_keys']) // 2, allopts[:2])]
            if len(allopts) >= 3:
                groups.append((0, allopts[-3:]))
        for at, grp in groups:
            opt = '+'.join(grp)
            key = list(p['host_keys'])
            key[at:at] = grp
            hks = {}
            for t in key:
                if t not in rating.DEFAULT_HK:
                    continue            # a type the tool does not probe (sk-*): nothing is measured on it
                v = p['hostkey_sizes'].get(t)
                if v:
                    hks[t] = {'size': v['hostkey_size'], 'catype': v.get('ca_key_type', ''), 'casize': v.get('ca_key_size', 0)}
                elif t in rating.DEFAULT_HK:
                    d = rating.DEFAULT_HK[t]
                    hks[t] = {'size': d[0], 'catype': d[1], 'casize': d[2]}
            q = {'banner': 'OpenSSH_9.6', 'comp': ['none'], 'kex': p['kex'], 'key': key, 'enc': p['ciphers'], 'mac': p['macs'], 'hks': hks, 'dhs': dict(p['dh_modulus_sizes'])}
            for js in (False, True):
                scs.append({'argv': (['-j'] if js else ['-n']) + ['--skip-rate-test', '-P', name, rating.HOST], 'servers': {(rating.HOST, 22): c05.server_of(q)}})
                meta.append((name, opt, q, js))
    for (name, opt, q, js), sc, r in zip(meta, scs, runner.run_many(scs)):
        ck.evaluated()
        if r.get('harness_error') or r.get('hang'):
            raise common.Machinery('built-in policy run failed: %r' % (r.get('harness_error') or 'hang'))
        ck.nontrivial(('builtin-optional', name, opt, js))
        if r['exit'] != 0:
            ck.violation('builtin-policy-optional-host-key view=%s' % ('json' if js else 'text'),
                         'policy %r: a conforming server that also offers the optional host key %s gets status %s' % (name, opt, r['exit']),
                         {'policy': name, 'optional_host_key': opt, 'peer': q, 'argv': sc['argv'], 'stdout': r['stdout'][-2000:]})
        else:
            ck.cov['traces_validated_against_impl'] += 1


def multi_target_leg(ck, cases, exp, rnd):
    """One policy, several targets in one invocation (-T): each target's verdict and error list is its own
    (a fresh evaluation per target - the error accumulator of the policy must not carry over)."""
    from checks import multi
    groups = []
    for c in [x for x in cases if not x['policy'].get('client')][:40]:
        # the same policy against: its own peer, a peer violating the ciphers, a peer violating the MACs
        q0 = c['peer']
        q1 = dict(q0, enc=[x for x in REAL['enc'] if x not in c['policy']['enc']][:1] or ['aes128-cbc'])
        q2 = dict(q0, mac=[x for x in REAL['mac'] if x not in c['policy']['mac']][:1] or ['hmac-sha1'])
        groups.append((c['policy'], [q1, q0, q2, q0]))
    sub = []
    for gi, (pol, qs) in enumerate(groups):
        for qi, q in enumerate(qs):
            sub.append({'id': gi * 10 + qi, 'policy': pol, 'peer': q})
    cfg = 'SPECIFICATION Spec\nCONSTANTS\n Mode = "oracle"\n MaxLen = 2\nINVARIANT Emit\n'
    res = tlc.run('SshPolicy', cfg, generated={'cases.json': json.dumps(sub)}, env={'VERIF_CASES': 'cases.json'}, workers=1)
    ck.add_tlc(res)
    common.require(res.ok, 'SshPolicy (multi-target oracle): %s' % res.error_text)
    e2 = {p['id']: p for p in res.prints if isinstance(p, dict) and 'errors' in p}
    scs, meta = [], []
    for gi, (pol, qs) in enumerate(groups):
        tg = []
        for q in qs:
            hk = {t: rating.hostkey_blob(t, (v['size'], v['catype'], v['casize'])) for t, v in q['hks'].items() if v['size'] > 0}
            tg.append(('server', peers.ServerCfg(banner=banner_text(q['banner']).encode(), kexinit={'kex': q['kex'], 'key': q['key'], 'enc': q['enc'], 'mac': q['mac'],
                                                                                             'comp': q['comp']}, hostkeys=hk)))
            if q.get('dhs'):
                tg[-1][1]['gex'] = {'per_alg': {a: {'style': 'roundup', 'moduli': [b_]} for a, b_ in q['dhs'].items()}}
        for threads in (1, 2):
            sc, labels = multi.scenario(tg, threads, tuple(range(len(tg))) if threads == 1 else None, json_out=True, extra=['-P', '{tmp}/policy.txt'])
            sc['files']['policy.txt'] = policy_text(pol)
            scs.append(sc)
            meta.append((gi, labels, threads))
    for (gi, labels, threads), sc, r in zip(meta, scs, runner.run_many(scs)):
        ck.evaluated()
        if r.get('harness_error') or r.get('hang'):
            raise common.Machinery('multi-target policy run failed: %r' % (r.get('harness_error') or 'hang'))
        replay = {'policy_text': sc['files']['policy.txt'], 'argv': sc['argv'], 'exit': r['exit'], 'stdout': r['stdout'][-3000:]}
        try:
            doc = json.loads(r['stdout'])
        except ValueError:
            ck.violation('multi-target-policy-json-unparsable', 'stdout of a -T -P -j run is not JSON', replay)
            continue
        bad = False
        for el in doc:
            lab = '%s:%s' % (el.get('host'), el.get('port'))
            if lab not in labels:
                continue
            want = e2[gi * 10 + labels.index(lab)]
            got = sorted({x['mismatched_field'] for x in el.get('errors', [])})
            if el.get('passed') != want['passed'] or got != sorted(want['errors']) or (el.get('passed') and el.get('errors')):
                ck.violation('multi-target-policy-verdict threads=%d' % threads,
                             'target %s in a -T policy run: passed=%r errors=%r; evaluated on its own the rule gives passed=%r errors=%r'
                             % (lab, el.get('passed'), got, want['passed'], sorted(want['errors'])), replay)
                bad = True
                break
        want_exit = 0 if all(e2[gi * 10 + i]['passed'] for i in range(4)) else 3
        if not bad and r['exit'] != want_exit:
            ck.violation('multi-target-policy-exit', 'exit status %r, expected %r' % (r['exit'], want_exit), replay)
            bad = True
        if not bad:
            ck.cov['traces_validated_against_impl'] += 1
            ck.nontrivial(('multi-policy', gi, threads))
    ck.notes.append('multi-target policy leg: %d -T -P runs, each target compared with its own verdict' % len(scs))


def c02_leg(ck, tier):
    """C02: a policy audit exits 0 exactly when its verdict is passed and 3 exactly when it is failed."""
    cli_leg(ck, 'quick', random.Random(ck.seed + 6), n=80)
