"""C16 - identification strings are recognised, decomposed and sanitised correctly.

SshBanner.tla: the peer sends other lines and then SSH-<major>.<minor>-<software>[ <comments>], with CR LF or LF; the
tool splits lines, skips blank ones, takes other lines as header text and the first line of banner form as the banner,
decomposes it, shows bytes outside printable ASCII as "?" and flags the banner.  TLC checks BannerFound,
HeaderIsOthers, PartsAreParts, RoundTrip and KnownProducts on every case of the grammar's small universe (protocol
versions x software tokens x comments x endings x 0..2 header lines x injected bytes 01/7f/80/ff) and emits wire bytes +
expected header/parts/rendering/product.  Replay: (a) in-process through SSH_Socket.get_banner over the wire bytes
(whole and split at line boundaries), Banner.parse / str(banner) / Software.parse; (b) a sample through the CLI
((gen) banner / header / software lines, JSON banner object).  Harness-chosen cases (random printable software tokens,
product strings at random versions and patch levels) are evaluated by the same spec.
"""
import json
import random

from harness import common, tlc, runner, peers, report
from checks import rating

LAWS = ['BannerFound', 'HeaderIsOthers', 'PartsAreParts', 'RoundTrip', 'KnownProducts']


def bs(x):
    return bytes(x)


def chosen(rnd, tier):
    cases = []
    printable = [c for c in range(33, 127)]
    n = 300 if tier == 'quick' else 4000
    prods = ['OpenSSH_%s', 'OpenSSH_%sp1', 'OpenSSH_%sp2-hpn', 'dropbear_%s', 'dropbear_%stest1', 'libssh-%s', 'libssh_%s', 'tinyssh_%s', 'PuTTY_Release_%s',
             'RomSShell_%s', 'Cisco-%s', 'mpSSH_%s', 'OpenSSH-%s', 'OpenSSH.%s']
    for i in range(n):
        r = rnd.random()
        if r < 0.5:
            v = '.'.join(str(rnd.choice([0, 1, 2, 7, 9, 10, 12, 99, 2020])) for _ in range(rnd.randint(2, 4)))
            sw = (rnd.choice(prods) % v).encode()
        else:
            sw = bytes(rnd.choice(printable) for _ in range(rnd.randint(1, 20)))
            if sw.startswith(b'SSH-'):
                sw = b'x' + sw
        cm = b''
        if rnd.random() < 0.5:
            words = [bytes(rnd.choice(printable) for _ in range(rnd.randint(1, 8))) for _ in range(rnd.randint(1, 3))]
            cm = rnd.choice([b' ', b'  ', b'\t']).join(words)
        if rnd.random() < 0.15:
            pos = rnd.randrange(len(sw))
            sw = sw[:pos] + bytes([rnd.choice([1, 127, 128, 255])]) + sw[pos + 1:]
        others = [rnd.choice([b'hello', b'Welcome', b'', b' ', b'SSH is fun', b'---', b'banner: SSH-2.0-fake']) for _ in range(rnd.choice([0, 0, 1, 2, 3]))]
        proto = rnd.choice([(1, 3), (1, 5), (1, 99), (2, 0), (2, 1)])
        cases.append({'others': [list(o) for o in others], 'parts': {'major': proto[0], 'minor': proto[1], 'software': list(sw), 'comments': list(cm)},
                      'eol': rnd.choice(['crlf', 'lf'])})
    # long lines: pre-banner lines and identification strings well beyond 255 bytes, some carrying a quoted identification string
    # at an offset where a reader that chops lines into pieces would start a new piece
    for k, (ln, decoy_at) in enumerate(((256, None), (300, None), (600, 255), (700, 510), (1000, None))):
        line = bytearray(b'L' * ln)
        if decoy_at is not None:
            q = b'SSH-2.0-Decoy_1.0 quoted'
            line[decoy_at:decoy_at + len(q)] = q
        cases.append({'others': [list(bytes(line))], 'parts': {'major': 2, 'minor': 0, 'software': list(b'OpenSSH_9.%d' % k), 'comments': list(b'')}, 'eol': 'crlf' if k % 2 else 'lf'})
    # lines that begin like an identification string and are none (no digit.digit version, something else than '-' or the end of the line
    # behind the version): they are other lines - reported as header text, never taken for the banner, never dropped
    for k, oth in enumerate(([b'SSH-server maintenance at 5pm'], [b'SSH-2.0x legacy gateway'], [b'SSH-22.0-NotABanner', b'hello'], [b'SSH-2.0_underscore'],
                             [b'SSH-', b'SSH-2', b'SSH-2.'], [b'SSH-x.y-z', b'ssh-2.0-lowercase'])):
        cases.append({'others': [list(o) for o in oth], 'parts': {'major': 2, 'minor': 0, 'software': list(b'OpenSSH_9.%d' % k), 'comments': list(b'')}, 'eol': 'crlf' if k % 2 else 'lf'})
    # look-alikes of the version part (something else than a dot between the two numbers), and long runs of other lines: any number of
    # them may precede the identification string
    for k, oth in enumerate(([b'SSH-2x0-Decoy_1.0'], [b'SSH-200-service ready'], [b'SSH-2-0-compatible gateway, please wait'], [b'SSH-1,5-legacy'], [b'SSH-2 0-relay', b'SSH-2:0-x'])):
        cases.append({'others': [list(o) for o in oth], 'parts': {'major': 2, 'minor': 0, 'software': list(b'OpenSSH_8.%d' % k), 'comments': list(b'')}, 'eol': 'crlf' if k % 2 else 'lf'})
    for k, n_lines in enumerate((31, 32, 33, 48, 200)):
        # (short lines: the whole exchange stays below the 2048 bytes of one recv(); what happens to lines cut by a segment boundary is C09's finding)
        cases.append({'others': [list(b'n%d' % (i + 1)) for i in range(n_lines)],
                      'parts': {'major': 2, 'minor': 0, 'software': list(b'dropbear_2020.8%d' % k), 'comments': list(b'')}, 'eol': 'crlf'})
    # control characters that text-level whitespace stripping would swallow (0x1c..0x1f) at the very end of the identification string: they
    # are part of the line, shown as '?' and make the banner non-conforming like anywhere else
    for k, ctl in enumerate((0x1c, 0x1d, 0x1e, 0x1f)):
        cases.append({'others': [], 'parts': {'major': 2, 'minor': 0, 'software': list(b'OpenSSH_9.6' + bytes([ctl])), 'comments': list(b'')}, 'eol': 'crlf' if k % 2 else 'lf'})
        cases.append({'others': [list(b'hello')], 'parts': {'major': 2, 'minor': 0, 'software': list(b'dropbear_2022.83'), 'comments': list(b'note' + bytes([ctl]))}, 'eol': 'lf' if k % 2 else 'crlf'})
        cases.append({'others': [], 'parts': {'major': 1, 'minor': 99, 'software': list(b'Srv_1.0' + bytes([ctl, ctl])), 'comments': list(b'')}, 'eol': 'crlf'})
    # other lines that repeat (the frame of a notice, separators, a message sent twice): every line sent is a line reported, as often as it was sent
    for k, oth in enumerate(([b'*****', b'* authorised use only *', b'*****'], [b'--', b'part one', b'--', b'part two', b'--'], [b'same line', b'same line'],
                             [b'hello', b'', b'hello', b''], [b'x', b'y', b'x', b'y', b'x'])):
        cases.append({'others': [list(o) for o in oth], 'parts': {'major': 2, 'minor': 0, 'software': list(b'OpenSSH_7.%d' % k), 'comments': list(b'')}, 'eol': 'crlf' if k % 2 else 'lf'})
    cases.append({'others': [], 'parts': {'major': 2, 'minor': 0, 'software': list(b'OpenSSH_8.9p1'), 'comments': list(b' '.join([b'word%d' % i for i in range(60)]))}, 'eol': 'crlf'})
    cases.append({'others': [list(b'x' * 254), list(b'y' * 255), list(b'z' * 257)], 'parts': {'major': 2, 'minor': 0, 'software': list(b'dropbear_2022.83'), 'comments': list(b'')}, 'eol': 'crlf'})
    return cases


class _Feed:
    def __init__(self, chunks):
        self.chunks = list(chunks)
        self.sent = b''

    def send(self, d):
        self.sent += d
        return len(d)

    def recv(self, n):
        if not self.chunks:
            return b''
        c = self.chunks[0]
        out, rest = c[:n], c[n:]
        if rest:
            self.chunks[0] = rest
        else:
            self.chunks.pop(0)
        return out

    def shutdown(self, how):
        pass

    def close(self):
        pass


def read_banner(chunks):
    from ssh_audit.ssh_socket import SSH_Socket
    from ssh_audit.outputbuffer import OutputBuffer
    s = SSH_Socket(OutputBuffer(), 'localhost', 22)
    s._SSH_Socket__sock = _Feed(chunks)
    return s.get_banner()


def run(tier):
    ck = common.Check('C16', tier)
    rnd = random.Random(ck.seed)
    runner.load_repo()
    from ssh_audit.banner import Banner
    from ssh_audit.software import Software
    cfg = 'SPECIFICATION Spec\nCONSTANTS\n Mode = "%s"\n MaxOthers = ' + ('1' if tier == 'quick' else '2') + '\n' + ''.join('INVARIANT %s\n' % i for i in LAWS) + 'INVARIANT Emit\n'
    res = tlc.run('SshBanner', cfg % 'mc', workers=1, timeout=3000)
    ck.add_tlc(res)
    common.require(res.ok, 'SshBanner: the reference reader violates its own law %s:\n%s' % (res.violated, '\n'.join(res.trace[-30:])))
    exps = [p for p in res.prints if isinstance(p, dict) and 'wire' in p]
    ck.log('TLC: %d grammar cases (%d states); laws %s hold' % (len(exps), res.distinct, ', '.join(LAWS)))
    ch = chosen(rnd, tier)
    r2 = tlc.run('SshBanner', cfg % 'oracle', generated={'cases.json': json.dumps(ch)}, env={'VERIF_CASES': 'cases.json'}, workers=1, timeout=3000)
    ck.add_tlc(r2)
    common.require(r2.ok, 'SshBanner (oracle): %s violated:\n%s' % (r2.violated, '\n'.join(r2.trace[-30:])))
    exps += [p for p in r2.prints if isinstance(p, dict) and 'wire' in p]
    seen = set()
    cli = []
    for e in exps:
        wire_b = bs(e['wire'])
        if wire_b in seen:
            continue
        seen.add(wire_b)
        ck.evaluated()
        ck.nontrivial(wire_b)
        want_sw = bs(e['banner']['software']).decode('ascii')
        want_cm = bs(e['banner']['comments']).decode('ascii')
        want_hdr = [bs(h).decode('utf-8', 'replace').rstrip() for h in e['header']]
        want_render = bs(e['rendered']).decode('ascii')
        replay = {'wire': wire_b.hex(), 'wire_text': wire_b.decode('latin-1'), 'expected': {'major': e['banner']['major'], 'minor': e['banner']['minor'], 'software': want_sw,
                  'comments': want_cm, 'valid_ascii': e['banner']['valid'], 'header': want_hdr, 'rendered': want_render, 'product': e['product']['product']}}
        if want_sw == '' and want_cm:
            continue        # "SSH-2.0- c": there is no software token to report (not generated by the grammar; excluded, see DESIGN)
        if want_sw.startswith('SSH-') and len(want_sw) > 6 and want_sw[4].isdigit():
            continue        # multi-protocol spelling SSH-1.99-SSH-2.0-...: read as a protocol list by design
        # split at line boundaries, and whole
        lines = wire_b.split(b'\n')
        chunkings = [[wire_b], [l + b'\n' for l in lines[:-1]]]
        for chunks in chunkings:
            try:
                b, header, err = read_banner(chunks)
            except Exception as ex:      # noqa
                ck.violation('get_banner-raises %s' % type(ex).__name__, repr(ex), replay)
                break
            if b is None:
                ck.violation('banner-not-recognised kind=%s' % _kind(e), 'the banner line is not accepted (error %r, header %r)' % (err, header), replay)
                break
            got = {'major': b.protocol[0], 'minor': b.protocol[1], 'software': b.software or '', 'comments': b.comments or '', 'valid': b.valid_ascii}
            want = {'major': e['banner']['major'], 'minor': e['banner']['minor'], 'software': want_sw, 'comments': want_cm, 'valid': e['banner']['valid']}
            if e['banner']['major'] == 1 and e['banner']['minor'] == 99:
                pass
            bad = [k for k in want if got[k] != want[k]]
            if bad:
                ck.violation('banner-parts field=%s kind=%s' % ('+'.join(bad), _kind(e)), 'parsed %r, the line says %r' % ({k: got[k] for k in bad}, {k: want[k] for k in bad}), replay)
                break
            if [h.rstrip() for h in header] != want_hdr:
                ck.violation('header-lines', 'header %r, other lines sent %r' % (header, want_hdr), replay)
                break
            if str(b) != want_render:
                ck.violation('banner-render', 'str(banner) = %r, expected %r' % (str(b), want_render), replay)
                break
            b2 = Banner.parse(str(b))
            if b2 is None or (b2.protocol, b2.software, b2.comments) != (b.protocol, b.software, b.comments):
                ck.violation('banner-roundtrip', 'parsing the rendered banner gives different parts', replay)
                break
            sw = Software.parse(b)
            wp = e['product']
            if wp['product']:
                wv = bs(wp['version']).decode('ascii')
                wpatch = bs(wp['patch']).decode('ascii')
                if sw is None or sw.product != wp['product'] or sw.version != wv or (sw.patch or '') != wpatch:
                    ck.violation('product-extraction product=%s' % wp['product'].replace(' ', ''), 'software %r recognised as %r, expected %s %s patch %r'
                                 % (want_sw, sw and (sw.product, sw.version, sw.patch), wp['product'], wv, wpatch), replay)
                    break
        else:
            ck.cov['traces_validated_against_impl'] += 1
            cli.append((e, replay))
    # CLI sample, stratified: half of it with header lines before the banner, and some non-conforming banners
    ncli = 150 if tier == 'quick' else 1500
    with_hdr = [x for x in cli if x[0]['header']]
    nonascii = [x for x in cli if not x[0]['banner']['valid']]
    rest = [x for x in cli if not x[0]['header'] and x[0]['banner']['valid']]
    pick = rnd.sample(with_hdr, min(len(with_hdr), ncli // 2)) + rnd.sample(nonascii, min(len(nonascii), ncli // 6))
    pick += rnd.sample(rest, min(len(rest), ncli - len(pick)))
    # (exchanges whose other lines repeat always go through the CLI: the report is where a repeated line could get lost)
    pick += [x for x in with_hdr if len(set(x[1]['expected']['header'])) < len(x[1]['expected']['header']) and x not in pick]
    cli_leg(ck, pick)
    client_cli_leg(ck, pick)
    gone_leg(ck, rnd.sample(pick, min(len(pick), 12 if tier == 'quick' else 120)))
    twins_leg(ck, rnd.sample(nonascii, min(len(nonascii), 8 if tier == 'quick' else 60)))
    ck.sample({'wire_text': bs(exps[7]['wire']).decode('latin-1'), 'expected_software': bs(exps[7]['banner']['software']).decode('latin-1'),
               'expected_header': [bs(h).decode('latin-1') for h in exps[7]['header']]})
    ck.cov['rule'] = ('TLC enumerates the grammar universe {1.5,1.99,2.0,2.1} x 11 software tokens x 5 comment forms x {CRLF,LF} x 0..2 header lines over 6 x injected '
                      'bytes {01,7f,80,ff}; harness adds random printable tokens and product strings at random versions/patch levels, evaluated by the same spec; all '
                      'replayed into get_banner (whole stream and split at line ends), Banner.parse, str(), Software.parse, and a sample through the CLI. distinct = wire bytes')
    ck.assumptions += ['comments are compared after collapsing whitespace runs', 'software tokens that are empty while comments follow, or that start with SSH-<d>, are outside the grammar',
                       'arbitrary TCP segmentation of the identification exchange is C09\'s finding, not repeated here']
    return ck.finish()


def _kind(e):
    if not e['banner']['valid']:
        return 'non-ascii'
    return 'plain'


def client_cli_leg(ck, cli):
    """The same identification exchanges sent by a connecting client to a client audit (-c): banner and header text are reported as
    for a server."""
    pick = [x for x in cli if x[0]['header']][:40] + [x for x in cli if not x[0]['header']][:10]
    scs = []
    for e, replay in pick:
        wire_b = bs(e['wire'])
        lines = wire_b.split(b'\n')
        eol = b'\r\n' if lines[0].endswith(b'\r') or (len(lines) > 1 and wire_b.endswith(b'\r\n')) else b'\n'
        body = [l.rstrip(b'\r') if eol == b'\r\n' else l for l in lines[:-1]]
        cl = {'banner': body[-1], 'prebanner': body[:-1], 'eol': eol,
              'kexinit': {'kex': ['curve25519-sha256'], 'key': ['ssh-ed25519'], 'enc': ['aes128-ctr'], 'mac': ['hmac-sha2-256'], 'comp': ['none']}}
        scs.append({'argv': ['-n', '-c', '-p', '2222', '-t', '5'], 'clients': [cl]})
    for (e, replay), sc, r in zip(pick, scs, runner.run_many(scs)):
        ck.evaluated()
        if r.get('harness_error') or r.get('hang'):
            raise common.Machinery('client audit run failed: %r' % (r.get('harness_error') or 'hang'))
        rp = dict(replay, exit=r['exit'], stdout=r['stdout'][-1500:], role='client')
        want = replay['expected']
        if r['exit'] not in (0, 2, 3):
            ck.violation('cli-banner-not-audited role=client exit=%s' % r['exit'], 'client audit of a client with this identification exchange ends with status %s' % r['exit'], rp)
            continue
        tx = report.parse_text(r['stdout'])
        hdr = [h.rstrip() for h in tx.get('header', [])]
        if tx['gen'].get('banner') != want['rendered']:
            ck.violation('cli-banner view=text role=client', '(gen) banner: %r, expected %r' % (tx['gen'].get('banner'), want['rendered']), rp)
        elif hdr != want['header']:
            ck.violation('cli-header view=text role=client', '(gen) header: %r, expected %r' % (hdr, want['header']), rp)
        else:
            ck.cov['traces_validated_against_impl'] += 1
            ck.nontrivial(('client-cli', bs(e['wire'])))


def gone_leg(ck, cli):
    """A server that sends its lines and goes away before the tool has written its own identification string (the write fails with EPIPE or
    ECONNRESET; what was received can still be read): the lines it sent are reported all the same - header text, the identification string
    and what it names - before the connection error."""
    import errno
    scs, meta = [], []
    for e, replay in cli:
        wire_b = bs(e['wire'])
        lines = wire_b.split(b'\n')
        eol = b'\r\n' if lines[0].endswith(b'\r') or (len(lines) > 1 and wire_b.endswith(b'\r\n')) else b'\n'
        body = [l.rstrip(b'\r') if eol == b'\r\n' else l for l in lines[:-1]]
        for en in (errno.EPIPE, errno.ECONNRESET):
            cfg = peers.ServerCfg(banner=body[-1], prebanner=body[:-1], eol=eol, gone_after_banner=en)
            scs.append({'argv': ['-n', '--skip-rate-test', '-2', rating.HOST], 'servers': {(rating.HOST, 22): cfg}})
            meta.append((replay, en))
    for (replay, en), r in zip(meta, runner.run_many(scs)):
        ck.evaluated()
        if r.get('harness_error') or r.get('hang'):
            raise common.Machinery('gone-after-banner run failed: %r' % (r.get('harness_error') or 'hang'))
        want = replay['expected']
        rp = dict(replay, write_fails_with=errno.errorcode[en], exit=r['exit'], stdout=r['stdout'][-1500:])
        tx = report.parse_text(r['stdout'])
        hdr = [h.rstrip() for h in tx.get('header', [])]
        if tx['gen'].get('banner') != want['rendered'] or hdr != want['header']:
            ck.violation('lines-of-a-vanished-server-not-reported', 'the server sent %r and went away (writes fail with %s): the report shows banner %r, header %r'
                         % (replay['wire_text'], errno.errorcode[en], tx['gen'].get('banner'), hdr), rp)
        else:
            ck.cov['traces_validated_against_impl'] += 1
            ck.nontrivial(('gone', replay['wire'], en))


def twins_leg(ck, cli):
    """Two servers audited in one run (-T, one worker) whose identification strings are shown alike: one carries bytes outside printable ASCII
    (shown as '?'), the other the very characters shown - a conforming string with literal question marks.  Each is judged on the bytes it
    sent: the first is flagged as non-conforming, the second is not, in either order."""
    from checks import multi
    kx = {'kex': ['curve25519-sha256'], 'key': ['ssh-ed25519'], 'enc': ['aes128-ctr'], 'mac': ['hmac-sha2-256'], 'comp': ['none']}
    scs, meta = [], []
    for e, replay in cli:
        wire_b = bs(e['wire'])
        lines = wire_b.split(b'\n')
        eol = b'\r\n' if lines[0].endswith(b'\r') or (len(lines) > 1 and wire_b.endswith(b'\r\n')) else b'\n'
        body = [l.rstrip(b'\r') if eol == b'\r\n' else l for l in lines[:-1]]
        twin = replay['expected']['rendered'].encode('ascii')
        if twin == body[-1] or '?' not in replay['expected']['rendered']:
            continue
        bad = peers.ServerCfg(banner=body[-1], prebanner=body[:-1], eol=eol, kexinit=kx, hostkeys={'ssh-ed25519': peers.ed25519_blob()})
        good = peers.ServerCfg(banner=twin, prebanner=body[:-1], eol=eol, kexinit=kx, hostkeys={'ssh-ed25519': peers.ed25519_blob()})
        for order in (('bad', 'good'), ('good', 'bad'), ('bad', 'good', 'bad')):
            sc, labels = multi.scenario([('server', bad if o == 'bad' else good) for o in order], 1, None, json_out=False, extra=['-2'])
            scs.append(sc)
            meta.append((order, labels, replay))
    for (order, labels, replay), sc, r in zip(meta, scs, runner.run_many(scs)):
        ck.evaluated()
        if r.get('harness_error') or r.get('hang'):
            raise common.Machinery('twin banner run failed: %r' % (r.get('harness_error') or 'hang'))
        rp = dict(replay, order=order, exit=r['exit'], stdout=r['stdout'][-2500:])
        blocks = {}
        for b in multi.split_text(r['stdout']):
            lab = multi.label_of_block(b, labels)
            if lab:
                blocks[lab] = b
        ok = True
        for o, lab in zip(order, labels):
            if lab not in blocks:
                ck.violation('twin-banners-block-missing', 'no report for target %s (%s)' % (lab, o), rp)
                ok = False
                break
            tx = report.parse_text(multi.strip_target_line(blocks[lab]))
            flagged = any('non-printable ASCII' in f for f in tx['gen'].get('_flags', []))
            if tx['gen'].get('banner') != replay['expected']['rendered'] or flagged != (o == 'bad'):
                ck.violation('twin-banners-verdict-carried-over sent=%s' % o, 'targets %r in one run: the %s identification string is shown as %r and %s'
                             % (order, 'non-conforming' if o == 'bad' else 'conforming (literal question marks)', tx['gen'].get('banner'),
                                'flagged as containing non-printable characters' if flagged else 'not flagged'), rp)
                ok = False
                break
        if ok:
            ck.cov['traces_validated_against_impl'] += 1
            ck.nontrivial(('twins', order, replay['wire']))


def cli_leg(ck, cli):
    scs = []
    for e, replay in cli:
        wire_b = bs(e['wire'])
        lines = wire_b.split(b'\n')
        eol = b'\r\n' if lines[0].endswith(b'\r') or (len(lines) > 1 and wire_b.endswith(b'\r\n')) else b'\n'
        body = [l.rstrip(b'\r') if eol == b'\r\n' else l for l in lines[:-1]]
        cfg = peers.ServerCfg(banner=body[-1], prebanner=body[:-1], eol=eol,
                              kexinit={'kex': ['curve25519-sha256'], 'key': ['ssh-ed25519'], 'enc': ['aes128-ctr'], 'mac': ['hmac-sha2-256'], 'comp': ['none']},
                              hostkeys={'ssh-ed25519': peers.ed25519_blob()})
        for js in (False, True):
            scs.append({'argv': (['-j'] if js else ['-n']) + ['--skip-rate-test', '-2', rating.HOST], 'servers': {(rating.HOST, 22): cfg}})
    results = runner.run_many(scs)
    k = 0
    for e, replay in cli:
        for js in (False, True):
            r = results[k]
            k += 1
            ck.evaluated()
            if r.get('harness_error') or r.get('hang'):
                raise common.Machinery('CLI banner run failed: %r' % (r.get('harness_error') or 'hang'))
            rp = dict(replay, exit=r['exit'], stdout=r['stdout'][-1500:])
            want = replay['expected']
            if r['exit'] not in (0, 2, 3):
                ck.violation('cli-banner-not-audited exit=%s' % r['exit'], 'audit of a server with this identification exchange ends with status %s' % r['exit'], rp)
                continue
            if js:
                doc = json.loads(r['stdout'])
                b = doc.get('banner', {})
                got = (b.get('protocol'), b.get('software') or '', b.get('comments') or '', b.get('raw'))
                exp = ('%d.%d' % (want['major'], want['minor']), want['software'], want['comments'], want['rendered'])
                if got != exp:
                    ck.violation('cli-banner view=json', 'JSON banner %r, expected %r' % (got, exp), rp)
                    continue
            else:
                tx = report.parse_text(r['stdout'])
                if tx['gen'].get('banner') != want['rendered']:
                    ck.violation('cli-banner view=text', '(gen) banner: %r, expected %r' % (tx['gen'].get('banner'), want['rendered']), rp)
                    continue
                hdr = [h.rstrip() for h in tx.get('header', [])]
                if hdr != want['header']:
                    ck.violation('cli-header view=text', '(gen) header: %r, expected %r' % (hdr, want['header']), rp)
                    continue
                flagged = any('non-printable ASCII' in f for f in tx['gen'].get('_flags', []))
                if flagged == want['valid_ascii']:
                    ck.violation('cli-nonascii-flag', 'banner flagged non-conforming: %r, expected %r' % (flagged, not want['valid_ascii']), rp)
                    continue
                if want['product'] and not tx['gen'].get('software', '').startswith(want['product']):
                    ck.violation('cli-software-line', '(gen) software: %r, expected product %s' % (tx['gen'].get('software'), want['product']), rp)
                    continue
            ck.cov['traces_validated_against_impl'] += 1
