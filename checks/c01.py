"""C01 - the report lists exactly what the peer advertised.

SshRating: Render(cat, i) appends one line per non-blank advertised name; invariant ShownIsAdvertised.
 * Mode "mclist": TLC enumerates every list (length <= 2 quick / 3 thorough) over {good, warn, fail, unknown,
   gss-with-=+/, ""} for one category at a time, both roles; each emitted case is replayed in the plain, batch,
   verbose and JSON renderings.
 * Mode "oracle": harness-chosen lists (every database name once among random neighbours, 300-byte names,
   non-UTF-8 bytes, duplicates, single-element lists), expected reports from TLC.
 * SSH-1: SshV1.tla (all cipher/auth masks).
Also compares banner and compression methods as sent.
"""
import random

from harness import common, runner, report
from checks import rating

VIEWS = ('text', 'batch', 'verbose', 'json')


def chosen_cases(tb, rnd, tier):
    db = tb['db2']
    cases = []
    cid = [0]
    base = {'kex': ['curve25519-sha256'], 'key': ['ssh-ed25519'], 'enc': ['aes128-ctr'], 'mac': ['hmac-sha2-256-etm@openssh.com']}

    def add(role='server', **kw):
        cid[0] += 1
        d = dict(base)
        d.update(kw)
        comp = d.pop('comp', ['none'])
        c = rating.mk_case(cid[0], role=role, comp=comp, **d)
        cases.append(c)
        return c

    probeable = set(rating.DEFAULT_HK)
    for cat in ('kex', 'key', 'enc', 'mac'):
        names = [n for n in db[cat] if not (cat == 'key' and n in tb['hostkey_types'] and n not in probeable)]
        for i, n in enumerate(names):
            if tier == 'quick' and i % 3 != cid[0] % 3 and not n.startswith('gss-'):
                pass
            neigh = rnd.sample(names, 2)
            spell = n
            if n.startswith('gss-') and n.endswith('*'):
                spell = n[:-1] + rnd.choice(['toWM5Slw5Ew8Mqkay+al2g==', 'A/vxljAEU54gt9a48EiANQ==', 'eipGX3TCiQSrx573bT1o1Q=='])
            lst = [neigh[0], spell, neigh[1]]
            lst = [x[:-1] + 'abc=' if x.startswith('gss-') and x.endswith('*') else x for x in lst]
            add(role='server' if i % 2 == 0 else 'client', **{cat: lst})
    long_name = 'x' * 290 + '@example.org'
    add(kex=[long_name, 'curve25519-sha256'])
    add(enc=['aes128-ctr', long_name])
    add(role='client', mac=[long_name])
    # a KEXINIT close to the largest packet every implementation must accept (RFC 4253 6.1: 35000 bytes in total): ~33.9 KB of names
    def many(prefix, n):
        return ['%s%03d-%s@example.org' % (prefix, i, 'y' * (64 - len(prefix) - 3 - 1 - 12)) for i in range(n)]
    add(kex=['curve25519-sha256'] + many('kx', 100), key=['ssh-ed25519'] + many('hk', 19), enc=['aes128-ctr'] + many('en', 99), mac=['hmac-sha2-256'] + many('ma', 99))
    add(role='client', kex=many('kx', 100) + ['curve25519-sha256'], key=many('hk', 19) + ['ssh-ed25519'], enc=many('en', 99) + ['aes128-ctr'], mac=many('ma', 99) + ['hmac-sha2-256'])
    add(kex=[b'curve25519-sha256', b'caf\xe9-kex@example.org'])
    add(enc=[b'\xff\xfe-cipher', b'aes128-ctr'])
    add(mac=[b'hmac-sha2-256', b'mac-\xc3\x28@example.org'], role='client')
    add(key=[b'ssh-ed25519', b'k\x80y'])
    add(kex=['curve25519-sha256', 'curve25519-sha256', 'curve25519-sha256'])
    add(enc=['aes128-ctr', 'aes256-ctr', 'aes128-ctr'], mac=['hmac-sha1', 'hmac-sha1'])
    add(comp=['none'])
    add(comp=['zlib@openssh.com', 'none'])
    add(comp=['zlib', 'zlib@openssh.com'], role='client')
    add(comp=['none', 'foo-comp'])
    add(comp=['zlib@openssh.com', 'zlib', 'none'])          # not in alphabetical order: shown as sent
    add(comp=['zlib', 'none', 'zlib'], role='client')       # a method named twice: shown twice
    add(comp=['zlib', 'zlib@openssh.com', 'zlib'])
    # host-key types the server advertises but never presents (it closes the probe connection): still advertised, still listed
    c = add(key=['rsa-sha2-512', 'rsa-sha2-256', 'ssh-ed25519'])
    c['withheld'] = ['rsa-sha2-512', 'rsa-sha2-256', 'ssh-rsa']
    c = add(key=['ssh-ed25519', 'ecdsa-sha2-nistp256', 'ssh-rsa'])
    c['withheld'] = ['ssh-ed25519', 'ecdsa-sha2-nistp256']
    # identification strings using the whole printable range (0x20..0x7E: the tilde of Debian backport versions included)
    add(banner='SSH-2.0-OpenSSH_6.0p1 Debian-4+deb7u2~bpo60+1')
    add(banner='SSH-2.0-Srv_1.0 !"#$%&\'()*+,./:;<=>?@[\\]^_`{|}~', role='client')
    add(banner='SSH-2.0-~tilde~_2.0 ~')
    # the two directions of a KEXINIT may differ (RFC 4253 7.1); the report is about the server-to-client lists
    asym = dict(enc=['aes128-ctr', 'aes256-ctr'], enc_c2s=['aes256-gcm@openssh.com', '3des-cbc'],
                mac=['hmac-sha2-512-etm@openssh.com', 'umac-128@openssh.com'], mac_c2s=['hmac-sha1', 'hmac-md5', 'hmac-sha2-256'])
    for role in ('server', 'client'):
        add(role=role, **asym)
        add(role=role, enc=asym['enc'], enc_c2s=asym['enc_c2s'])
        add(role=role, mac=asym['mac'], mac_c2s=asym['mac_c2s'])
        add(role=role, enc=['chacha20-poly1305@openssh.com'], enc_c2s=[], mac=['hmac-sha2-256'], mac_c2s=[])
    # peers on which every probe runs (host-key probes for several types, group-exchange probes, rate check): probing must not
    # change what is listed, or its order
    import itertools
    hk = ['rsa-sha2-512', 'rsa-sha2-256', 'ecdsa-sha2-nistp256', 'ssh-ed25519']
    perms = list(itertools.permutations(hk))
    if tier == 'quick':
        perms = perms[::3]
    kexes = (['curve25519-sha256', 'diffie-hellman-group-exchange-sha256', 'diffie-hellman-group14-sha256'],
             ['diffie-hellman-group-exchange-sha1', 'diffie-hellman-group-exchange-sha256', 'ecdh-sha2-nistp256'])
    for i, pm in enumerate(perms):
        add(kex=kexes[i % 2], key=list(pm), enc=['aes256-ctr', 'aes128-ctr', 'chacha20-poly1305@openssh.com'],
            mac=['hmac-sha2-512', 'hmac-sha2-256-etm@openssh.com', 'umac-128-etm@openssh.com'], comp=['zlib@openssh.com', 'none'])
    return cases


def run(tier):
    ck = common.Check('C01', tier)
    rnd = random.Random(ck.seed)
    tb = rating.tables()
    import os
    os.environ['VERIF_MAXLEN'] = '2' if tier == 'quick' else '3'
    mc = rating.evaluate(ck, mode='mclist', workers=None)
    ck.log('TLC enumerated %d list cases; ShownIsAdvertised holds on the pipeline' % len(mc))
    cases, expected = [], {}
    for k, e in enumerate(mc):
        ec = e['case']
        c = rating.mk_case(100000 + k, role=ec['role'], kex=ec['kex'], key=ec['key'], enc=ec['enc'], mac=ec['mac'])
        cases.append(c)
        e['id'] = c['id']
        expected[c['id']] = e
    ch = chosen_cases(tb, rnd, tier)
    expected.update(rating.evaluate(ck, ch))
    cases += ch
    if tier == 'quick':
        views_for = lambda c: VIEWS if c['id'] < 100000 or c['id'] % 2 == 0 else ('text', 'json')
    else:
        views_for = lambda c: VIEWS
    scs, idx = [], []
    for c in cases:
        for v in views_for(c):
            scs.append(rating.scenario(c, v))
            idx.append((c, v))
    results = runner.run_many(scs)
    for (c, v), sc, res in zip(idx, scs, results):
        exp = expected[c['id']]
        ck.evaluated()
        ck.nontrivial((c['role'], tuple(map(rating.shown, c['kex'])), tuple(map(rating.shown, c['key'])),
                       tuple(map(rating.shown, c['enc'])), tuple(map(rating.shown, c['mac'])), tuple(c['comp'])))
        if res.get('harness_error') or res.get('hang'):
            raise common.Machinery('run failed: %r' % (res.get('harness_error') or 'hang'))
        replay = {'case': c, 'view': v, 'argv': sc['argv'], 'expected_names': {cat: [l['name'] for l in exp['lines'][cat]] for cat in exp['lines']},
                  'stdout': res['stdout'][-3000:], 'exit': res['exit']}
        if res['exit'] not in (0, 2, 3):
            exc, loc = rating.crash_signature(res)
            ck.violation('no-report exit=%s uncaught=%s at=%s' % (res['exit'], exc, loc),
                         'audit ended with status %s (%s in %s) instead of a report' % (res['exit'], exc, loc), replay)
            continue
        try:
            if v == 'json':
                js = report.parse_json(res['stdout'])
                diffs = rating.compare_names(c, exp, js=js)
                want_comp = [rating.shown(x) for x in c['comp']]
                if js.get('compression') != want_comp:
                    diffs.append(('compression view=json', 'JSON compression %r, sent %r' % (js.get('compression'), want_comp)))
                want_banner = c['banner'] or rating.render_sw(c['sw'])
                if js.get('banner', {}).get('raw') != want_banner:
                    diffs.append(('banner view=json', 'JSON banner %r, sent %r' % (js.get('banner', {}).get('raw'), want_banner)))
            else:
                tx = rating.parse_view(res, v, exp)
                diffs = rating.compare_names(c, exp, text=tx)
                non_none = [rating.shown(x) for x in c['comp'] if rating.shown(x) != 'none']
                want = 'enabled (%s)' % ', '.join(non_none) if non_none else 'disabled'
                if tx['gen'].get('compression') != want:
                    diffs.append(('compression view=%s' % v, 'text compression %r, sent %r' % (tx['gen'].get('compression'), c['comp'])))
                want_banner = c['banner'] or rating.render_sw(c['sw'])
                if tx['gen'].get('banner') != want_banner:
                    diffs.append(('banner view=%s' % v, 'text banner %r, sent %r' % (tx['gen'].get('banner'), want_banner)))
        except (report.ParseError, ValueError) as e:
            raise common.Machinery('cannot parse the %s report: %r\n%s' % (v, e, res['stdout'][:2000]))
        for sig, desc in diffs:
            ck.violation(sig if v in sig else sig.replace('view=text', 'view=%s' % v), '[%s peer] %s' % (c['role'], desc), replay)
        ck.cov['traces_validated_against_impl'] += 1
        if v == 'text':
            ck.sample({'role': c['role'], 'kex': [rating.shown(x) for x in c['kex']][:4], 'key': [rating.shown(x) for x in c['key']][:4],
                       'shown_kex': [l['name'] for l in exp['lines']['kex']][:4]})
    try:
        from checks import sshv1
        sshv1.run_c01(ck, tier, rnd)
    except ImportError:
        ck.notes.append('SSH-1 leg not built yet')
    ck.cov['rule'] = ('TLC enumerates all lists of length <= %s over {good, warn, fail, unknown, gss(=+/), ""} per category x role; harness-chosen: every '
                      'database name among random neighbours, 300-byte names, non-UTF-8 bytes, duplicates, compression lists; each replayed in plain, '
                      'batch, verbose, JSON. distinct = distinct (role, lists)' % os.environ['VERIF_MAXLEN'])
    ck.assumptions += ['a non-UTF-8 name is shown as its UTF-8 decoding with U+FFFD',
                       'JSON entries whose algorithm is the empty string are not names']
    return ck.finish()
