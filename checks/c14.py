"""C14 - software versions are ordered numerically, component by component.

spec/SshVersion.tla is the reference order.  TLC (a) checks the order laws exhaustively on a small
universe, (b) evaluates the comparison matrix of a harness-supplied universe; the matrix is replayed
into Software.compare_version / between_versions (releases enter through Banner.parse + Software.parse,
the path a real banner takes), and the code's own answers are checked for antisymmetry and
transitivity.  The CLI leg (banners at multi-digit versions vs the (rec)/(gen) compatibility lines)
lives in C13's machinery and is run from here too.
"""
import itertools
import json
import os
import random

from harness import common, tlc, runner

PRODUCTS = {
    'OpenSSH': ('SSH-2.0-OpenSSH_%s', [('none', 0), ('p', 1), ('p', 2)]),
    'Dropbear SSH': ('SSH-2.0-dropbear_%s', [('none', 0), ('test', 1)]),
    'libssh': ('SSH-2.0-libssh-%s', [('none', 0)]),
}
QUICK_COMPS = [0, 1, 2, 9, 10, 11, 100]
THOROUGH_COMPS = [0, 1, 2, 9, 10, 11, 12, 99, 100, 101, 2013, 2020]


def render(v):
    s = '.'.join(str(c) for c in v['c'])
    kind, n = v['p']
    if kind == 'p':
        s += 'p%d' % n
    elif kind == 'test':
        s += 'test%d' % n
    return s


def universe(product, comps, rnd):
    vs = []
    for k in (1, 2, 3):
        for t in itertools.product(comps, repeat=k):
            if k == 1 and t[0] < 10:
                # a one-character version is not a release spelling any product banner regex accepts - but it is a version other
                # versions can be compared *with* (a table entry "appeared in 7"): used as an argument only
                if t[0] in (1, 2, 9):
                    vs.append({'c': list(t), 'p': ['none', 0], 'arg_only': True})
                continue
            vs.append({'c': list(t), 'p': ['none', 0]})
    for k in (2,):
        for t in itertools.product(comps, repeat=k):
            for p in PRODUCTS[product][1][1:]:
                vs.append({'c': list(t), 'p': list(p)})
    for _ in range(60):          # four components, sampled
        vs.append({'c': [rnd.choice(comps) for _ in range(4)], 'p': ['none', 0]})
    return vs


def run(tier):
    ck = common.Check('C14', tier, level='model_checking')
    rnd = random.Random(ck.seed)
    runner.load_repo()
    from ssh_audit.banner import Banner
    from ssh_audit.software import Software

    # 1. laws of the reference order, exhaustive on the small universe
    cfg = 'SPECIFICATION Spec\nCONSTANT Mode = "mc"\n' + ''.join(
        'INVARIANT %s\n' % i for i in ('Antisymmetric', 'Reflexive', 'Total', 'Transitive', 'NumericNotTextual',
                                      'SinceIsMonotone', 'OpenSSHPatchRule'))
    res = tlc.run('SshVersion', cfg)
    ck.add_tlc(res)
    common.require(res.ok, 'the reference order violates its own law %s' % res.violated)
    ck.log('laws hold on the model universe (%d states)' % res.distinct)

    comps = QUICK_COMPS if tier == 'quick' else THOROUGH_COMPS
    pairs = 0
    for product, (fmt, _) in PRODUCTS.items():
        vs = universe(product, comps, rnd)
        cases = {'product': product, 'versions': vs}
        res = tlc.run('SshVersion', 'SPECIFICATION Spec\nCONSTANT Mode = "oracle"\nINVARIANT Emit\n',
                      generated={'cases.json': json.dumps(cases)}, env={'VERIF_CASES': 'cases.json'})
        ck.add_tlc(res)
        common.require(res.ok, 'TLC failed evaluating the oracle: %s' % res.error_text)
        rows = {p['i']: p['row'] for p in res.prints if isinstance(p, dict) and 'row' in p}
        common.require(len(rows) == len(vs), 'TLC emitted %d rows for %d versions' % (len(rows), len(vs)))
        texts = [render(v) for v in vs]
        softs = []
        for t, v in zip(texts, vs):
            if v.get('arg_only'):
                softs.append(None)
                continue
            b = Banner.parse(fmt % t)
            s = Software.parse(b) if b is not None else None
            common.require(s is not None, 'banner %r not recognised as %s' % (fmt % t, product))
            softs.append(s)
        code = []
        for i, s in enumerate(softs):
            code.append(None if s is None else [_sign(s.compare_version(texts[j])) for j in range(len(vs))])
        n = len(vs)
        for i in range(n):
            exp = rows[i + 1]
            got = code[i]
            if got is None:
                continue
            for j in range(n):
                e = exp[j]
                if e == 2:
                    continue
                pairs += 1
                if got[j] != e:
                    cls = _classify(vs[i], vs[j])
                    ck.violation('compare_version product=%s class=%s' % (product, cls),
                                 '%s %s vs %s: tool says %d, numeric order says %d' % (product, texts[i], texts[j], got[j], e),
                                 {'product': product, 'self': texts[i], 'other': texts[j], 'tool': got[j], 'expected': e,
                                  'how': 'Software.parse(Banner.parse(%r)).compare_version(%r)' % (fmt % texts[i], texts[j])})
                if e != 0:
                    ck.nontrivial((product, min(i, j), max(i, j)))
                # antisymmetry of the code's own answers
                if code[j] is not None and got[j] != -code[j][i] and exp[j] != 2:
                    ck.violation('compare_version product=%s not-antisymmetric' % product,
                                 '%s: cmp(%s,%s)=%d but cmp(%s,%s)=%d' % (product, texts[i], texts[j], got[j], texts[j], texts[i], code[j][i]),
                                 {'product': product, 'a': texts[i], 'b': texts[j]})
                # between_versions(vfrom, vtill) must agree with the order
            # availability: between_versions(s, '') <=> Compare(v, s) >= 0
        for _ in range(20000 if tier == 'quick' else 200000):
            i, j, k = rnd.randrange(n), rnd.randrange(n), rnd.randrange(n)
            if 2 in (rows[i + 1][j], rows[j + 1][k], rows[i + 1][k]) or code[i] is None or code[j] is None:
                continue
            ck.evaluated()
            if code[i][j] <= 0 and code[j][k] <= 0 and code[i][k] > 0:
                ck.violation('compare_version product=%s not-transitive' % product,
                             '%s <= %s <= %s but %s > %s' % (texts[i], texts[j], texts[k], texts[i], texts[k]),
                             {'product': product, 'a': texts[i], 'b': texts[j], 'c': texts[k]})
            bt = softs[j].between_versions(texts[i], texts[k])
            e = rows[j + 1][i] >= 0 and rows[j + 1][k] <= 0
            if bt != e:
                ck.violation('between_versions product=%s' % product,
                             '%s between %s and %s: tool %r, numeric %r' % (texts[j], texts[i], texts[k], bt, e),
                             {'product': product, 'v': texts[j], 'from': texts[i], 'till': texts[k]})
        ck.sample({'product': product, 'self': texts[len(vs) // 2], 'other': texts[len(vs) // 3],
                   'expected_sign': rows[len(vs) // 2 + 1][len(vs) // 3], 'tool_sign': code[len(vs) // 2][len(vs) // 3]})
        ck.log('%s: %d releases, matrix compared' % (product, n))
    ck.evaluated(pairs)
    ck.cov['traces_validated_against_impl'] = pairs
    ck.cov['rule'] = ('all ordered pairs of releases with 1-3 components over %s (+60 random 4-component releases, + patch forms per product), '
                      'expected sign computed by TLC from SshVersion!Compare; non-trivial = unordered pair whose expected sign is not 0; '
                      'triples sampled for transitivity/between_versions of the code' % comps)
    ck.cov['exhaustive'] = False
    ck.assumptions += ['releases enter through Banner.parse/Software.parse with the product banner spellings of the repo tests',
                       'pairs differing only by trailing .0 components are not ordered by the property and are skipped']
    frames_leg(ck, rnd, tier)
    descriptor_leg(ck, rnd, tier)
    db_frames_leg(ck, rnd, tier)
    # CLI leg: shared with C13
    try:
        from checks import c13
        c13.cli_version_leg(ck, tier)
    except (ImportError, AttributeError):
        ck.notes.append('CLI leg (banner -> (rec)+ / compatibility) not run: C13 machinery not present')
    sequence_leg(ck, tier)
    return ck.finish()


def sequence_leg(ck, tier):
    """Several servers of one product, at versions on both sides of first-appeared releases, audited one after the other in a
    single invocation (-T, one thread): every audit's availability judgements are those of its own version (TLC's), whatever
    was audited before it."""
    import json as _json
    import random as _random
    from harness import runner
    from checks import multi, rating
    rnd = _random.Random(ck.seed)
    seqs = [('OpenSSH', [(6, 4), (10, 0), (6, 5), (9, 9), (7, 3), (9, 10)]),
            ('libssh', [(0, 10, 6), (0, 6, 4), (0, 7, 0), (0, 11, 0)]),
            ('Dropbear SSH', [(2019, 78), (2022, 83), (2013, 56), (2020, 79)])]
    cases, groups = [], []
    for product, versions in seqs:
        for order in (versions, list(reversed(versions))):
            g = []
            for v in order:
                c = rating.mk_case(len(cases) + 1, kex=['diffie-hellman-group14-sha1', 'curve25519-sha256'], key=['ssh-rsa'], enc=['aes256-ctr'],
                                   mac=['hmac-sha2-256'], sw={'product': product, 'c': list(v), 'p': ['none', 0]}, hk={'ssh-rsa': (3072, '', 0)})
                cases.append(c)
                g.append(c)
            groups.append(g)
    expected = rating.evaluate(ck, cases, workers=None)
    scs = []
    for g in groups:
        sc, labels = multi.scenario([('server', rating.server_cfg(c)) for c in g], 1, tuple(range(len(g))), json_out=True)
        scs.append((sc, labels, g))
    # the same sequences on several worker threads at once, with the interpreter switching threads as often as it can (so that
    # unsynchronised shared state, if any, is hit): every audit's judgements are still those of its own version
    for g in groups:
        for rep in range(3 if tier == 'quick' else 12):
            sc, labels = multi.scenario([('server', rating.server_cfg(c)) for c in g], 4, None, json_out=True)
            scs.append((multi.eager(sc), labels, g))
    # ... and deterministically: the first two audits of some sequences on two threads, one preempted after every block of source lines
    # of the tool's code (SshSched plans replayed by harness/sched.py), wherever that is - inside a version comparison too
    for g in groups[::max(1, len(groups) // (3 if tier == 'quick' else 12))]:
        if len(g) < 2:
            continue
        g2 = g[:2]
        sc, labels = multi.scenario([('server', rating.server_cfg(c)) for c in g2], 2, None, json_out=True)
        for lp, s2 in multi.line_schedules(ck, sc, labels, rnd, blocks=(30 if tier == 'quick' else 120), preempt=1):
            scs.append((s2, labels, g2))
    for (sc, labels, g), r in zip(scs, runner.run_many([x[0] for x in scs])):
        ck.evaluated()
        if r.get('harness_error') or r.get('hang'):
            raise common.Machinery('sequence run failed: %r' % (r.get('harness_error') or 'hang'))
        replay = {'banners': [rating.render_sw(c['sw']) for c in g], 'argv': sc['argv'], 'exit': r['exit'], 'stdout': r['stdout'][-3000:]}
        try:
            doc = _json.loads(r['stdout'])
        except ValueError:
            ck.violation('sequence-json-unparsable', 'stdout of a -T -j run is not JSON', replay)
            continue
        bad = False
        for el in doc:
            lab = '%s:%s' % (el.get('host') or el.get('target', '').split(':')[0], el.get('port', 22))
            lab = lab if lab in labels else el.get('target')
            if lab not in labels:
                continue
            c = g[labels.index(lab)]
            for sig, desc in rating.compare_recs(c, expected[c['id']], js=el):
                ck.violation('sequence-' + sig, '[%s, audited after %r] %s' % (rating.render_sw(c['sw']), [rating.render_sw(x['sw']) for x in g[:g.index(c)]], desc), replay)
                bad = True
        if not bad:
            ck.cov['traces_validated_against_impl'] += 1
            ck.nontrivial(('sequence', tuple(rating.render_sw(c['sw']) for c in g)))


def _sign(x):
    return -1 if x < 0 else (1 if x > 0 else 0)


def _classify(a, b):
    wa = {len(str(c)) for c in a['c']} | {len(str(c)) for c in b['c']}
    if a['c'] == b['c']:
        return 'patch-only'
    # position of first differing component
    for x, y in zip(a['c'], b['c']):
        if x != y:
            return 'component-width-differs' if len(str(x)) != len(str(y)) else 'same-width-components'
    return 'prefix'


def descriptor_leg(ck, rnd, tier):
    """The database writes "first appeared in" releases as descriptors - an optional product prefix ('d' Dropbear, 'l1' libssh, none
    OpenSSH), the version, an optional 'C' for client-only: decoding a descriptor gives back exactly the version that was written,
    whatever digits it begins with (a libssh 1.x or 10.x release begins with the digit of the prefix), for every product."""
    from ssh_audit.algorithm import Algorithm
    comps = [0, 1, 2, 7, 9, 10, 11, 12, 19, 99, 100, 101, 110, 111, 2013, 2020]
    vers = set()
    for a in comps:
        for b in comps:
            vers.add((a, b))
            for c in (0, 1, 10, 11):
                vers.add((a, b, c))
    if tier == 'quick':
        vers = set(rnd.sample(sorted(vers), 600)) | {(1, 0, 1), (11, 0, 1), (12, 1), (1, 1), (10, 7, 0), (111, 1), (2020, 80)}
    want_prod = {'': 'OpenSSH', 'd': 'Dropbear SSH', 'l1': 'libssh'}
    n = 0
    for v in sorted(vers):
        txt = '.'.join(str(x) for x in v)
        for pre in ('', 'd', 'l1'):
            for cli in (False, True):
                ck.evaluated()
                n += 1
                desc = pre + txt + ('C' if cli else '')
                try:
                    got = Algorithm.get_ssh_version(desc)
                except Exception as e:      # noqa
                    ck.violation('descriptor-decoding-raises', 'get_ssh_version(%r) raised %r' % (desc, e), {'descriptor': desc})
                    continue
                want = (want_prod[pre], txt, cli)
                if tuple(got) != want:
                    ck.violation('descriptor-decoding product=%s' % want_prod[pre].split()[0], 'the descriptor %r decodes to %r, it was written as %r' % (desc, tuple(got), want),
                                 {'descriptor': desc, 'decoded': list(got), 'written': list(want)})
                else:
                    ck.cov['traces_validated_against_impl'] += 1
    ck.nontrivial(('descriptors', n))
    ck.notes.append('descriptor leg: %d database version descriptors decoded' % n)


def frames_leg(ck, rnd, tier):
    """Compatibility ranges: newest first-appeared / oldest last-supported release among a set, by the numeric order (TLC),
    replayed into Timeframe (the '(gen) compatibility' line is rendered from it)."""
    from ssh_audit.timeframe import Timeframe
    comps = [0, 1, 2, 7, 9, 10, 11, 99, 100, 2013, 2020]
    cases = []
    for _ in range(400 if tier == 'quick' else 4000):
        prod = rnd.choice(['OpenSSH', 'Dropbear SSH'])

        def ver():
            return [rnd.choice(comps) for _ in range(rnd.randint(2, 3))]
        since = [ver() for _ in range(rnd.randint(1, 4))]
        till = [ver() for _ in range(rnd.randint(0, 3))]
        if till:
            since.append([0, 1])
        cases.append({'product': prod, 'since': [{'c': v, 'p': ['none', 0]} for v in since], 'till': [{'c': v, 'p': ['none', 0]} for v in till]})
    res = tlc.run('SshVersion', 'SPECIFICATION Spec\nCONSTANT Mode = "frames"\nINVARIANT EmitFrames\n', generated={'cases.json': json.dumps(cases)},
                  env={'VERIF_CASES': 'cases.json'}, workers=1)
    ck.add_tlc(res)
    common.require(res.ok, 'SshVersion (frames): %s' % res.error_text)
    exp = [p for p in res.prints if isinstance(p, list)]
    common.require(len(exp) >= 1 and len(exp[0]) == len(cases), 'TLC did not emit the expected compatibility frames')
    exp = exp[0]
    pre = {'OpenSSH': '', 'Dropbear SSH': 'd'}
    for c, e in zip(cases, exp):
        ck.evaluated()
        tf = Timeframe()
        p = pre[c['product']]
        txt = lambda v: '.'.join(str(x) for x in v['c'])
        nt = len(c['till'])
        plain_since = c['since'][:-1] if nt else c['since']
        for v in plain_since:
            tf.update([p + txt(v)], True)
        for v in c['till']:
            tf.update([p + '0.1', p + txt(v)], True)
        got_from, got_till = tf.get_from(c['product'], True), tf.get_till(c['product'], True)
        want_from = '.'.join(str(x) for x in e['from'])
        want_till = '.'.join(str(x) for x in e['till']) if e['till'] else None
        # a version and the same version with trailing .0 components are not ordered by the property: skip ambiguous sets
        def amb(vs):
            ts = [tuple(v['c']) for v in vs]
            return any(a != b and (a[:len(b)] == b and not any(a[len(b):]) or b[:len(a)] == a and not any(b[len(a):])) for a in ts for b in ts)
        if amb(c['since']) or amb(c['till']):
            continue
        if got_from != want_from or got_till != want_till:
            ck.violation('compatibility-range product=%s' % c['product'].replace(' ', ''),
                         '%s: first-appeared releases %r / last-supported %r give range %r..%r, numeric order gives %r..%r'
                         % (c['product'], [txt(v) for v in c['since']], [txt(v) for v in c['till']], got_from, got_till, want_from, want_till),
                         {'case': c, 'tool': [got_from, got_till], 'expected': [want_from, want_till]})
        else:
            ck.cov['traces_validated_against_impl'] += 1
            ck.nontrivial(('frame', c['product'], tuple(tuple(v['c']) for v in c['since']), tuple(tuple(v['c']) for v in c['till'])))
    ck.notes.append('compatibility ranges: %d sets of releases replayed into Timeframe' % len(cases))
    # database-shaped updates: every entry names a release per product (OpenSSH and Dropbear at once); the range of each product is
    # the range over its own releases, however the other product's releases repeat or differ
    pool_o = [[2, 5, 0], [6, 6], [6, 5], [7, 4], [9, 9], [10, 0]]
    pool_d = [[0, 28], [0, 47], [0, 52], [2013, 56], [2018, 76], [2020, 79]]
    joint, jcases = [], []
    for _ in range(150 if tier == 'quick' else 1500):
        k = rnd.randint(2, 4)
        entries = [(rnd.choice(pool_o), rnd.choice(pool_d)) for _ in range(k)]
        joint.append(entries)
        jcases.append({'product': 'OpenSSH', 'since': [{'c': o, 'p': ['none', 0]} for o, _ in entries], 'till': []})
        jcases.append({'product': 'Dropbear SSH', 'since': [{'c': d, 'p': ['none', 0]} for _, d in entries], 'till': []})
    res = tlc.run('SshVersion', 'SPECIFICATION Spec\nCONSTANT Mode = "frames"\nINVARIANT EmitFrames\n', generated={'cases.json': json.dumps(jcases)},
                  env={'VERIF_CASES': 'cases.json'}, workers=1)
    ck.add_tlc(res)
    common.require(res.ok, 'SshVersion (frames, joint): %s' % res.error_text)
    jexp = [p for p in res.prints if isinstance(p, list)]
    common.require(len(jexp) >= 1 and len(jexp[0]) == len(jcases), 'TLC did not emit the expected joint compatibility frames')
    jexp = jexp[0]
    dot = lambda v: '.'.join(str(x) for x in v)
    for i, entries in enumerate(joint):
        ck.evaluated()
        tf = Timeframe()
        for o, d in entries:
            tf.update([dot(o) + ',d' + dot(d)], True)
        got = (tf.get_from('OpenSSH', True), tf.get_from('Dropbear SSH', True))
        want = (dot(jexp[2 * i]['from']), dot(jexp[2 * i + 1]['from']))
        if got != want:
            ck.violation('compatibility-range joint-entries', 'entries (OpenSSH, Dropbear) %r give first-appeared %r, numeric order per product gives %r'
                         % ([(dot(o), dot(d)) for o, d in entries], got, want), {'entries': entries, 'tool': got, 'expected': want})
        else:
            ck.cov['traces_validated_against_impl'] += 1
            ck.nontrivial(('joint-frame', tuple((tuple(o), tuple(d)) for o, d in entries)))


def db_frames_leg(ck, rnd, tier):
    """The compatibility range of a peer is folded from the database entries of everything it advertises (Algorithms.get_ssh_timeframe):
    for lists of real database entries - every pair of entries that share their "appeared in" descriptor but not their "removed in"
    one, in both orders where one category holds both, plus random lists - the range per product is the numerically newest first
    release and the numerically oldest removal (TLC, SshVersion frames), whatever the order of the names and however many entries
    repeat a descriptor."""
    from ssh_audit.algorithm import Algorithm
    from ssh_audit.algorithms import Algorithms
    from ssh_audit.outputbuffer import OutputBuffer
    from ssh_audit.ssh2_kex import SSH2_Kex
    from ssh_audit.ssh2_kexdb import SSH2_KexDB
    from ssh_audit.ssh2_kexparty import SSH2_KexParty
    db = SSH2_KexDB.get_db()
    ents = [(cat, n, [v for v in e[0]]) for cat in ('kex', 'key', 'enc', 'mac') for n, e in sorted(db[cat].items()) if not n.endswith('*') and e[0]]
    lists = []
    for i, a in enumerate(ents):
        for b in ents[i + 1:]:
            if a[2][0] == b[2][0] and a[2][1:] != b[2][1:]:
                lists.append([a, b])
                lists.append([b, a])
    if tier == 'quick' and len(lists) > 1500:
        lists = rnd.sample(lists, 1500)
    for _ in range(300 if tier == 'quick' else 3000):
        lists.append(rnd.sample(ents, rnd.randint(2, 5)))

    def dec(desc):
        out = {}
        for v in (desc or '').split(','):
            prod, ver, cli = Algorithm.get_ssh_version(v)
            if ver and not cli:
                out[prod] = ver
        return out

    def comps(ver):
        return [int(x) for x in ver.split('.')]
    cases, index = [], []
    for li, lst in enumerate(lists):
        for prod in ('OpenSSH', 'Dropbear SSH'):
            try:
                since = [comps(dec(e[2][0])[prod]) for e in lst if prod in dec(e[2][0])]
                till = [comps(dec(e[2][1])[prod]) for e in lst if len(e[2]) > 1 and prod in dec(e[2][1])]
            except ValueError:
                continue        # (a release that is not dotted decimal: not ordered by the property)
            if not since:
                continue
            cases.append({'product': prod, 'since': [{'c': v, 'p': ['none', 0]} for v in since], 'till': [{'c': v, 'p': ['none', 0]} for v in till]})
            index.append((li, prod))
    res = tlc.run('SshVersion', 'SPECIFICATION Spec\nCONSTANT Mode = "frames"\nINVARIANT EmitFrames\n', generated={'cases.json': json.dumps(cases)},
                  env={'VERIF_CASES': 'cases.json'}, workers=1)
    ck.add_tlc(res)
    common.require(res.ok, 'SshVersion (frames, database entries): %s' % res.error_text)
    exp = [p for p in res.prints if isinstance(p, list)]
    common.require(len(exp) >= 1 and len(exp[0]) == len(cases), 'TLC did not emit the expected compatibility frames (database entries)')
    dot = lambda v: '.'.join(str(x) for x in v)
    norm = lambda s_: None if s_ is None else dot(comps(s_))
    # the line rendered from the ranges ('(gen) compatibility: ...'): per product 'P a+' (never removed), 'P a' (one release), 'P a-b' (a range,
    # a numerically before b), 'P a+ (some functionality from b)' (a numerically after b) - each product by its own range
    from ssh_audit.ssh_audit import output_compatibility
    import re as _re
    by_list = {}
    for (li, prod), e in zip(index, exp[0]):
        by_list.setdefault(li, {})[prod] = e
    for li, per_prod in sorted(by_list.items()):
        lst = lists[li]
        if len(per_prod) < 2 and li % 3:
            continue
        ck.evaluated()
        per = {cat: [x[1] for x in lst if x[0] == cat] for cat in ('kex', 'key', 'enc', 'mac')}
        party = SSH2_KexParty(per['enc'], per['mac'], ['none'], [])
        kex = SSH2_Kex(OutputBuffer(), b'\x00' * 16, per['kex'], per['key'], party, party, False, 0)
        ob = OutputBuffer()
        ob.use_colors = False
        ob.batch = True
        output_compatibility(ob, Algorithms(None, kex), False, True)
        line = _re.sub(r'\x1b\[[0-9;]*m', '', ob.get_buffer()).strip()
        parts = []
        tf = Algorithms(None, kex).get_ssh_timeframe(True)
        for prod in ('OpenSSH', 'Dropbear SSH'):
            if prod not in per_prod:
                continue
            e = per_prod[prod]
            a = tf.get_from(prod, True)             # (spelling as the database writes it; its value was compared above)
            b_ = tf.get_till(prod, True)
            if not e['till']:
                parts.append('%s %s+' % (prod, a))
            elif list(e['from']) == list(e['till']):
                parts.append('%s %s' % (prod, a))
            elif tuple(e['from']) > tuple(e['till']):
                parts.append('%s %s+ (some functionality from %s)' % (prod, a, b_))
            else:
                parts.append('%s %s-%s' % (prod, a, b_))
        want_line = '(gen) compatibility: ' + ', '.join(parts)
        if line != want_line:
            ck.violation('compatibility-line-rendering products=%d' % len(parts), 'the entries %r are rendered as %r; their ranges (numeric order, each product on its own) read %r'
                         % ([x[1] for x in lst], line, want_line), {'entries': [[x[0], x[1], x[2]] for x in lst], 'tool': line, 'expected': want_line})
        else:
            ck.cov['traces_validated_against_impl'] += 1
            ck.nontrivial(('db-line', tuple(x[1] for x in lst)))
    for (li, prod), e in zip(index, exp[0]):
        ck.evaluated()
        lst = lists[li]
        per = {cat: [x[1] for x in lst if x[0] == cat] for cat in ('kex', 'key', 'enc', 'mac')}
        # (the order inside a category is the order of the list; categories are walked kex, key, enc, mac)
        party = SSH2_KexParty(per['enc'], per['mac'], ['none'], [])
        kex = SSH2_Kex(OutputBuffer(), b'\x00' * 16, per['kex'], per['key'], party, party, False, 0)
        tf = Algorithms(None, kex).get_ssh_timeframe(True)
        got = (norm(tf.get_from(prod, True)), norm(tf.get_till(prod, True)))
        want = (dot(e['from']), dot(e['till']) if e['till'] else None)
        if got != want:
            shared = len({x[2][0] for x in lst}) < len(lst)
            ck.violation('compatibility-range database-entries%s' % (' shared-descriptor' if shared else ''),
                         '%s: the entries %r (versions %r) give the range %r..%r, the numeric order over their releases gives %r..%r'
                         % (prod, [x[1] for x in lst], [x[2] for x in lst], got[0], got[1], want[0], want[1]),
                         {'entries': [[x[0], x[1], x[2]] for x in lst], 'product': prod, 'tool': got, 'expected': want})
        else:
            ck.cov['traces_validated_against_impl'] += 1
            ck.nontrivial(('db-frame', prod, tuple(x[1] for x in lst)))
    ck.notes.append('database entries leg: %d lists of database entries, %d (list, product) ranges replayed into Algorithms.get_ssh_timeframe' % (len(lists), len(cases)))
