"""C17 - the tool's knowledge tables agree with each other.

harness/extract_tables.py exports the live tables of the working tree (both rating databases, the built-in policies,
the host-key probe table, the DH test tables) as JSON; SshTablesCheck.tla states the relations between them and TLC
evaluates every invariant over every entry (exhaustive): names used by policies / probe table / DH tables are known to
the rating database; no hardening policy requires or permits an algorithm rated as a failure; entries have the
documented shape; an entry whose name contains a primitive the database brands as broken elsewhere (MD5, SHA-1,
RC4/arcfour, DES/3DES, none/null, DSA/DSS, 1024-bit groups, NIST curves, RIPEMD, Blowfish, CAST, IDEA, SEED, Serpent,
Rijndael) carries a failure.  Binding: the tables *are* the code; additionally a peer configured exactly as each
built-in server policy lists is served to a standard audit, which must show no failure.
"""
import json

from harness import common, tlc, runner, peers
from checks import rating

INVS = ['PolicyNamesKnown', 'ProbeTableKnown', 'Ssh1NamesKnown', 'RsaFamilyProbed', 'DheatTablesKnown', 'HardeningPoliciesClean', 'PolicySizesSane', 'PolicySizesNotFailing', 'ShapeOk', 'BrokenPrimitivesFail',
        'NamesCarryVersion']


def run(tier):
    ck = common.Check('C17', tier)
    tj = rating.tables_json()
    tb = json.loads(tj)
    covered = None
    for inv in INVS:
        try:
            res = tlc.run('SshTablesCheck', 'SPECIFICATION Spec\nINVARIANT %s\nINVARIANT Report\n' % inv, generated={'tables.json': tj},
                          env={'VERIF_TABLES': 'tables.json'}, workers=1)
            ok = res.ok
            ck.add_tlc(res)
            rep = [p for p in res.prints if isinstance(p, dict) and 'covered' in p]
            if rep:
                covered = rep[0]
        except tlc.TlcError as e:
            if 'is equal to FALSE' in str(e) or 'is violated' in str(e):
                ok = False
            else:
                raise
        ck.evaluated()
        if ok:
            ck.cov['traces_validated_against_impl'] += 1
        else:
            ck.violation('tables %s' % inv, 'invariant %s of SshTablesCheck does not hold on the tables of the working tree: %s' % (inv, witness(inv, tb)),
                         {'invariant': inv, 'witness': witness(inv, tb)})
    common.require(covered is not None and covered['covered'] > 100 and covered['entries'] > 300 and covered['policies'] > 20,
                   'vacuity guard: the extracted tables look empty (%r)' % (covered,))
    for cat in ('kex', 'key', 'enc', 'mac'):
        for n in tb['db2'][cat]:
            ck.nontrivial((cat, n))
    for p in tb['policies']:
        ck.nontrivial(('policy', p))
    ck.cov['states'] = max(ck.cov['states'], 1)
    ck.cov['transitions'] = max(ck.cov['transitions'], 1)
    ck.log('TLC evaluated %d invariants over %d database entries (%d matched by the broken-primitive rule) and %d policies'
           % (len(INVS), covered['entries'], covered['covered'], covered['policies']))
    # a peer configured exactly per a built-in server policy shows no failure in a standard audit
    scs, names = [], []
    conformant = []
    for name, p in sorted(tb['policies'].items()):
        if not p['server']:
            continue
        # once with the required host keys only, once with the policy's optional host keys offered as well (those the tool can probe)
        SK = 'sk-ssh-ed25519@openssh.com'
        for keys in (list(p['host_keys']), list(p['host_keys']) + [t for t in p.get('optional_host_keys', []) if (t in rating.DEFAULT_HK or t == SK) and t not in p['host_keys']]):
            hk = {}
            if SK in keys:
                hk[SK] = peers.sk_ed25519_blob()          # a security-key host key, presented if anybody asks for it
            for t in keys:
                if t == SK:
                    continue
                v = p['hostkey_sizes'].get(t)
                meas = (v['hostkey_size'], v.get('ca_key_type', ''), v.get('ca_key_size', 0)) if v else rating.DEFAULT_HK.get(t)
                if meas:
                    hk[t] = rating.hostkey_blob(t, meas)
            cfg = peers.ServerCfg(banner=b'SSH-2.0-OpenSSH_9.9', kexinit={'kex': p['kex'], 'key': keys, 'enc': p['ciphers'], 'mac': p['macs'], 'comp': ['none']},
                                  hostkeys=hk)
            if p['dh_modulus_sizes']:
                cfg['gex'] = {'per_alg': {a: {'style': 'roundup', 'moduli': [b]} for a, b in p['dh_modulus_sizes'].items()}}
            scs.append({'argv': ['-n', '--skip-rate-test', rating.HOST], 'servers': {(rating.HOST, 22): cfg}})
            names.append(name)
            conformant.append((name, cfg))
            if keys == list(p['host_keys']) and p['dh_modulus_sizes']:
                # the same server enforcing the requested range strictly: requests it cannot satisfy are refused with SSH_MSG_DISCONNECT
                cfg3 = peers.ServerCfg(cfg)
                cfg3['gex'] = {'per_alg': {a: {'style': 'strict', 'moduli': [b]} for a, b in p['dh_modulus_sizes'].items()}}
                scs.append({'argv': ['-n', '--skip-rate-test', rating.HOST], 'servers': {(rating.HOST, 22): cfg3}})
                names.append(name + ' [strict group-exchange range]')
            if keys == list(p['host_keys']) and any(t.startswith('rsa-') or t == 'ssh-rsa' for t in keys):
                # the same server hanging up on the probe for its RSA key: what was never measured is not rated (and certainly not as a failure)
                cfg2 = peers.ServerCfg(cfg)
                cfg2['hostkeys'] = {t: b for t, b in hk.items() if not (t.startswith('rsa-') or t == 'ssh-rsa')}
                scs.append({'argv': ['-n', '--skip-rate-test', rating.HOST], 'servers': {(rating.HOST, 22): cfg2}})
                names.append(name + ' [RSA key withheld]')
    for name, sc, r in zip(names, scs, runner.run_many(scs)):
        ck.evaluated()
        if r.get('harness_error') or r.get('hang'):
            raise common.Machinery('audit of a policy-shaped peer failed: %r' % (r.get('harness_error') or 'hang'))
        if r['exit'] == 3 or '[fail]' in r['stdout']:
            fails = [l for l in r['stdout'].split('\n') if '[fail]' in l][:4]
            ck.violation('policy-peer-shows-failure', 'a peer configured per %r shows a failure: %r' % (name, fails), {'policy': name, 'stdout': r['stdout'][-2500:]})
        elif r['exit'] not in (0, 2):
            ck.violation('policy-peer-not-audited exit=%s' % r['exit'], 'audit of a peer configured per %r ends with status %s' % (name, r['exit']), {'policy': name, 'stdout': r['stdout'][-1500:]})
        else:
            ck.cov['traces_validated_against_impl'] += 1
    listing_leg(ck, tj)
    measured_leg(ck, tb)
    after_weak_leg(ck, conformant)
    ck.sample({'invariants': INVS, 'entries': covered['entries'], 'matched_by_broken_primitive_rule': covered['covered'], 'policies': covered['policies']})
    ck.cov['rule'] = ('all entries of both rating databases, all built-in policies, the probe table and the DH tables of the working tree (exhaustive); distinct = database '
                      'entries + policies; plus one standard audit per built-in server policy')
    ck.cov['exhaustive'] = True
    ck.assumptions += ['the broken-primitive rule is applied to the SSH-2 database (the SSH-1 table rates the protocol as a whole)',
                       'TLC is a quantifier engine over extracted data here; the extractor is trusted to copy the tables']
    return ck.finish()


def after_weak_leg(ck, conformant):
    """The tables hold after use: a policy-conformant server audited in the same run *after* a weak one (small RSA key, small
    group-exchange modulus, Terrapin-prone ciphers - everything a scan writes into the rating table) still shows no failure."""
    from checks import multi
    weak = peers.ServerCfg(banner=b'SSH-2.0-OpenSSH_7.4', kexinit={'kex': ['curve25519-sha256', 'diffie-hellman-group-exchange-sha256'], 'key': ['rsa-sha2-512', 'rsa-sha2-256', 'ssh-rsa', 'ssh-ed25519'],
                                                                 'enc': ['chacha20-poly1305@openssh.com', 'aes256-gcm@openssh.com', 'aes128-ctr'],
                                                                 'mac': ['hmac-sha2-256-etm@openssh.com', 'hmac-sha2-512-etm@openssh.com', 'umac-128-etm@openssh.com'], 'comp': ['none']},
                           hostkeys={'rsa-sha2-512': peers.rsa_blob(1024), 'rsa-sha2-256': peers.rsa_blob(1024), 'ssh-rsa': peers.rsa_blob(1024), 'ssh-ed25519': peers.ed25519_blob()},
                           gex={'style': 'roundup', 'moduli': [1024]})
    pick = conformant[::max(1, len(conformant) // 6)][:6]
    scs, meta = [], []
    for name, cfg in pick:
        for threads in (1, 2):
            sc, labels = multi.scenario([('server', weak), ('server', cfg)], threads, (0, 1), json_out=False)
            scs.append(sc)
            meta.append((name, threads, labels))
    for (name, threads, labels), sc, r in zip(meta, scs, runner.run_many(scs)):
        ck.evaluated()
        if r.get('harness_error') or r.get('hang'):
            raise common.Machinery('target-list run failed: %r' % (r.get('harness_error') or 'hang'))
        blocks = [b for b in multi.split_text(r['stdout']) if multi.label_of_block(b, labels) == labels[1]]
        replay = {'policy': name, 'threads': threads, 'argv': sc['argv'], 'exit': r['exit'], 'stdout': r['stdout'][-3000:]}
        if len(blocks) != 1:
            ck.violation('policy-peer-not-audited after-weak-target', 'the conformant server listed after a weak one has %d result blocks' % len(blocks), replay)
        elif '[fail]' in blocks[0]:
            fails = [l for l in blocks[0].split('\n') if '[fail]' in l][:4]
            ck.violation('policy-peer-shows-failure after-weak-target', 'a peer configured per %r, audited after a weak server in the same run (%d thread(s)), shows a failure: %r' % (name, threads, fails), replay)
        else:
            ck.cov['traces_validated_against_impl'] += 1
            ck.nontrivial(('after-weak', name, threads))


def measured_leg(ck, tb):
    """The rating database is also written to at run time: the probes add what they measure (key and modulus sizes) to the entries
    of the worker's copy.  What the static tables brand as broken stays branded in the report whatever was measured: an algorithm
    whose table entry carries a failure is shown with at least one failure for every measurable size."""
    db = tb['db2']
    cases = []
    cid = 9000
    for bits in (1024, 2048, 3072, 4096, 8192):
        for kex in (['diffie-hellman-group-exchange-sha1', 'diffie-hellman-group-exchange-sha256', 'curve25519-sha256'],
                    ['curve25519-sha256', 'diffie-hellman-group-exchange-sha1']):
            cid += 1
            cases.append(rating.mk_case(cid, kex=kex, key=['ssh-ed25519'], enc=['aes256-ctr'], mac=['hmac-sha2-256'], dh={k: (bits, False) for k in kex if 'group-exchange' in k}))
        cid += 1
        cases.append(rating.mk_case(cid, kex=['curve25519-sha256'], key=['ssh-rsa', 'rsa-sha2-256', 'ssh-dss', 'ssh-ed25519'], enc=['aes256-ctr', '3des-cbc'], mac=['hmac-sha1', 'hmac-sha2-256'],
                                    hk={'ssh-rsa': (bits, '', 0), 'rsa-sha2-256': (bits, '', 0), 'ssh-dss': (1024, '', 0)}))
        cid += 1
        cases.append(rating.mk_case(cid, kex=['curve25519-sha256'], key=['ssh-rsa-cert-v01@openssh.com', 'ssh-ed25519'], enc=['aes256-ctr'], mac=['hmac-sha2-256'],
                                    hk={'ssh-rsa-cert-v01@openssh.com': (bits, 'ssh-rsa', bits)}))
    scs = [rating.scenario(c, 'json') for c in cases]
    for c, sc, r in zip(cases, scs, runner.run_many(scs)):
        ck.evaluated()
        if r.get('harness_error') or r.get('hang') or r.get('exit') not in (0, 2, 3):
            raise common.Machinery('audit of a measured peer failed: exit %r %s' % (r.get('exit'), r.get('harness_error') or ''))
        doc = json.loads(r['stdout'])
        lost = []
        for cat in ('kex', 'key', 'enc', 'mac'):
            for a in doc.get(cat, []):
                n = a.get('algorithm')
                if n in db[cat] and db[cat][n]['fail'] and not (a.get('notes') or {}).get('fail'):
                    lost.append('%s:%s%s' % (cat, n, (' (%s-bit)' % a['keysize']) if a.get('keysize') else ''))
        if lost:
            ck.violation('branded-entry-shown-without-failure', 'after its sizes were measured, %s - branded as a failure by the table - is shown without any failure' % ', '.join(lost),
                         {'case': c, 'argv': sc['argv'], 'exit': r['exit'], 'stdout': r['stdout'][-3000:], 'table_fail': {x: db[x.split(':')[0]][x.split(':')[1].split(' ')[0]]['fail'] for x in lost}})
        else:
            ck.cov['traces_validated_against_impl'] += 1
            ck.nontrivial(('measured', c['id']))
    # the brand on NIST curves holds for what is measured as well: a host certificate signed by an ECDSA (NIST P-curve) CA is shown with a
    # failure whatever the sizes of its own key and of the CA key
    certs = []
    for kind, bits, name in (('ed25519', 256, 'ssh-ed25519-cert-v01@openssh.com'), ('rsa', 3072, 'ssh-rsa-cert-v01@openssh.com'), ('rsa', 4096, 'ssh-rsa-cert-v01@openssh.com')):
        for curve in (256, 384, 521):
            cfg = peers.ServerCfg(banner=b'SSH-2.0-OpenSSH_9.9', kexinit={'kex': ['curve25519-sha256'], 'key': [name, 'ssh-ed25519'], 'enc': ['aes256-ctr'], 'mac': ['hmac-sha2-256'],
                                                                         'comp': ['none']},
                                  hostkeys={name: peers.cert_blob(kind, ('ecdsa', curve), bits=bits, name=name.encode()), 'ssh-ed25519': peers.ed25519_blob()})
            certs.append((name, curve, {'argv': ['-j', '--skip-rate-test', rating.HOST], 'servers': {(rating.HOST, 22): cfg}}))
    for (name, curve, sc), r in zip(certs, runner.run_many([x[2] for x in certs])):
        ck.evaluated()
        if r.get('harness_error') or r.get('hang') or r.get('exit') not in (0, 2, 3):
            raise common.Machinery('audit of a certificate peer failed: exit %r' % r.get('exit'))
        ent = [a for a in json.loads(r['stdout']).get('key', []) if a.get('algorithm') == name]
        if len(ent) != 1 or not str(ent[0].get('ca_algorithm', '')).startswith('ecdsa-sha2-nistp'):
            # (how certificates are measured is C11's subject; nothing is decided here about a certificate the tool did not read as one signed by an ECDSA CA)
            ck.log('measured leg: %s / P-%d not measured as signed by an ECDSA CA: %r' % (name, curve, ent))
            continue
        if not (ent[0].get('notes') or {}).get('fail'):
            ck.violation('nist-ca-shown-without-failure', '%s signed by a NIST P-%d CA (key and CA of good size) is shown without any failure; the tables brand NIST curves as a failure everywhere'
                         % (name, curve), {'argv': sc['argv'], 'exit': r['exit'], 'stdout': r['stdout'][-2500:]})
        else:
            ck.cov['traces_validated_against_impl'] += 1
            ck.nontrivial(('nist-ca', name, curve))
    # SSH-1: every name an SSH-1 report shows for a cipher / authentication mask is a name of the SSH-1 rating table (all mask bits set,
    # the unassigned ones too)
    db1 = tb['db1']
    for cm, am in ((0x7f, 0x7f), (0xff, 0xff), (0x48, 0x01), (0x01, 0x0d)):
        cfg = peers.ServerCfg(banner=b'SSH-1.5-OpenSSH_1.2.3', ssh1={'cmask': cm, 'amask': am})
        r = runner.run_one({'argv': ['-j', '-1', rating.HOST], 'servers': {(rating.HOST, 22): cfg}})
        ck.evaluated()
        if r.get('harness_error') or r.get('hang') or r.get('exit') not in (0, 2, 3):
            raise common.Machinery('SSH-1 audit failed: exit %r' % r.get('exit'))
        doc = json.loads(r['stdout'])
        strangers = ['enc:%s' % n for n in doc.get('enc', []) if n not in db1['enc']] + ['aut:%s' % n for n in doc.get('aut', []) if n not in db1['aut']]
        if strangers:
            ck.violation('ssh1-report-names-unknown-to-table', 'an SSH-1 report (cipher mask %#x, authentication mask %#x) shows %r, which the SSH-1 rating table does not know' % (cm, am, strangers),
                         {'cmask': cm, 'amask': am, 'stdout': r['stdout'][-1500:]})
        else:
            ck.cov['traces_validated_against_impl'] += 1
            ck.nontrivial(('ssh1-names', cm, am))


def witness(inv, tb):
    """Human-readable witness for a failed invariant (computed from the same data, for the report only)."""
    import re
    db = tb['db2']
    if inv == 'BrokenPrimitivesFail':
        cont = ["md5", "sha1", "arcfour", "rc4", "nistp", "nistk", "nistb", "nistt", "ripemd", "blowfish", "cast128", "idea", "seed", "serpent", "rijndael"]
        tok = {"des", "3des", "dss", "dsa", "group1", "rsa1024", "none", "null", "rsa1"}
        out = []
        for cat, ent in db.items():
            for n, e in ent.items():
                toks = set(t for t in re.split(r'[-_@.+]', n) if t)
                if (any(r in n for r in cont) or toks & tok) and not e['fail']:
                    out.append('%s:%s' % (cat, n))
        return out[:10]
    if inv == 'HardeningPoliciesClean':
        out = []
        for p, pol in tb['policies'].items():
            if not p.startswith('Hardened '):
                continue
            for cat, f in (('kex', 'kex'), ('key', 'host_keys'), ('key', 'optional_host_keys'), ('enc', 'ciphers'), ('mac', 'macs')):
                for n in pol[f]:
                    if n in db[cat] and db[cat][n]['fail']:
                        out.append('%s -> %s:%s' % (p, cat, n))
        return out[:10]
    if inv == 'Ssh1NamesKnown':
        return ['enc:%s' % n for n in tb['ssh1_names']['ciphers'] if n not in tb['db1']['enc']] + ['aut:%s' % n for n in tb['ssh1_names']['auths'] if n not in tb['db1']['aut']]
    if inv in ('PolicyNamesKnown', 'ProbeTableKnown', 'DheatTablesKnown'):
        out = []
        for p, pol in tb['policies'].items():
            for cat, f in (('kex', 'kex'), ('key', 'host_keys'), ('key', 'optional_host_keys'), ('enc', 'ciphers'), ('mac', 'macs')):
                out += ['%s -> %s:%s' % (p, cat, n) for n in pol[f] if n not in db[cat]]
        out += ['probe:%s' % n for n in tb['hostkey_types'] if n not in db['key']]
        for k in ('gex_algs', 'alg_priority', 'tested_algs'):
            out += ['dheat.%s:%s' % (k, n) for n in tb['dheat'][k] if n not in db['kex']]
        out += ['dheat.alg_modulus_sizes:%s' % n for n in tb['dheat']['alg_modulus_sizes'] if n not in db['kex']]
        out += ['dheat.alg_priority without size:%s' % n for n in tb['dheat']['alg_priority'] if n not in tb['dheat']['alg_modulus_sizes']]
        return out[:10]
    return '(see the tables)'


def listing_leg(ck, tj):
    """-L lists exactly the newest version of every built-in policy (server and client separately); -L -v lists all versions."""
    import re
    res = tlc.run('SshTablesCheck', 'SPECIFICATION Spec\nINVARIANT Listing\n', generated={'tables.json': tj}, env={'VERIF_TABLES': 'tables.json'}, workers=1)
    ck.add_tlc(res)
    exp = [p for p in res.prints if isinstance(p, dict) and 'latest_server' in p]
    common.require(len(exp) >= 1, 'TLC did not emit the policy listing')
    exp = exp[0]
    r1, r2 = runner.run_many([{'argv': ['-L']}, {'argv': ['-L', '-v']}])
    for r, verbose in ((r1, False), (r2, True)):
        ck.evaluated()
        out = r['stdout']
        if r['exit'] != 0:
            ck.violation('policy-listing-exit', '-L exits %r' % r['exit'], {'stdout': out[-1500:]})
            continue
        m = re.search(r'Server policies:\n(.*?)\n\s*\nClient policies:\n(.*?)\n\s*\n', report_strip(out), re.S)
        if not m:
            raise common.Machinery('cannot find the policy lists in the output of -L')
        srv = set(re.findall(r'\* "([^"]+)"', m.group(1)))
        cli = set(re.findall(r'\* "([^"]+)"', m.group(2)))
        if verbose:
            want_srv = {p for p in exp['all'] if p in exp['latest_server'] or _is_server(p)}
            if srv | cli != set(exp['all']):
                ck.violation('policy-listing-verbose', '-L -v lists %d policies, the table holds %d' % (len(srv | cli), len(exp['all'])), {'missing': sorted(set(exp['all']) - (srv | cli))[:5]})
                continue
        else:
            if srv != set(exp['latest_server']) or cli != set(exp['latest_client']):
                ck.violation('policy-listing-latest', '-L lists server %r / client %r; newest versions are %r / %r'
                             % (sorted(srv ^ set(exp['latest_server']))[:4], sorted(cli ^ set(exp['latest_client']))[:4], len(exp['latest_server']), len(exp['latest_client'])),
                             {'stdout': out[-2000:]})
                continue
        ck.cov['traces_validated_against_impl'] += 1
        ck.nontrivial(('listing', verbose))


def _is_server(p):
    return True


def report_strip(x):
    from harness import report
    return report.strip_ansi(x)
