"""C03 - an algorithm's rating depends only on the algorithm, in every view.

SshRating!Line(c, cat, n) is the one rating function (table entry by DbKey + documented measured context).
TLC checks PositionIndependent / UnknownFlagged on every case and supplies the expected notes; the harness
puts every database name (gss-* patterns instantiated with base64 tails containing = + /) alone, first, in
the middle and last among random neighbours, in server and client role, and compares the text report, the
JSON report and --lookup with the same expected record.
"""
import json
import random

from harness import common, runner, report
from checks import rating

TAILS = ['toWM5Slw5Ew8Mqkay+al2g==', 'A/vxljAEU54gt9a48EiANQ==', 'eipGX3TCiQSrx573bT1o1Q==', 'n7Xo/PqZ0V1bYcR2dKt5mw==']


def unknown_names(tb, rnd):
    db = tb['db2']
    out = []
    for cat in ('kex', 'key', 'enc', 'mac'):
        names = sorted(db[cat])
        for n in rnd.sample(names, 5):
            if n.startswith('gss-'):
                continue
            out.append((cat, n.upper()))                      # names are case sensitive
            out.append((cat, n + '@example.org'))
            if '@' in n:
                out.append((cat, n.split('@')[0] + '@openssh.org'))
        out.append((cat, ' ' + names[0]))                     # a name padded with a blank or a tab is a different name
        out.append((cat, names[1] + ' '))
        out.append((cat, names[2] + '\t'))
        out.append((cat, 'foo-%s' % cat))
        out.append((cat, 'x'))
    return out


def build_cases(tb, rnd, tier):
    db = tb['db2']
    base = {'kex': ['curve25519-sha256'], 'key': ['ssh-ed25519'], 'enc': ['aes128-ctr'], 'mac': ['hmac-sha2-256-etm@openssh.com']}
    cases, meta = [], {}
    cid = [0]

    def add(cat, lst, role, focus, pos, hk=None, dh=None, sw=None):
        cid[0] += 1
        d = dict(base)
        d[cat] = lst
        c = rating.mk_case(cid[0], role=role, hk=hk, dh=dh, sw=sw, **d)
        cases.append(c)
        meta[c['id']] = (cat, focus, pos)

    for cat in ('kex', 'key', 'enc', 'mac'):
        names = sorted(db[cat])
        plain = [n for n in names if not n.startswith('gss-')]
        for n in names:
            spells = [n]
            if n.startswith('gss-') and n.endswith('*'):
                spells = [n[:-1] + t for t in (TAILS if tier == 'thorough' else (TAILS[len(cases) % 2], TAILS[2 + len(cases) % 2]))]
            for sp in spells:
                a, b = rnd.sample([x for x in plain if x != sp], 2)
                layouts = [('alone', [sp]), ('first', [sp, a, b]), ('middle', [a, sp, b]), ('last', [a, b, sp])]
                if tier == 'thorough' or len(cases) % 3 == 0:
                    layouts.append(('twice', [sp, a, sp]))       # advertised twice: both occurrences rated alike
                for k, (pos, lst) in enumerate(layouts):
                    roles = ('server', 'client') if tier == 'thorough' else (('server',) if k % 2 == 0 else ('client',))
                    for role in roles:
                        add(cat, lst, role, sp, pos)
    for cat, n in unknown_names(tb, rnd):
        a = rnd.choice(sorted(db[cat]))
        if a.startswith('gss-'):
            a = base[cat][0]
        add(cat, [a, n], 'server', n, 'unknown')
        add(cat, [n], 'client', n, 'unknown')
    # unknown names whose spelling the Terrapin rule matches, inside and outside a Terrapin context
    for role in ('server', 'client'):
        for strict in (False, True):
            kx = ['curve25519-sha256'] + ([rating_marker(role)] if strict else [])
            for cat, n, enc, mac in (('enc', 'sm4-cbc', ['aes128-ctr', 'sm4-cbc'], ['hmac-sha2-256-etm@openssh.com']),
                                     ('enc', 'chacha20-poly1305@example.org', ['chacha20-poly1305@example.org'], ['hmac-sha2-256']),
                                     ('mac', 'hmac-sha3-256-etm@openssh.com', ['aes128-cbc'], ['hmac-sha3-256-etm@openssh.com', 'hmac-sha2-256']),
                                     ('enc', 'foo-cbc@ssh.com', ['foo-cbc@ssh.com', 'aes128-ctr'], ['umac-128-etm@openssh.com'])):
                cid[0] += 1
                c = rating.mk_case(cid[0], role=role, kex=kx, key=['ssh-ed25519'], enc=enc, mac=mac)
                cases.append(c)
                meta[c['id']] = (cat, n, 'unknown-terrapin-shape')
    # the *other* role's strict-kex marker is just another name in the list: it changes nothing about how the Terrapin-prone names are rated
    for role in ('server', 'client'):
        other = rating_marker('client' if role == 'server' else 'server')
        for kx in (['curve25519-sha256', other], [other, 'curve25519-sha256'], ['curve25519-sha256', other, rating_marker(role)]):
            for cat, n, enc, mac in (('enc', 'chacha20-poly1305@openssh.com', ['chacha20-poly1305@openssh.com', 'aes256-ctr'], ['hmac-sha2-256']),
                                     ('enc', 'aes128-cbc', ['aes128-cbc', 'aes256-ctr'], ['hmac-sha2-256-etm@openssh.com', 'hmac-sha2-256']),
                                     ('mac', 'hmac-sha2-512-etm@openssh.com', ['aes256-cbc', 'chacha20-poly1305@openssh.com'], ['hmac-sha2-512-etm@openssh.com'])):
                cid[0] += 1
                c = rating.mk_case(cid[0], role=role, kex=kx, key=['ssh-ed25519'], enc=enc, mac=mac)
                cases.append(c)
                meta[c['id']] = (cat, n, 'other-roles-marker')
    # the same spelling in two categories: each occurrence is rated by its own category's table (known in one, unknown in the other)
    cross = [dict(enc=['none', 'aes128-ctr'], mac=['none', 'hmac-sha2-256']),
             dict(enc=['aes128-ctr', 'none'], mac=['hmac-sha2-256', 'none', 'aes128-ctr']),
             dict(kex=['curve25519-sha256', 'ssh-ed25519'], key=['ssh-ed25519', 'curve25519-sha256']),
             dict(key=['ssh-ed25519', 'diffie-hellman-group14-sha256']),
             dict(enc=['hmac-sha2-256', 'aes128-ctr'], mac=['hmac-sha2-256']),
             dict(kex=['curve25519-sha256', 'aes256-ctr'], enc=['aes256-ctr']),
             dict(kex=['curve25519-sha256', 'hmac-sha1'], enc=['hmac-sha1', 'aes128-ctr'], mac=['hmac-sha1'])]
    for role in ('server', 'client'):
        for cr in cross:
            cid[0] += 1
            d = dict(base)
            d.update(cr)
            c = rating.mk_case(cid[0], role=role, **d)
            cases.append(c)
            meta[c['id']] = (sorted(cr)[0], cr[sorted(cr)[0]][0], 'same-name-two-categories')
    # the two directions of a KEXINIT name different MACs: a server is judged on (and shown with) its server-to-client lists
    for k, (mac, mac_c2s) in enumerate(((['hmac-sha2-256'], ['hmac-sha2-256-etm@openssh.com']), (['hmac-sha2-256-etm@openssh.com', 'hmac-sha1'], ['hmac-sha2-256']),
                                        (['umac-128-etm@openssh.com'], ['umac-128-etm@openssh.com']))):
        cid[0] += 1
        c = rating.mk_case(cid[0], role='server', kex=['curve25519-sha256'], key=['ssh-ed25519'], enc=['aes128-cbc', 'aes256-ctr'], mac=mac,
                           enc_c2s=['aes256-ctr'] if k == 2 else ['aes128-cbc', 'aes256-ctr'], mac_c2s=mac_c2s)
        cases.append(c)
        meta[c['id']] = ('mac', mac[0], 'asymmetric-directions')
    # names whose table entries are word for word the same (the DES variants, the CBC variants of one cipher, ...): listed side by side
    # under a Terrapin context, each is still rated by its own spelling - a mark made on one of them does not show on its twins
    for cat in ('enc', 'mac', 'kex', 'key'):
        groups = {}
        for n, e in db[cat].items():
            if n.startswith('gss-') or (cat == 'key' and n in tb['hostkey_types'] and n not in rating.DEFAULT_HK):
                continue
            groups.setdefault(json.dumps([e['versions_raw'], e['fail'], e['warn'], e['info']], sort_keys=True), []).append(n)
        for g in groups.values():
            if len(g) < 2:
                continue
            g = sorted(g)[:8]
            for role in ('server', 'client'):
                cid[0] += 1
                d = dict(base)
                d[cat] = g
                if cat != 'mac':
                    d['mac'] = ['hmac-sha2-256-etm@openssh.com', 'hmac-sha2-256']
                if cat != 'enc':
                    d['enc'] = ['aes128-cbc', 'aes256-ctr']
                c = rating.mk_case(cid[0], role=role, **d)
                cases.append(c)
                meta[c['id']] = (cat, g[0], 'twins')
    # the first key exchange the tool can drive is a group exchange: host keys are fetched over it and measured all the same
    for bits in (1024, 2048, 3072):
        cid[0] += 1
        c = rating.mk_case(cid[0], kex=['diffie-hellman-group-exchange-sha256', 'curve25519-sha256'], key=['rsa-sha2-512', 'ssh-rsa', 'ssh-ed25519'], enc=['aes128-ctr'],
                           mac=['hmac-sha2-256'], hk={'rsa-sha2-512': (bits, '', 0), 'ssh-rsa': (bits, '', 0)}, dh={'diffie-hellman-group-exchange-sha256': (4096, False)})
        cases.append(c)
        meta[c['id']] = ('key', 'rsa-sha2-512', 'sized-over-gex')
    # measured context: the same name with different measured sizes, text vs JSON must agree with the rule
    ossh = {'product': 'OpenSSH', 'c': [8, 9], 'p': ['p', 1]}
    for bits in (1024, 2048, 3072, 4096):
        add('key', ['rsa-sha2-512', 'ssh-rsa', 'ssh-ed25519'], 'server', 'rsa-sha2-512', 'sized', hk={'rsa-sha2-512': (bits, '', 0), 'ssh-rsa': (bits, '', 0)})
        add('kex', ['diffie-hellman-group-exchange-sha256', 'curve25519-sha256'], 'server', 'diffie-hellman-group-exchange-sha256', 'sized',
            dh={'diffie-hellman-group-exchange-sha256': (bits, False)})
        add('kex', ['diffie-hellman-group-exchange-sha1', 'diffie-hellman-group-exchange-sha256'], 'server', 'diffie-hellman-group-exchange-sha1', 'sized',
            dh={'diffie-hellman-group-exchange-sha1': (bits, False), 'diffie-hellman-group-exchange-sha256': (bits, False)})
    # host certificates whose key or CA draws a size finding, for the certificate types whose table entry is short (no failure or warning list
    # of its own) as well as for the long one: the finding is shown once, at its own level, next to the entry's notes
    for ct in ('ssh-rsa-cert-v01@openssh.com', 'rsa-sha2-256-cert-v01@openssh.com', 'rsa-sha2-512-cert-v01@openssh.com', 'ssh-ed25519-cert-v01@openssh.com'):
        rsa = not ct.startswith('ssh-ed25519')
        for hs, ca, casz in ((3072, 'ssh-rsa', 2048), (2048, 'ssh-ed25519', 256), (4096, 'ecdsa-sha2-nistp256', 256), (1024, 'ssh-rsa', 1024), (3072, 'ssh-rsa', 4096)):
            if not rsa and hs != 3072 and ca == 'ssh-ed25519':
                continue
            add('key', [ct, 'ssh-ed25519'], 'server', ct, 'sized', hk={ct: (hs if rsa else 256, ca, casz)})
    add('kex', ['diffie-hellman-group-exchange-sha256'], 'server', 'diffie-hellman-group-exchange-sha256', 'sized',
        dh={'diffie-hellman-group-exchange-sha256': (2048, False)}, sw=ossh)
    add('kex', ['diffie-hellman-group-exchange-sha256'], 'server', 'diffie-hellman-group-exchange-sha256', 'sized',
        dh={'diffie-hellman-group-exchange-sha256': (3072, True)}, sw=ossh)
    # the two group-exchange methods measured at different sizes: each line carries the size and the notes of its own measurement
    for b1, b256 in ((2048, 3072), (3072, 2048), (1024, 2048), (4096, 1024)):
        for sw in (None, ossh):
            add('kex', ['diffie-hellman-group-exchange-sha1', 'diffie-hellman-group-exchange-sha256', 'curve25519-sha256'], 'server', 'diffie-hellman-group-exchange-sha256', 'sized',
                dh={'diffie-hellman-group-exchange-sha1': (b1, False), 'diffie-hellman-group-exchange-sha256': (b256, False)}, sw=sw)
    return cases, meta


def rating_marker(role):
    return 'kex-strict-s-v00@openssh.com' if role == 'server' else 'kex-strict-c-v00@openssh.com'


def run(tier):
    ck = common.Check('C03', tier)
    rnd = random.Random(ck.seed)
    tb = rating.tables()
    cases, meta = build_cases(tb, rnd, tier)
    expected = rating.evaluate(ck, cases, workers=None)
    ck.log('%d cases evaluated by TLC (PositionIndependent, UnknownFlagged hold)' % len(cases))
    views = ('text', 'json')
    scs = [rating.scenario(c, v) for c in cases for v in views]
    results = runner.run_many(scs)
    k = 0
    alone = {}
    for c in cases:
        exp = expected[c['id']]
        cat, focus, pos = meta[c['id']]
        for v in views:
            res, sc = results[k], scs[k]
            k += 1
            if v == 'text' and isinstance(focus, str) and focus != focus.strip():
                continue        # a name padded with blanks cannot be told from the plain one in the column layout of the text report: JSON decides
            ck.evaluated()
            ck.nontrivial((cat, focus, pos, c['role'], v))
            if res.get('harness_error') or res.get('hang'):
                raise common.Machinery('run failed: %r' % (res.get('harness_error') or 'hang'))
            replay = {'case': c, 'view': v, 'argv': sc['argv'], 'focus': [cat, focus, pos], 'stdout': res['stdout'][-3000:], 'exit': res['exit'],
                      'expected_lines': exp['lines'][cat]}
            if res['exit'] not in (0, 2, 3):
                exc, loc = rating.crash_signature(res)
                ck.violation('no-report exit=%s uncaught=%s at=%s' % (res['exit'], exc, loc), 'status %s (%s in %s)' % (res['exit'], exc, loc), replay)
                continue
            try:
                doc = rating.parse_view(res, v, exp)
            except (report.ParseError, ValueError) as e:
                raise common.Machinery('cannot parse the %s report: %r' % (v, e))
            diffs = rating.compare_notes(c, exp, text=doc) if v == 'text' else rating.compare_notes(c, exp, js=doc)
            for sig, desc in diffs:
                ck.violation(sig, '[%s, %s %s] %s' % (c['role'], pos, focus, desc), replay)
            ck.cov['traces_validated_against_impl'] += 1
        if pos == 'middle':
            ck.sample({'cat': cat, 'list': [rating.shown(x) for x in c[cat]], 'role': c['role'], 'focus': focus,
                       'expected': [l for l in exp['lines'][cat] if l['name'] == focus][:1]}, limit=4)

    # --lookup: one invocation per database key, compared with the context-free line of the same name
    db = tb['db2']
    lk = []
    for cat in ('kex', 'key', 'enc', 'mac'):
        for n in sorted(db[cat]):
            lk.append((cat, n))
    seen = set()
    lscs, lidx = [], []
    for cat, n in lk:
        if n in seen:
            continue
        seen.add(n)
        lscs.append({'argv': ['-n', '--lookup', n]})
        lidx.append(n)
    lres = runner.run_many(lscs)
    # expected: the context-free line of the key (no measured sizes; strict-kex marker present, so no Terrapin context)
    alone = {}
    extra = []
    for j, (cat, n) in enumerate(lk):
        d = {'kex': ['curve25519-sha256'], 'key': ['ssh-ed25519'], 'enc': ['aes128-ctr'], 'mac': ['hmac-sha2-256']}
        d[cat] = [n]
        d['kex'] = d['kex'] + ['kex-strict-s-v00@openssh.com']
        extra.append(rating.mk_case(900000 + j, **d))
    eexp = rating.evaluate(ck, extra, workers=None)
    for c2, (cat, n) in zip(extra, lk):
        alone[(cat, n)] = eexp[c2['id']]['lines'][cat][0]
    for n, sc, res in zip(lidx, lscs, lres):
        ck.evaluated()
        if res.get('harness_error') or res.get('hang'):
            raise common.Machinery('lookup run failed: %r' % (res.get('harness_error') or 'hang'))
        cats = [cat for cat in ('kex', 'key', 'enc', 'mac') if n in db[cat]]
        replay = {'argv': sc['argv'], 'stdout': res['stdout'][-2000:], 'exit': res['exit']}
        if res['exit'] not in (0, 2, 3):
            ck.violation('lookup exit=%s' % res['exit'], '--lookup %s ended with status %s' % (n, res['exit']), replay)
            continue
        tx = report.parse_text(res['stdout'])
        for cat in cats:
            l = alone[(cat, n)]
            got = [a for a in tx['algs'][cat] if a['name'] == n]
            if len(got) != 1:
                ck.violation('lookup missing cat=%s' % cat, '--lookup %s shows %d %s entries' % (n, len(got), cat), replay)
                continue
            g = rating.notes_of_text(got[0])
            # Terrapin context does not exist in a lookup; sizes neither
            want = {kk: [x for x in l[kk]] for kk in ('fail', 'warn', 'info')}
            for lv in ('fail', 'warn', 'info'):
                if rating.multiset(g[lv]) != rating.multiset(want[lv]):
                    ck.violation('notes view=lookup cat=%s level=%s' % (cat, lv),
                                 '--lookup %s: %s %r, rule gives %r' % (n, lv, g[lv], want[lv]), replay)
            ck.cov['traces_validated_against_impl'] += 1
            ck.nontrivial((cat, n, 'lookup'))
    lookup_lists_leg(ck, tb, rnd, tier)
    targets_leg(ck, cases, expected, meta, tier)
    ck.cov['rule'] = ('every database name (gss patterns with base64 tails incl. = + /) alone/first/middle/last among random neighbours, both roles, '
                      'unknown near-miss names, sized RSA/GEX contexts; expected notes from TLC (SshRating!Line); text and JSON compared per level as '
                      'multisets; --lookup of every database key compared with the context-free line. distinct = (category, name, position, role, view)')
    ck.assumptions += ['the alone/neighbour contexts avoid CBC+ETM pairings only by chance; Terrapin context is part of the expected notes either way',
                       'an unknown name must be flagged unknown in every view; other notes on it are not compared here']
    return ck.finish()


def targets_leg(ck, cases, expected, meta, tier):
    """The same comparison for servers audited as members of a target list (-T, worker threads): every target's text block and
    JSON element carry the notes the rule gives for that target - including the notes that depend on what was measured on it
    (key and group sizes, Terrapin context)."""
    import json
    from checks import multi
    pool = [c for c in cases if c['role'] == 'server' and meta[c['id']][2] in ('sized', 'unknown-terrapin-shape', 'twice', 'same-name-two-categories')]
    pool += [rating.mk_case(950000, kex=['curve25519-sha256'], key=['ssh-ed25519', 'rsa-sha2-256'], enc=['chacha20-poly1305@openssh.com', 'aes128-cbc'],
                            mac=['hmac-sha2-256-etm@openssh.com', 'hmac-sha1'], hk={'rsa-sha2-256': (1024, '', 0)})]
    # the same algorithms in different contexts, one after the other: what was noted for the first must not show on the second
    ctx = [rating.mk_case(950001, kex=['curve25519-sha256'], key=['ssh-ed25519', 'ssh-rsa'], enc=['chacha20-poly1305@openssh.com', 'aes128-cbc', 'aes256-ctr'],
                          mac=['umac-64-etm@openssh.com', 'hmac-sha2-256-etm@openssh.com'], hk={'ssh-rsa': (1024, '', 0)}),
           rating.mk_case(950002, kex=['curve25519-sha256', 'kex-strict-s-v00@openssh.com'], key=['ssh-ed25519', 'ssh-rsa'],
                          enc=['chacha20-poly1305@openssh.com', 'aes128-cbc', 'aes256-ctr'], mac=['umac-64-etm@openssh.com', 'hmac-sha2-256-etm@openssh.com'],
                          hk={'ssh-rsa': (4096, '', 0)}),
           rating.mk_case(950003, kex=['curve25519-sha256'], key=['ssh-ed25519'], enc=['aes128-cbc', 'aes256-ctr'], mac=['hmac-sha2-256', 'umac-64@openssh.com'])]
    extra = rating.evaluate(ck, pool[-1:] + ctx)
    exp = dict(expected)
    exp.update(extra)
    pool = pool[:(12 if tier == 'quick' else 60)] + pool[-1:]
    groups = [pool[i:i + 3] for i in range(0, len(pool), 3)] + [ctx, list(reversed(ctx)), [ctx[0], ctx[2], ctx[1]]]
    scs = []
    for g in groups:
        for threads in (1, 2):
            for js in ((True, False) if threads == 1 else (True,)):
                sc, labels = multi.scenario([('server', rating.server_cfg(c)) for c in g], threads, tuple(range(len(g))) if threads == 1 else None, json_out=js)
                scs.append((sc, labels, g, threads, js))
    for (sc, labels, g, threads, js), r in zip(scs, runner.run_many([x[0] for x in scs])):
        ck.evaluated()
        if r.get('harness_error') or r.get('hang'):
            raise common.Machinery('target-list run failed: %r' % (r.get('harness_error') or 'hang'))
        replay = {'targets': [[rating.shown(x) for cat in ('kex', 'key', 'enc', 'mac') for x in c[cat]] for c in g], 'threads': threads, 'argv': sc['argv'],
                  'exit': r['exit'], 'stdout': r['stdout'][-3000:]}
        docs = {}
        try:
            if js:
                for el in json.loads(r['stdout']):
                    docs[el['target']] = el
            else:
                for lab, b in zip(labels, multi.split_text(r['stdout'])):
                    docs[lab] = rating.parse_view({'stdout': b, 'exit': 0}, 'text', None)
        except (ValueError, KeyError, TypeError, report.ParseError):
            ck.violation('target-list-unparsable view=%s' % ('json' if js else 'text'), 'cannot parse the output of a -T run of healthy servers', replay)
            continue
        bad = False
        for lab, c in zip(labels, g):
            if lab not in docs:
                ck.violation('target-list-block-missing', 'no result for target %s' % lab, replay)
                bad = True
                continue
            d = rating.compare_notes(c, exp[c['id']], js=docs[lab]) if js else rating.compare_notes(c, exp[c['id']], text=docs[lab])
            for sig, desc in d:
                ck.violation('target-list-' + sig, '[target %s of a list, %d thread(s)] %s' % (lab, threads, desc), replay)
                bad = True
        if not bad:
            ck.cov['traces_validated_against_impl'] += 1
            ck.nontrivial(('targets', tuple(c['id'] for c in g), threads, js))


def lookup_lists_leg(ck, tb, rnd, tier):
    """--lookup with several names, unknown names and near misses: which names are found in which category, which are reported
    unknown, which similar names are suggested, and the exit status - expected values from TLC (SshRating: LookupFound, NotFound,
    Suggestions, LookupStatus)."""
    import json
    import re
    from harness import tlc
    db = tb['db2']
    allnames = sorted({n for c in db for n in db[c]})
    cases = []
    for _ in range(60 if tier == 'quick' else 600):
        k = rnd.randint(1, 4)
        names = rnd.sample(allnames, k)
        r = rnd.random()
        if r < 0.3:
            names.insert(rnd.randrange(len(names) + 1), rnd.choice(['foo-unknown', 'AES128-CTR', 'Chacha20', 'sha1', 'CURVE25519', 'nistp', 'x', 'ssh-ed25519@example.org']))
        elif r < 0.4:
            names = [rnd.choice(['hmac-SHA1', 'zlib', 'group14', 'ETM@openssh.com'])]
        cases.append(names)
    cfg = 'SPECIFICATION Spec\nCONSTANT Mode = "lookup"\nINVARIANT EmitLookup\n'
    res = tlc.run('SshRating', cfg, generated={'tables.json': rating.tables_json(), 'cases.json': json.dumps(cases)},
                  env={'VERIF_TABLES': 'tables.json', 'VERIF_CASES': 'cases.json'}, workers=1)
    ck.add_tlc(res)
    common.require(res.ok, 'SshRating (lookup): %s' % res.error_text)
    exp = [p for p in res.prints if isinstance(p, list)]
    common.require(exp and len(exp[0]) == len(cases), 'TLC did not emit the lookup expectations')
    exp = exp[0]
    results = runner.run_many([{'argv': ['-n', '--lookup', ','.join(names)]} for names in cases])
    for names, e, r in zip(cases, exp, results):
        ck.evaluated()
        if r.get('harness_error') or r.get('hang'):
            raise common.Machinery('lookup run failed: %r' % (r.get('harness_error') or 'hang'))
        ck.nontrivial(('lookup-list', tuple(names)))
        replay = {'argv': ['--lookup', ','.join(names)], 'exit': r['exit'], 'stdout': r['stdout'][-2500:], 'expected': e}
        tx = report.parse_text(r['stdout'])
        found = {(cat, a['name']) for cat in ('kex', 'key', 'enc', 'mac') for a in tx['algs'][cat]}
        want_found = {(c, n) for c, n in e['found']}
        out = r['stdout']
        unk = set()
        m = re.search(r'# unknown algorithms\n(.*?)(?:\n\n|\n#|$)', report.strip_ansi(out), re.S)
        if m:
            unk = {l.strip() for l in m.group(1).split('\n') if l.strip()}
        sim = set(re.findall(r'^(\S+) --> \((\w+)\) (\S+)$', report.strip_ansi(out), re.M))
        want_sim = {(u, c, n) for u, c, n in e['similar']}
        if found != want_found:
            ck.violation('lookup-found', '--lookup %s: lists %r, the database holds %r' % (','.join(names), sorted(found), sorted(want_found)), replay)
        elif unk != set(e['notfound']):
            ck.violation('lookup-unknown', '--lookup %s: reports unknown %r, expected %r' % (','.join(names), sorted(unk), sorted(e['notfound'])), replay)
        elif sim != want_sim:
            ck.violation('lookup-suggestions', '--lookup %s: suggests %r, expected %r' % (','.join(names), sorted(sim)[:5], sorted(want_sim)[:5]), replay)
        elif r['exit'] != e['status']:
            ck.violation('lookup-status', '--lookup %s: exit status %r, expected %r' % (','.join(names), r['exit'], e['status']), replay)
        else:
            ck.cov['traces_validated_against_impl'] += 1
