"""C10 - wire encoding and decoding are exact inverses and packets are well-framed.

SshWire.tla holds independent encoders and decoders on byte sequences (RFC 4251 mpint in two's complement, SSH-1
mpint, name-lists, RFC 4253 padding arithmetic).  TLC checks RoundTrip, Minimal, ReEncode, LengthPrefix, Mp1BitCount
and the framing law for every payload length 0..4096, over every magnitude up to MaxLen bytes of the alphabet
{00,01,7f,80,ff} with both signs, and emits value/bytes pairs; harness-chosen values (dense window around 0,
+-2^k, +-2^k +-1 up to k = 8192, random big integers) get their bytes from the same spec.  Every pair is replayed
into WriteBuf/ReadBuf.  Framing: every payload length 1..4096 is sent through SSH_Socket.send_packet and read back by
the tool's own reader and by the harness' independent decoder; KEXINIT and SSH-1 public-key messages are round-tripped
against the independent codec; SSH-1 CRC-32 is compared with zlib (a checksum is outside TLA+).  Every packet the
tool emits during full audits of the archetype servers is decoded by the fake peer as well.
"""
import json
import os
import random
import struct
import zlib

from harness import common, tlc, runner, wire, peers
from checks import rating

LAWS = ['RoundTrip', 'Minimal', 'LengthPrefix', 'ReEncode', 'Framing', 'Mp1BitCount']


def to_int(v):
    sign, mag = v[0], v[1]
    return sign * int.from_bytes(bytes(mag), 'big') if mag else 0


def from_int(n):
    if n == 0:
        return [0, []]
    m = abs(n)
    return [1 if n > 0 else -1, list(m.to_bytes((m.bit_length() + 7) // 8, 'big'))]


def chosen_values(rnd, tier):
    vals = set()
    w = 1 << (12 if tier == 'quick' else 17)
    step = 1 if tier == 'thorough' else 1
    for n in range(-w, w + 1, step):
        if tier == 'quick' and abs(n) > 300 and n % 7:
            continue
        vals.add(n)
    ks = list(range(0, 97)) + [127, 128, 255, 256, 511, 512, 1023, 1024, 2047, 2048, 4095, 4096, 8191, 8192]
    for k in ks:
        for d in (-1, 0, 1):
            vals.add((1 << k) + d)
            vals.add(-((1 << k) + d))
    # every 32-bit word pattern class in the low words with the sign decided further up
    words = [0, 1, 0x7fffffff, 0x80000000, 0xffffffff, 0x80000001, 0xfffffffe]
    for hi in (1, 0x7f, 0x80, 0xff, 0x180, 0x17fff):
        for w1 in words:
            for w2 in words[:4]:
                n = (hi << 64) | (w1 << 32) | w2
                vals.add(n)
                vals.add(-n)
    for _ in range(300 if tier == 'quick' else 3000):
        bits = rnd.choice([33, 64, 65, 96, 128, 255, 256, 521, 1024, 2048, 4096, 8192])
        n = rnd.getrandbits(bits)
        vals.add(n)
        vals.add(-n)
    return sorted(vals)


def run(tier):
    ck = common.Check('C10', tier)
    rnd = random.Random(ck.seed)
    runner.load_repo()
    from ssh_audit.writebuf import WriteBuf
    from ssh_audit.readbuf import ReadBuf
    maxlen = 4 if tier == 'quick' else 6
    cfg = 'SPECIFICATION Spec\nCONSTANTS\n Mode = "mc"\n MaxLen = %d\n MaxPayload = 4096\n' % maxlen + ''.join('INVARIANT %s\n' % i for i in LAWS) + 'INVARIANT Emit\n'
    res = tlc.run('SshWire', cfg, workers=1, timeout=3000)
    ck.add_tlc(res)
    common.require(res.ok, 'SshWire: the reference codec violates its own law %s:\n%s' % (res.violated, '\n'.join(res.trace[-30:])))
    pairs = [p for p in res.prints if isinstance(p, dict) and 'enc' in p]
    ck.log('TLC: %d values enumerated (%d states); laws %s hold; framing law holds for payloads 0..4096' % (len(pairs), res.distinct, ', '.join(LAWS)))
    # harness-chosen values through the same spec
    vals = chosen_values(rnd, tier)
    cases = [{'kind': 'mpint', 'val': from_int(n)} for n in vals] + [{'kind': 'mpint1', 'val': from_int(n)} for n in vals if n >= 0][::3]
    for s in range(0, len(cases), 4000):
        r2 = tlc.run('SshWire', cfg.replace('"mc"', '"oracle"'), generated={'cases.json': json.dumps(cases[s:s + 4000])},
                     env={'VERIF_CASES': 'cases.json'}, workers=1, timeout=3000)
        ck.add_tlc(r2)
        common.require(r2.ok, 'SshWire (oracle): %s violated:\n%s' % (r2.violated, '\n'.join(r2.trace[-30:])))
        pairs += [p for p in r2.prints if isinstance(p, dict) and 'enc' in p]
    ck.log('%d value/bytes pairs from TLC' % len(pairs))
    for p in pairs:
        ck.evaluated()
        enc = bytes(p['enc'])
        if p['kind'] in ('mpint', 'mpint1'):
            n = to_int(p['val'])
            ck.nontrivial((p['kind'], n))
            try:
                if p['kind'] == 'mpint':
                    got = WriteBuf().write_mpint2(n).write_flush()
                    back = ReadBuf(enc).read_mpint2()
                else:
                    got = WriteBuf().write_mpint1(n).write_flush()
                    back = ReadBuf(enc).read_mpint1()
            except Exception as e:      # noqa
                ck.violation('%s-raises %s' % (p['kind'], type(e).__name__), '%s %d: %r' % (p['kind'], n, e), {'value': str(n), 'expected_bytes': enc.hex()})
                continue
            cls = _cls(n)
            if got != enc:
                ck.violation('%s-encode class=%s' % (p['kind'], cls), 'write of %d gives %s, RFC encoding is %s' % (n, got.hex()[:80], enc.hex()[:80]),
                             {'value': str(n), 'tool_bytes': got.hex(), 'expected_bytes': enc.hex()})
            elif back != n:
                ck.violation('%s-decode class=%s' % (p['kind'], cls), 'read of %s gives %d, the value is %d' % (enc.hex()[:80], back, n),
                             {'value': str(n), 'bytes': enc.hex(), 'tool_value': str(back)})
            else:
                ck.cov['traces_validated_against_impl'] += 1
        elif p['kind'] == 'list':
            names = [bytes(x).decode('latin-1') for x in p['val']]
            ck.nontrivial(('list', tuple(names)))
            got = WriteBuf().write_list(names).write_flush()
            back = ReadBuf(enc).read_list()
            if got != enc:
                ck.violation('list-encode', 'write_list(%r) gives %s, expected %s' % (names, got.hex(), enc.hex()), {'names': names})
            elif back != (names if names else ['']):
                ck.violation('list-decode', 'read_list(%s) gives %r, expected %r' % (enc.hex(), back, names), {'names': names})
            else:
                ck.cov['traces_validated_against_impl'] += 1
    scalar_and_message_legs(ck, rnd, tier)
    framing_leg(ck, tier)
    padding_leg(ck)
    proof_leg(ck)
    stream_leg(ck, tier)
    emitted_leg(ck)
    dheat_leg(ck, tier)
    threads_leg(ck, tier)
    ck.sample({'value': '-0x180000000', 'rfc_bytes': bytes([0, 0, 0, 5, 0xfe, 0x80, 0, 0, 0]).hex()})
    ck.cov['rule'] = ('TLC enumerates every magnitude up to %d bytes over {00,01,7f,80,ff} with both signs and every name-list up to length 3 over 4 names, checking '
                      'the inverse/minimality laws and the framing law for 0..4096; plus a dense window around 0, +-2^k(+-1) for k <= 96 and up to 8192, word-pattern '
                      'products and random big integers, all encoded by the spec; every pair replayed into WriteBuf/ReadBuf; framing/KEXINIT/SSH-1 legs as described. '
                      'distinct = distinct values' % maxlen)
    ck.assumptions += ['CRC-32 values are compared with zlib (a checksum is outside TLA+; DESIGN section 9)',
                       'the empty name-list and the list holding one empty name share an encoding']
    return ck.finish()


def _cls(n):
    if n >= 0:
        return 'non-negative'
    if (-n).bit_length() <= 31:
        return 'negative-single-word'
    return 'negative-multi-word'


class _Cap:
    def __init__(self, data=b''):
        self.sent = b''
        self.data = data

    def send(self, d):
        self.sent += d
        return len(d)

    def recv(self, n):
        d, self.data = self.data[:n], self.data[n:]
        return d

    def shutdown(self, how):
        pass

    def close(self):
        pass


def _sock(data=b''):
    from ssh_audit.ssh_socket import SSH_Socket
    from ssh_audit.outputbuffer import OutputBuffer
    s = SSH_Socket(OutputBuffer(), 'localhost', 22)
    cap = _Cap(data)
    s._SSH_Socket__sock = cap
    return s, cap


def framing_leg(ck, tier):
    """Every payload length: the packet the tool emits, decoded by the independent decoder and by the tool's own reader."""
    for n in range(1, 4097):
        ck.evaluated()
        payload = bytes([20]) + bytes((i * 7 + n) & 0xff for i in range(n - 1))
        s, cap = _sock()
        s.write(payload)
        s.send_packet()
        data = cap.sent
        dec = wire.StreamDecoder()
        dec.banner = b''
        evs = dec.feed(data)
        pad = (-(n + 5)) % 8
        pad = pad + 8 if pad < 4 else pad
        ok = (not dec.violations and len(evs) == 1 and evs[0][1] == payload and len(data) % 8 == 0 and len(data) == 4 + 1 + n + pad
              and struct.unpack('>I', data[:4])[0] == len(data) - 4 and data[4] == pad)
        if not ok:
            ck.violation('framing-emit n%%8=%d' % (n % 8), 'payload of %d bytes framed as %d bytes, padding %d; decoder says %r' % (n, len(data), data[4], dec.violations),
                         {'payload_len': n, 'packet_head': data[:16].hex()})
            continue
        r, _ = _sock(data)
        try:
            t, pl = r.read_packet(2)
        except BaseException as e:       # noqa
            ck.violation('framing-readback-raises', 'own reader fails on own packet of payload %d: %r' % (n, e), {'payload_len': n})
            continue
        if t != 20 or pl != payload[1:]:
            ck.violation('framing-readback n%%8=%d' % (n % 8), 'own reader returns type %r and %d bytes for a payload of %d' % (t, len(pl), n), {'payload_len': n})
        else:
            ck.cov['traces_validated_against_impl'] += 1
            ck.nontrivial(('frame', n))
        # a packet framed by the independent encoder must be read back unchanged as well
        r2, _ = _sock(wire.frame(payload))
        t2, pl2 = r2.read_packet(2)
        if t2 != 20 or pl2 != payload[1:]:
            ck.violation('framing-read-independent n%%8=%d' % (n % 8), 'reader mis-reads an RFC-framed packet of payload %d' % n, {'payload_len': n})


class _Seg:
    """A socket that hands out a byte stream in exactly the given segments, then reports end of stream."""
    def __init__(self, segs, again=False):
        self.segs = list(segs)
        self.again = again          # answer "try again" (EAGAIN) once before every segment but the first (SshStream!Again)
        self.told = not again

    def recv(self, n):
        if not self.segs:
            return b''
        if self.again and not self.told:
            self.told = True
            import errno as _errno
            raise BlockingIOError(_errno.EAGAIN if len(self.segs) % 2 else _errno.EWOULDBLOCK, 'Resource temporarily unavailable')
        self.told = False
        seg = self.segs.pop(0)
        if len(seg) > n:
            self.segs.insert(0, seg[n:])
            seg = seg[:n]
        return seg

    def send(self, d):
        return len(d)

    def shutdown(self, how):
        pass

    def close(self):
        pass


def threads_leg(ck, tier):
    """The decoders are shared by the worker threads of a target list (the SSH-1 checksum object is created once per process, on first
    use): several SSH-1 servers audited at once, under a schedule that switches threads as often as the interpreter can, are each
    decoded as when audited alone - every valid packet is accepted and every report is the single-target report."""
    from checks import multi
    mk = lambda cm, am, name: peers.ServerCfg(banner=b'SSH-1.5-' + name, ssh1={'cmask': cm, 'amask': am}, wrong_version_text=b'Protocol major versions differ.')  # noqa
    tg = [('server', mk(0x48, 0x0c, b'OldA_1.2')), ('server', mk(0x2c, 0x0e, b'OldB_1.2')), ('server', mk(0x4c, 0x1c, b'OldC_1.2')), ('server', mk(0x08, 0x08, b'OldD_1.2'))]
    refs = runner.run_many([multi.single_scenario(t, i, json_out=True, extra=['-1']) for i, t in enumerate(tg)])
    if any(r.get('harness_error') or r.get('hang') or r.get('exit') not in (0, 2, 3) for r in refs):
        raise common.Machinery('SSH-1 reference runs failed: %r' % [r.get('exit') for r in refs])
    ref_docs = [json.loads(r['stdout']) for r in refs]
    n = 40 if tier == 'quick' else 400
    sc, labels = multi.scenario(tg, 4, None, json_out=True, extra=['-1'])
    scs = [multi.eager(sc) for _ in range(n)]
    for r in runner.run_many(scs):
        ck.evaluated()
        replay = {'argv': sc['argv'], 'exit': r.get('exit'), 'stdout': (r.get('stdout') or '')[-3000:]}
        if r.get('harness_error'):
            raise common.Machinery('threads leg run failed: %r' % r.get('harness_error'))
        if r.get('hang'):
            ck.violation('threads-run-did-not-complete', 'four SSH-1 targets on four threads: the run never ended', replay)
            continue
        out = r['stdout']
        if 'checksum' in out and 'mismatch' in out:
            ck.violation('valid-ssh1-packet-rejected threads=4', 'a valid SSH-1 packet is rejected (checksum mismatch) when several SSH-1 servers are audited at once', replay)
            continue
        try:
            doc = json.loads(out)
        except ValueError:
            ck.violation('threads-json-unparsable', 'stdout of the four-target run is not JSON', replay)
            continue
        got = {el.get('target'): el for el in doc if isinstance(el, dict)}
        bad = [lab for i, lab in enumerate(labels) if got.get(lab) != ref_docs[i]]
        if bad:
            ck.violation('ssh1-decoding-differs-under-threads', 'targets %r: the result differs from the single-target result' % bad, replay)
        else:
            ck.cov['traces_validated_against_impl'] += 1
    ck.nontrivial(('threads-leg',))
    ck.notes.append('threads leg: %d four-target SSH-1 runs under schedule perturbation' % n)
    # ... and deterministically: two SSH-1 targets on two threads, one preempted after every block of source lines of the tool's own
    # code (SshSched plans at line granularity) - wherever the first thread stands, also in the middle of building a shared
    # table, the second one decodes its packets as when run alone
    for order in ((0, 1), (1, 0)):
        pair = [tg[order[0]], tg[order[1]]]
        sc2, labels2 = multi.scenario(pair, 2, None, json_out=True, extra=['-1'])
        refs2 = [ref_docs[order[0]], ref_docs[order[1]]]
        # (the reference documents name the target by its position in the list: compare everything but the target label)
        probe = runner.run_many([multi.scheduled(sc2, [[0, -1], [1, -1]], labels2, lines=True)])[0]
        if probe.get('harness_error') or not probe.get('sched'):
            raise common.Machinery('threads leg: line-granular probe run failed: %r' % probe.get('harness_error'))
        ops = [max(1, probe['sched']['ops'].get(l, 0)) for l in labels2]
        stride = max(1, max(ops) // (40 if tier == 'quick' else 200))
        plans, _ = multi.schedule_plans(ck, [-(-o // stride) for o in ops], 1)
        plans = [[[w, (k * stride if k > 0 else k)] for w, k in pl] for pl in plans]
        for pl, r in zip(plans, runner.run_many([multi.scheduled(sc2, pl, labels2, lines=True) for pl in plans])):
            ck.evaluated()
            replay = {'argv': sc2['argv'], 'plan_in_source_lines': pl, 'exit': r.get('exit'), 'stdout': (r.get('stdout') or '')[-3000:], 'sched': r.get('sched')}
            if r.get('harness_error'):
                raise common.Machinery('threads leg run failed: %r' % r.get('harness_error'))
            if r.get('hang'):
                ck.violation('threads-run-did-not-complete', 'two SSH-1 targets on two threads under the schedule %r: the run never ended' % (pl,), replay)
                continue
            out = r['stdout']
            if 'checksum' in out and 'mismatch' in out:
                ck.violation('valid-ssh1-packet-rejected threads=2 scheduled', 'a valid SSH-1 packet is rejected (checksum mismatch) when one worker is preempted after %d source lines' % pl[0][1], replay)
                continue
            try:
                doc = json.loads(out)
            except ValueError:
                ck.violation('threads-json-unparsable', 'stdout of the two-target run is not JSON', replay)
                continue
            got = {el.get('target'): el for el in doc if isinstance(el, dict)}
            strip = lambda d: {k: v for k, v in (d or {}).items() if k != 'target'}      # noqa
            bad = [lab for i, lab in enumerate(labels2) if strip(got.get(lab)) != strip(refs2[i])]
            if bad:
                ck.violation('ssh1-decoding-differs-under-threads scheduled', 'targets %r under the schedule %r: the result differs from the single-target result' % (bad, pl), replay)
            else:
                ck.cov['traces_validated_against_impl'] += 1
                ck.nontrivial(('threads-scheduled', order, json.dumps(pl)))


def dheat_leg(ck, tier):
    """The packets of the denial-of-service test mode (--dheat=<connections>[:<key exchange>[:<length of e>]]), which builds its KEXINIT and
    key-exchange-init packets itself: every one of them is well-framed and decodes cleanly, for every key exchange it knows and
    every length of e a user may ask for.  The mode's worker processes are run as threads of the scenario process (so that the fake
    network sees them) and the run is interrupted after a second."""
    from checks import c09

    def shim(world):
        import multiprocessing
        import queue
        import threading
        import _thread

        class P:
            def __init__(self, target=None, args=(), kwargs=None, **kw):
                self.t = threading.Thread(target=target, args=args, kwargs=kwargs or {}, daemon=True)

            def start(self):
                self.t.start()

            def join(self, timeout=None):
                self.t.join(0.05)

            def terminate(self):
                pass

            def kill(self):
                pass

            def is_alive(self):
                return self.t.is_alive()
        multiprocessing.Process = P
        multiprocessing.Queue = queue.Queue
        world.max_conn = 80
        threading.Timer(1.0, _thread.interrupt_main).start()
    base = c09.archetypes()['openssh']
    algs = ['ecdh-sha2-nistp256', 'ecdh-sha2-nistp384', 'ecdh-sha2-nistp521', 'curve25519-sha256', 'diffie-hellman-group14-sha256', 'diffie-hellman-group18-sha512',
            'diffie-hellman-group-exchange-sha256']
    scs, meta = [], []
    for alg in algs:
        cfg = peers.ServerCfg(base)
        cfg['kexinit'] = dict(base['kexinit'], kex=[alg, 'curve25519-sha256'])
        if 'group-exchange' in alg:
            cfg['gex'] = {'style': 'roundup', 'moduli': [2048, 4096]}
        for elen in ((None, 4, 5, 6, 7, 8, 9, 10, 11, 32, 65, 97, 133) if tier == 'thorough' or alg.startswith('ecdh') else (None, 4, 33)):
            arg = '--dheat=1:%s' % alg + ('' if elen is None else ':%d' % elen)
            scs.append({'argv': [arg, rating.HOST], 'servers': {(rating.HOST, 22): cfg}, 'setup': shim, 'alarm': 30})
            meta.append((alg, elen))
    scs.append({'argv': ['--dheat=1', rating.HOST], 'servers': {(rating.HOST, 22): peers.ServerCfg(base)}, 'setup': shim, 'alarm': 30})
    meta.append(('(chosen by the tool)', None))
    for (alg, elen), sc, r in zip(meta, scs, runner.run_many(scs)):
        ck.evaluated()
        replay = {'argv': sc['argv'], 'exit': r.get('exit'), 'stdout': (r.get('stdout') or '')[-1200:]}
        if r.get('harness_error'):
            raise common.Machinery('dheat run failed: %r' % r.get('harness_error'))
        if r.get('hang'):
            ck.violation('dheat-run-did-not-stop', '%s: the run did not stop when interrupted' % sc['argv'][0], replay)
            continue
        ev = r['events']
        bad = [e for e in ev if e.get('ev') in ('framing_violation', 'srv_decode_error', 'protocol_violation')]
        sends = [e for e in ev if e.get('ev') == 'send']
        inits = [e for e in sends if e.get('type') in (30, 32, 34)]
        if bad:
            replay['events'] = bad[:4]
            ck.violation('dheat-packet-malformed kex=%s e-length=%s' % ('nistp' if 'nistp' in alg else alg.split('-')[0], 'given' if elen else 'default'),
                         '%s: a packet of the flood violates RFC 4253 section 6 or does not decode: %s' % (sc['argv'][0], bad[0].get('what') or bad[0]), replay)
        elif any(e.get('bad') or e.get('trailing') for e in sends):
            ck.violation('dheat-kexinit-malformed', '%s: a KEXINIT of the flood does not decode cleanly' % sc['argv'][0], replay)
        elif not inits:
            ck.log('dheat leg: %s sent no key-exchange-init packet the fake server saw (%d sends)' % (sc['argv'][0], len(sends)))
        else:
            ck.cov['traces_validated_against_impl'] += len(sends)
            ck.nontrivial(('dheat', alg, elen))
    ck.notes.append('dheat leg: %d settings of the denial-of-service mode, packets decoded by the fake server' % len(scs))


def padding_leg(ck):
    """RFC 4253 section 6 allows 4 to 255 bytes of padding: a packet framed with any legal padding length - not only the minimal one the
    tool itself uses - is read back as sent, and so is the packet behind it.  Name-lists holding empty names next to others survive
    an encode / decode round trip and a KEXINIT carrying them re-encodes to the bytes received."""
    from ssh_audit.ssh_socket import SSH_Socket
    from ssh_audit.outputbuffer import OutputBuffer
    from ssh_audit.readbuf import ReadBuf
    from ssh_audit.writebuf import WriteBuf
    for pad in range(4, 256):
        ck.evaluated()
        n = next(k for k in range(1, 9) if (k + pad + 5) % 8 == 0)
        pl1 = bytes([20]) + bytes((7 * j + pad) & 0xff for j in range(n - 1))
        pl2 = bytes([21])
        pkt1 = wire.u32(len(pl1) + pad + 1) + bytes([pad]) + pl1 + bytes((j * 31 + 1) & 0xff for j in range(pad))
        stream = pkt1 + wire.frame(pl2)
        for segs in ([stream], [stream[:5], stream[5:]], [stream[:len(pkt1) - 1], stream[len(pkt1) - 1:]]):
            s = SSH_Socket(OutputBuffer(), 'localhost', 22)
            s._SSH_Socket__sock = _Seg(segs)
            try:
                got = [s.read_packet(2), s.read_packet(2)]
            except BaseException as e:    # noqa
                got = [('raised', repr(e))]
            if got != [(pl1[0], pl1[1:]), (pl2[0], pl2[1:])]:
                ck.violation('stream-read proto=2 padding=%s' % ('128-255' if pad >= 128 else '12-127' if pad >= 12 else '4-11'),
                             'a packet with %d bytes of padding (and the packet behind it): read_packet returned %r' % (pad, [(g[0], g[1][:8]) for g in got]),
                             {'padding': pad, 'stream': stream.hex()[:400]})
                break
        else:
            ck.cov['traces_validated_against_impl'] += 1
            ck.nontrivial(('padding', pad))
    for names in (['a', ''], ['', 'a'], ['', ''], ['a', '', 'b'], ['', '', ''], ['curve25519-sha256', '', 'ext-info-s'], ['a', 'a', '']):
        ck.evaluated()
        enc = WriteBuf().write_list(names).write_flush()
        want = wire.string(','.join(names).encode())
        back = ReadBuf(want).read_list()
        if enc != want:
            ck.violation('list-encode empty-names', 'write_list(%r) gives %s, the name-list encoding is %s' % (names, enc.hex(), want.hex()), {'names': names})
        elif back != names:
            ck.violation('list-decode empty-names', 'read_list(%s) gives %r, expected %r' % (want.hex(), back, names), {'names': names})
        else:
            ck.cov['traces_validated_against_impl'] += 1
            ck.nontrivial(('empty-names', tuple(names)))


def proof_leg(ck):
    """SshFrameProof.tla: the framing arithmetic for EVERY payload length, discharged by the TLA+ proof system (tlapm, SMT back end).
    TLC checks FrameLaw for 0..MaxPayload and the replay covers 1..4096; the proof removes the bound from the arithmetic."""
    import shutil
    import subprocess
    import tempfile
    exe = shutil.which('tlapm')
    if exe is None:
        ck.notes.append('tlapm not on PATH: the unbounded framing lemma was not re-checked (TLC bound 0..4096 stands)')
        return
    tmp = tempfile.mkdtemp(prefix='vtlaps-')
    try:
        shutil.copy(os.path.join(common.ROOT, 'spec', 'SshFrameProof.tla'), tmp)
        p = subprocess.run([exe, 'SshFrameProof.tla'], cwd=tmp, stdout=subprocess.PIPE, stderr=subprocess.STDOUT, text=True, timeout=600)
        ok = p.returncode == 0 and 'obligation proved' in p.stdout.replace('obligations', 'obligation') and 'failed' not in p.stdout.lower()
        common.require(ok, 'tlapm did not prove SshFrameProof!FrameLawUnbounded:\n' + p.stdout[-1500:])
        ck.notes.append('TLAPS: FrameLawUnbounded proved for all n in Nat (%s)' % p.stdout.strip().splitlines()[-1].strip())
        ck.log('TLAPS: FrameLawUnbounded (every payload length) proved')
    finally:
        shutil.rmtree(tmp, ignore_errors=True)


def stream_leg(ck, tier):
    """SshStream.tla: every sequence of packets x every segmentation of the byte stream (up to MaxCuts cuts); TLC checks that the
    reader model stays aligned and returns exactly the packets sent, and each case is replayed into SSH_Socket.read_packet."""
    from harness import tlc
    from ssh_audit.ssh_socket import SSH_Socket
    from ssh_audit.outputbuffer import OutputBuffer
    for proto in (2, 1):
        _stream_proto(ck, tier, proto)


def _stream_proto(ck, tier, proto):
    from harness import tlc
    from ssh_audit.ssh_socket import SSH_Socket
    from ssh_audit.outputbuffer import OutputBuffer
    # payload sizes cover every padding length of the protocol (SSH-2: 4..11, SSH-1: 1..8 incl. a length that is a multiple of 8)
    if proto == 2:
        sizes, maxp, maxc = ('{1, 4, 11}', 2, 2) if tier == 'quick' else ('{1, 4, 11, 12}', 3, 2)
    else:
        sizes, maxp, maxc = ('{1, 4, 5, 11}', 2, 2) if tier == 'quick' else ('{1, 4, 5, 11, 12}', 3, 2)
    cfg = ('SPECIFICATION Spec\nCONSTANTS\n Sizes = %s\n MaxPackets = %d\n MaxCuts = %d\n Proto = %d\nINVARIANT Aligned\nINVARIANT NoOverread\nINVARIANT AllReturned\n'
           'INVARIANT Prefix\nINVARIANT Emit\nPROPERTY Terminates\n' % (sizes, maxp, maxc, proto))
    res = tlc.run('SshStream', cfg, workers=None)
    ck.add_tlc(res)
    common.require(res.ok, 'SshStream (SSH-%d): %s violated on the reader model:\n%s' % (proto, res.violated, '\n'.join(res.trace[-30:])))
    cases = [p for p in res.prints if isinstance(p, dict) and 'cuts' in p]
    common.require(len(cases) > 100, 'SshStream emitted only %d cases' % len(cases))
    ck.log('SshStream (SSH-%d framing): %d (packet sequence, segmentation) cases; Aligned, NoOverread, AllReturned, Terminates hold' % (proto, len(cases)))
    mk = (lambda pl: wire.frame(pl)) if proto == 2 else (lambda pl: wire.frame1(pl[0], pl[1:], padbyte=len(pl)))
    for c in cases:
        ck.evaluated()
        payloads = [bytes([20 + i]) + bytes((j * 13 + n) & 0xff for j in range(n - 1)) for i, n in enumerate(c['pkts'])]
        stream = b''.join(mk(pl) for pl in payloads)
        edges = [0] + list(c['cuts']) + [len(stream)]
        segs = [stream[a:b] for a, b in zip(edges, edges[1:])]
        want = [(pl[0], pl[1:]) for pl in payloads]
        ok = True
        for again in ((False, True) if c['cuts'] else (False,)):
            s = SSH_Socket(OutputBuffer(), 'localhost', 22)
            s._SSH_Socket__sock = _Seg(segs, again=again)
            got = []
            try:
                for _ in range(len(payloads) + 1):
                    got.append(s.read_packet(proto))
            except BaseException as e:    # noqa
                got.append(('raised', repr(e)))
            ok = got[:len(want)] == want and len(got) == len(want) + 1 and got[-1][0] == -1
            if not ok:
                break
        if not ok:
            k = next((i for i, (g, w) in enumerate(zip(got, want)) if g != w), len(want))
            where = 'first' if k == 0 else 'later'
            cut_kind = 'none'
            if c['cuts']:
                # where does the first cut fall within its packet?
                off, acc = c['cuts'][0], 0
                for n in c['pkts']:
                    fl = len(mk(bytes([2]) + bytes(n - 1)))
                    if off < acc + fl:
                        rel = off - acc
                        cut_kind = 'in-length' if rel < 4 else 'before-payload' if rel < 5 else 'in-payload' if rel < 5 + n else 'in-padding' if rel < fl else 'boundary'
                        break
                    acc += fl
            ck.violation('stream-read proto=%d packet=%s cut=%s%s' % (proto, where, cut_kind, ' try-again-between-segments' if again else ''),
                         'packets of payload sizes %r delivered in segments cut at %r: read_packet call %d returned %r' % (c['pkts'], c['cuts'], k + 1, got[k] if k < len(got) else None),
                         {'pkts': c['pkts'], 'cuts': c['cuts'], 'returned': [(g[0], g[1].hex() if isinstance(g[1], bytes) else g[1]) for g in got]})
        else:
            ck.cov['traces_validated_against_impl'] += 1
            ck.nontrivial(('stream', proto, tuple(c['pkts']), tuple(c['cuts'])))


def scalar_and_message_legs(ck, rnd, tier):
    from ssh_audit.writebuf import WriteBuf
    from ssh_audit.readbuf import ReadBuf
    from ssh_audit.ssh2_kex import SSH2_Kex
    from ssh_audit.outputbuffer import OutputBuffer
    from ssh_audit.ssh1_publickeymessage import SSH1_PublicKeyMessage
    from ssh_audit.ssh1 import SSH1
    for v in [0, 1, 127, 128, 255]:
        ck.evaluated()
        if WriteBuf().write_byte(v).write_flush() != bytes([v]) or ReadBuf(bytes([v])).read_byte() != v:
            ck.violation('byte-codec', 'byte %d' % v, {})
    for v in [True, False]:
        if ReadBuf(WriteBuf().write_bool(v).write_flush()).read_bool() != v:
            ck.violation('bool-codec', 'bool %r' % v, {})
    for v in [0, 1, 255, 256, 65535, 65536, 0x7fffffff, 0x80000000, 0xffffffff] + [rnd.getrandbits(32) for _ in range(200)]:
        ck.evaluated()
        b = WriteBuf().write_int(v).write_flush()
        if b != wire.u32(v) or ReadBuf(b).read_int() != v:
            ck.violation('uint32-codec', 'uint32 %d -> %s' % (v, b.hex()), {})
    for _ in range(300):
        ck.evaluated()
        s = bytes(rnd.getrandbits(8) for _ in range(rnd.choice([0, 1, 2, 7, 255, 256, 1000])))
        b = WriteBuf().write_string(s).write_flush()
        if b != wire.string(s) or ReadBuf(b).read_string() != s:
            ck.violation('string-codec', 'string of %d bytes' % len(s), {})
    # text arguments: the length prefix counts bytes of the UTF-8 encoding, not characters
    for t in ['', 'abc', 'caf\u00e9', 'fran\u00e7ais', '\u4e2d\u6587', 'x\ufffdy', 'a,b', '\U0001f600-cipher@example.org']:
        ck.evaluated()
        want = wire.string(t.encode('utf-8'))
        b = WriteBuf().write_string(t).write_flush()
        b2 = WriteBuf().write_list([t, 'aes128-ctr']).write_flush()
        want2 = wire.string((t + ',aes128-ctr').encode('utf-8'))
        if b != want or b2 != want2:
            ck.violation('string-codec text=non-ascii' if any(ord(ch) > 127 for ch in t) else 'string-codec text=ascii',
                         'write_string/write_list(%r) -> %s / %s, RFC 4251 encoding is %s / %s' % (t, b.hex(), b2.hex(), want.hex(), want2.hex()), {'text': t})
        elif ReadBuf(b2).read_list() != [t, 'aes128-ctr'] and ',' not in t:
            ck.violation('list-codec text=non-ascii', 'read_list(write_list([%r, ..])) differs' % t, {'text': t})
        else:
            ck.cov['traces_validated_against_impl'] += 1
            ck.nontrivial(('text', t))
    # KEXINIT: parse . write is the identity on bytes, and the tool's writer agrees with the independent encoder
    names = ['curve25519-sha256', 'a', 'x=+/', 'gss-gex-sha1-toWM5Slw5Ew8Mqkay+al2g==', 'aes128-ctr@example.org', 'hmac-sha2-256', 'none', 'zlib@openssh.com', '',
             'fran\u00e7ais', '\u4e2d\u6587-kex@example.org']
    for _ in range(300 if tier == 'quick' else 3000):
        ck.evaluated()
        lists = {k: [rnd.choice(names).encode() for _ in range(rnd.randint(0, 4))] for k in wire.KEXINIT_FIELDS}
        follows, reserved = rnd.random() < 0.5, rnd.choice([0, 1, 0xffffffff])
        cookie = bytes(rnd.getrandbits(8) for _ in range(16))
        payload = wire.build_kexinit(lists, cookie=cookie, follows=follows, reserved=reserved)[1:]
        try:
            kex = SSH2_Kex.parse(OutputBuffer(), payload)
            again = kex.payload
        except Exception as e:      # noqa
            ck.violation('kexinit-parse-raises %s' % type(e).__name__, repr(e), {'payload': payload.hex()})
            continue
        # an empty list decodes as [''] and re-encodes to the same bytes
        if again != payload:
            ck.violation('kexinit-reencode', 're-encoding a parsed KEXINIT changes %d bytes' % sum(1 for a, b_ in zip(again, payload) if a != b_), {'payload': payload.hex(), 'again': again.hex()})
            continue
        dec = wire.parse_kexinit(again)
        if any((dec[k] or [b'']) != (lists[k] or [b'']) for k in wire.KEXINIT_FIELDS) or dec['follows'] != follows or dec['reserved'] != reserved or dec['cookie'] != cookie:
            ck.violation('kexinit-fields', 'independent decoder disagrees with the tool on a KEXINIT', {'payload': payload.hex()})
            continue
        got = {'kex': kex.kex_algorithms, 'key': kex.key_algorithms, 'enc_c2s': kex.client.encryption, 'enc_s2c': kex.server.encryption,
               'mac_c2s': kex.client.mac, 'mac_s2c': kex.server.mac, 'comp_c2s': kex.client.compression, 'comp_s2c': kex.server.compression,
               'lang_c2s': kex.client.languages, 'lang_s2c': kex.server.languages}
        if any([x.encode() for x in got[k]] != (lists[k] or [b'']) for k in wire.KEXINIT_FIELDS) or kex.follows != follows or kex.unused != reserved:
            ck.violation('kexinit-values', 'parsed KEXINIT holds other values than were sent', {'payload': payload.hex()})
        else:
            ck.cov['traces_validated_against_impl'] += 1
            ck.nontrivial(('kexinit', payload[:24]))
    # SSH-1 public key message and CRC
    for _ in range(200 if tier == 'quick' else 2000):
        ck.evaluated()
        hb, sb = rnd.choice([512, 768, 1023, 1024, 2048]), rnd.choice([512, 768, 1024])
        hn, sn = rnd.getrandbits(hb) | (1 << (hb - 1)), rnd.getrandbits(sb) | (1 << (sb - 1))
        if rnd.random() < 0.3:
            hn >>= rnd.choice([1, 2, 9])        # the declared size is a field of its own: it need not be the bit length of the modulus
        if rnd.random() < 0.3:
            sn >>= 1
        he, se = rnd.choice([3, 35, 65537]), rnd.choice([3, 65537])
        body = (bytes(rnd.getrandbits(8) for _ in range(8)) + wire.u32(sb) + wire.mpint1(se) + wire.mpint1(sn) + wire.u32(hb) + wire.mpint1(he)
                + wire.mpint1(hn) + wire.u32(rnd.choice([0, 2])) + wire.u32(rnd.getrandbits(7)) + wire.u32(rnd.getrandbits(6) << 1))
        try:
            pkm = SSH1_PublicKeyMessage.parse(body)
            if pkm.payload != body or pkm.host_key_public_modulus != hn or pkm.server_key_public_modulus != sn or pkm.host_key_public_exponent != he:
                ck.violation('ssh1-pkm-roundtrip', 'SSH-1 public key message does not round-trip', {'body': body.hex()})
                continue
        except Exception as e:      # noqa
            ck.violation('ssh1-pkm-raises %s' % type(e).__name__, repr(e), {'body': body.hex()})
            continue
        data = bytes(rnd.getrandbits(8) for _ in range(rnd.choice([0, 1, 5, 64, 1000])))
        if SSH1.crc32(data) != wire.ssh1_crc32(data):
            ck.violation('ssh1-crc32', 'CRC-32 of %d bytes differs from the SSH-1 CRC computed with zlib' % len(data), {'data': data.hex()})
            continue
        pkt = wire.frame1(2, body, padbyte=rnd.choice([0, 1, 0x5a, 0xfe]))       # zero and non-zero padding: the CRC covers the padding too
        r, _ = _sock(pkt)
        try:
            t, pl = r.read_packet(1)
        except BaseException as e:      # noqa
            ck.violation('ssh1-packet-rejected', 'reader rejects a well-formed SSH-1 packet: %r' % (e,), {'packet': pkt.hex()})
            continue
        if t != 2 or pl != body:
            ck.violation('ssh1-packet-misread', 'reader returns type %r / %d bytes' % (t, len(pl)), {'packet': pkt.hex()})
            continue
        bad = bytearray(pkt)
        bad[len(bad) // 2] ^= 0x10
        r, _ = _sock(bytes(bad))
        try:
            r.read_packet(1)
            ck.violation('ssh1-crc-not-checked', 'a corrupted SSH-1 packet is accepted', {'packet': bytes(bad).hex()})
            continue
        except SystemExit:
            pass
        ck.cov['traces_validated_against_impl'] += 1
        ck.nontrivial(('pkm', hb, sb, he))


def emitted_leg(ck):
    """Every packet the tool emits while auditing the archetype servers, decoded by the fake peer's independent decoder."""
    from checks import c09
    scs = [c09.scenario(cfg, skip_rate=True) for cfg in c09.archetypes().values()]
    for r in runner.run_many(scs):
        ck.evaluated()
        bad = [e for e in r['events'] if e.get('ev') in ('framing_violation', 'srv_decode_error')]
        sends = [e for e in r['events'] if e.get('ev') == 'send']
        if bad:
            ck.violation('emitted-packet-malformed', 'a packet emitted during a full audit violates RFC 4253 section 6: %r' % bad[:2], {'events': bad[:5]})
        elif any(e.get('bad') or e.get('trailing') for e in sends):
            ck.violation('emitted-kexinit-malformed', 'a KEXINIT emitted during a full audit does not decode cleanly', {'events': [e for e in sends if e.get('bad') or e.get('trailing')][:3]})
        else:
            ck.cov['traces_validated_against_impl'] += len(sends)
    ck.notes.append('packets emitted during full audits of the three archetype servers were decoded by the independent decoder')
    # connections that follow one another on the same socket object: whatever the previous connection left behind - bytes the peer
    # sent that were never read (SSH_MSG_NEWKEYS right behind the key-exchange reply, as OpenSSH sends it), a message the tool began
    # to write and abandoned (a degenerate group: no exponent exists) - the next connection starts clean: its first packet is the
    # KEXINIT, every packet is well-framed, and what it reads is what that connection's peer sent
    from harness import wire as _wire
    scs, meta = [], []
    for name, cfg in c09.archetypes().items():
        clean = c09.scenario(cfg, skip_rate=True)
        c1 = peers.ServerCfg(cfg)
        # (in the same segment as the reply, so that the tool's receive buffer holds it when the connection is closed)
        c1['mutate'] = lambda n, kind, idx, data: [data + _wire.frame(bytes([21]))] if kind in ('kexreply', 'gexreply') else [data]
        scs += [clean, c09.scenario(c1, skip_rate=True)]
        meta += [(name, 'clean'), (name, 'newkeys-behind-reply')]
        if cfg.get('gex'):
            for k in (1, 2, 3, 5, 8):
                for pval in (1, 5):
                    c2 = peers.ServerCfg(cfg)
                    state = {'n': 0}

                    def mutate(n, kind, idx, data, k=k, pval=pval, state=state):
                        if kind == 'gexgroup':
                            state['n'] += 1
                            if state['n'] == k:
                                return [_wire.frame(bytes([31]) + _wire.mpint(pval) + _wire.mpint(2))]
                        return [data]
                    c2['mutate'] = mutate
                    scs.append(c09.scenario(c2, skip_rate=True))
                    meta.append((name, 'degenerate-group p=%d at #%d' % (pval, k)))
    results = runner.run_many(scs)
    clean_out = {}
    for (name, what), r in zip(meta, results):
        if what == 'clean':
            clean_out[name] = r
    for (name, what), sc, r in zip(meta, scs, results):
        ck.evaluated()
        replay = {'archetype': name, 'variant': what, 'argv': sc['argv'], 'exit': r.get('exit'), 'stdout': (r.get('stdout') or '')[-2500:]}
        if r.get('harness_error') or r.get('hang'):
            ck.violation('run-did-not-complete variant=%s' % what.split(' ')[0], '%s, %s: the audit did not complete' % (name, what), replay)
            continue
        bad = [e for e in r['events'] if e.get('ev') in ('framing_violation', 'srv_decode_error', 'protocol_violation')]
        sends = [e for e in r['events'] if e.get('ev') == 'send']
        if bad:
            replay['events'] = bad[:4]
            ck.violation('connection-does-not-start-clean variant=%s' % what.split(' ')[0], '%s, %s: %s' % (name, what, bad[0].get('what') or bad[0]), replay)
        elif any(e.get('bad') or e.get('trailing') for e in sends):
            ck.violation('emitted-kexinit-malformed variant=%s' % what.split(' ')[0], '%s, %s: a KEXINIT does not decode cleanly' % (name, what), replay)
        elif what == 'newkeys-behind-reply' and r['stdout'] != clean_out[name]['stdout']:
            ck.violation('unread-bytes-carried-over', '%s: with SSH_MSG_NEWKEYS sent behind every key-exchange reply the report differs from the report without' % name, replay)
        else:
            ck.cov['traces_validated_against_impl'] += len(sends)
            ck.nontrivial(('clean-start', name, what))
