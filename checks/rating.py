"""Shared machinery of the checks bound to spec/SshRating.tla (C01 C02 C03 C04 C13 C15, thresholds of C11 C12).

  case (dict, what a peer advertises + what the probes would measure)
     -> TLC (SshRating, Mode = "oracle" | "mc") -> expected terminal state per case
     -> scenario for the real CLI (fake server/client built from the same case) -> observed report
     -> field-by-field comparison, one function per aspect (each aspect belongs to one property)
Python only transports: the expected values all come out of TLC.
"""
import json
import re

from harness import common, tlc, runner, peers, report, extract_tables

HOST = '10.0.0.1'
_tables_json = None


def tables_json():
    global _tables_json
    if _tables_json is None:
        _tables_json = extract_tables.tables_json()
    return _tables_json


def tables():
    return json.loads(tables_json())


# ---------------------------------------------------------------------------
# names: TLC only sees printable ASCII; anything else travels under an alias
# ---------------------------------------------------------------------------
def shown(name):
    """How a report can show a wire name: UTF-8 with U+FFFD for undecodable bytes."""
    if isinstance(name, bytes):
        return name.decode('utf-8', 'replace')
    return name


def alias(s):
    if all(0x20 <= ord(ch) <= 0x7e for ch in s) and not s.startswith('~x'):
        return s
    return '~x' + s.encode('utf-8').hex()


def unalias(s):
    if s.startswith('~x'):
        return bytes.fromhex(s[2:]).decode('utf-8')
    return s


def wire(name):
    return name if isinstance(name, bytes) else name.encode('utf-8')


def mk_case(cid, role='server', kex=(), key=(), enc=(), mac=(), comp=('none',), hk=None, dh=None, sw=None, banner=None,
            opts=(), enc_c2s=None, mac_c2s=None):
    """Names may be str or bytes (bytes = exact wire spelling)."""
    c = {'id': cid, 'role': role, 'kex': list(kex), 'key': list(key), 'enc': list(enc), 'mac': list(mac), 'comp': list(comp),
         'hk': dict(hk or {}), 'dh': dict(dh or {}), 'sw': sw, 'banner': banner, 'opts': list(opts)}
    # a server's report is about what it sends to clients (server-to-client lists); the other direction may differ (RFC 4253 7.1)
    if enc_c2s is not None:
        c['enc_c2s'] = list(enc_c2s)
    if mac_c2s is not None:
        c['mac_c2s'] = list(mac_c2s)
    return c


def render_sw(sw):
    """Software record -> identification string (transport)."""
    if sw is None or sw['product'] == 'none':
        return 'SSH-2.0-Generic_1.0'
    v = '.'.join(str(x) for x in sw['c'])
    if sw['p'][0] == 'p':
        v += 'p%d' % sw['p'][1]
    elif sw['p'][0] == 'test':
        v += 'test%d' % sw['p'][1]
    fmt = {'OpenSSH': 'SSH-2.0-OpenSSH_%s', 'Dropbear SSH': 'SSH-2.0-dropbear_%s', 'libssh': 'SSH-2.0-libssh-%s',
           'TinySSH': 'SSH-2.0-tinyssh_%s', 'PuTTY': 'SSH-2.0-PuTTY_Release_%s', 'other': 'SSH-2.0-Cisco-%s'}[sw['product']]
    return fmt % v


def tlc_case(c):
    sw = c['sw'] or {'product': 'none', 'c': [0], 'p': ['none', 0]}
    banner = c['banner'] or render_sw(c['sw'])
    extra = {}
    if c['role'] == 'client':
        # a client is judged on the lists of the direction it sends in (client-to-server); the report lists the other direction
        if 'enc_c2s' in c:
            extra['tenc'] = [alias(shown(n)) for n in c['enc_c2s']]
        if 'mac_c2s' in c:
            extra['tmac'] = [alias(shown(n)) for n in c['mac_c2s']]
    return dict(extra, **{
        'id': c['id'], 'role': c['role'],
        'kex': [alias(shown(n)) for n in c['kex']], 'key': [alias(shown(n)) for n in c['key']],
        'enc': [alias(shown(n)) for n in c['enc']], 'mac': [alias(shown(n)) for n in c['mac']],
        'comp': [alias(shown(n)) for n in c['comp']],
        'hk': {k: {'size': v[0], 'catype': v[1], 'casize': v[2]} for k, v in c['hk'].items()},
        'dh': {k: {'bits': v[0], 'fallback': bool(v[1])} for k, v in c['dh'].items()},
        'sw': {'product': sw['product'], 'c': list(sw['c']), 'p': list(sw['p'])},
        'openssh': 'OpenSSH' in banner.split('-', 2)[2] if banner.count('-') >= 2 else False,
    })


INVARIANTS = ['ShownIsAdvertised', 'ExitRule', 'StatusDomain', 'PositionIndependent', 'UnknownFlagged', 'TerrapinExact',
              'NeverAddTerrapinProne', 'SizeMonotone', 'Thresholds', 'RecsConsistent']


def evaluate(ck, cases=None, mode='oracle', invariants=INVARIANTS, workers=1):
    """Run SshRating over the cases; returns {id: expected}. In mode 'mc' returns the list of (case-less) expected records."""
    cfg = 'SPECIFICATION Spec\nCONSTANT Mode = "%s"\n' % mode
    cfg += ''.join('INVARIANT %s\n' % i for i in invariants) + 'INVARIANT Emit\nPROPERTY StatusMonotone\n'
    gen = {'tables.json': tables_json()}
    env = {'VERIF_TABLES': 'tables.json'}
    if mode == 'oracle':
        gen['cases.json'] = json.dumps([tlc_case(c) for c in cases])
        env['VERIF_CASES'] = 'cases.json'
    res = tlc.run('SshRating', cfg, generated=gen, env=env, workers=workers, coverage=False)
    ck.add_tlc(res)
    if not res.ok:
        raise common.Machinery('SshRating: TLC reports %s on the specification itself (a law of the rule does not hold on the model):\n%s'
                               % (res.violated, '\n'.join(res.trace[:60])))
    out = {}
    lst = []
    for p in res.prints:
        if isinstance(p, dict) and 'lines' in p:
            p = _unalias_expected(p)
            out[p['id']] = p
            lst.append(p)
    if mode == 'oracle':
        common.require(len(out) == len(cases), 'TLC emitted %d expected records for %d cases' % (len(out), len(cases)))
        return out
    return lst


def _unalias_expected(p):
    for cat in ('kex', 'key', 'enc', 'mac'):
        ls = p['lines'].get(cat, []) if isinstance(p['lines'], dict) else []
        for l in ls:
            l['name'] = unalias(l['name'])
    for r in p['recs']:
        r['name'] = unalias(r['name'])
    p['advisory'] = [unalias(x) for x in p['advisory']]
    if not isinstance(p.get('sizes'), dict):
        p['sizes'] = {'kex': [], 'key': []}
    return p


# ---------------------------------------------------------------------------
# case -> scenario
# ---------------------------------------------------------------------------
def hostkey_blob(name, meas):
    size, catype, casize = meas
    if name in ('ssh-rsa', 'rsa-sha2-256', 'rsa-sha2-512'):
        return peers.rsa_blob(size)
    if name == 'ssh-ed25519':
        return peers.ed25519_blob()
    if name == 'ssh-ed448':
        return peers.ed448_blob()
    if name.startswith('ecdsa-sha2-nistp') and '-cert-' not in name:
        return peers.ecdsa_blob(int(name[-3:]))
    if name == 'ssh-dss':
        return peers.dss_blob()
    if '-cert-' in name:
        if catype in ('ssh-rsa', 'rsa-sha2-256', 'rsa-sha2-512'):
            ca = ('rsa', casize)
        elif catype == 'ssh-ed25519':
            ca = ('ed25519',)
        elif catype.startswith('ecdsa-sha2-nistp'):
            ca = ('ecdsa', int(catype[-3:]))
        else:
            raise common.Machinery('no CA builder for %r' % catype)
        if name.startswith('ssh-rsa-cert') or name.startswith('rsa-sha2-'):
            return peers.cert_blob('rsa', ca, bits=size, name=b'ssh-rsa-cert-v01@openssh.com')
        if name.startswith('ssh-ed25519-cert'):
            return peers.cert_blob('ed25519', ca)
    raise common.Machinery('no host key builder for %r' % name)


DEFAULT_HK = {
    'ssh-rsa': (4096, '', 0), 'rsa-sha2-256': (4096, '', 0), 'rsa-sha2-512': (4096, '', 0),
    'ssh-ed25519': (256, '', 0), 'ssh-ed448': (448, '', 0), 'ssh-dss': (1024, '', 0),
    'ecdsa-sha2-nistp256': (512, '', 0), 'ecdsa-sha2-nistp384': (768, '', 0), 'ecdsa-sha2-nistp521': (1056, '', 0),
    'ssh-rsa-cert-v01@openssh.com': (4096, 'ssh-ed25519', 256), 'ssh-ed25519-cert-v01@openssh.com': (256, 'ssh-ed25519', 256),
    'rsa-sha2-256-cert-v01@openssh.com': (4096, 'ssh-ed25519', 256), 'rsa-sha2-512-cert-v01@openssh.com': (4096, 'ssh-ed25519', 256),
}


def server_cfg(c):
    banner = c['banner'] or render_sw(c['sw'])
    cfg = peers.ServerCfg(banner=banner.encode('latin-1') if isinstance(banner, str) else banner,
                          kexinit={'kex': [wire(n) for n in c['kex']], 'key': [wire(n) for n in c['key']],
                                   'enc': [wire(n) for n in c['enc']], 'mac': [wire(n) for n in c['mac']],
                                   'comp': [wire(n) for n in c['comp']]})
    if 'enc_c2s' in c:
        cfg['kexinit']['enc_c2s'] = [wire(n) for n in c['enc_c2s']]
    if 'mac_c2s' in c:
        cfg['kexinit']['mac_c2s'] = [wire(n) for n in c['mac_c2s']]
    cfg['hostkeys'] = {k: hostkey_blob(k, v) for k, v in c['hk'].items()}
    # advertised probe-able types without a stated measurement get an unremarkable key (no size note is due for it)
    for n in c['key']:
        n = shown(n)
        if n in DEFAULT_HK and n not in cfg['hostkeys']:
            fam = ('ssh-rsa', 'rsa-sha2-256', 'rsa-sha2-512')
            if n in fam and any(f in c['hk'] for f in fam):
                continue
            cfg['hostkeys'][n] = hostkey_blob(n, DEFAULT_HK[n])
    if c['dh']:
        bits = {v[0] for v in c['dh'].values()}
        fb = {bool(v[1]) for v in c['dh'].values()}
        if len(bits) == 1 and len(fb) == 1:
            cfg['gex'] = {'style': 'openssh' if True in fb else 'roundup', 'moduli': sorted(bits)}
        else:
            # a group size of its own for each group-exchange method (RFC 4419 leaves the choice to the server, request by request)
            cfg['gex'] = {'per_alg': {shown(a): {'style': 'openssh' if v[1] else 'roundup', 'moduli': [v[0]]} for a, v in c['dh'].items()}}
    elif any(shown(n).startswith('diffie-hellman-group-exchange-') for n in c['kex']):
        # a server that advertises group exchange serves it: an unremarkable 4096-bit group (no size note is due for it)
        cfg['gex'] = {'style': 'roundup', 'moduli': [4096]}
    # host-key types the server advertises but never presents: it closes the probe connection instead of answering
    for t in c.get('withheld', ()):
        cfg['hostkeys'].pop(t, None)
    # further fake-server settings of the case (e.g. debug_kinds: SSH_MSG_DEBUG messages in front of probe replies)
    for k, v in (c.get('server_opts') or {}).items():
        cfg[k] = v
    # host-key blobs given byte for byte (malformed ones: the probe fails and nothing is measured for that type)
    for t, blob in (c.get('raw_hostkeys') or {}).items():
        cfg['hostkeys'][t] = blob
    return cfg


VIEW_ARGS = {'text': ['-n'], 'json': ['-j'], 'batch': ['-n', '-b'], 'verbose': ['-n', '-v'], 'colour': [], 'jsonindent': ['-jj']}


def scenario(c, view='text', extra=(), observe=False):
    args = list(VIEW_ARGS[view]) + ['--skip-rate-test'] + list(c.get('opts', ())) + list(extra)
    if c['role'] == 'client':
        cfg = server_cfg(c)
        return {'argv': args + ['-c', '-p', '2222'], 'clients': [cfg], 'observe': observe}
    return {'argv': args + [HOST], 'servers': {(HOST, 22): server_cfg(c)}, 'observe': observe}


# ---------------------------------------------------------------------------
# observed report -> records
# ---------------------------------------------------------------------------
def observed_text(res):
    if res.get('harness_error') or res.get('hang') or res.get('exit') is None:
        raise common.Machinery('run failed in the harness: %s' % (res.get('harness_error') or res,))
    return report.parse_text(res['stdout'])


def parse_view(res, view, exp=None):
    """Parsed report of a run in the given view; verbose reports are regrouped with the expected note counts."""
    if view in ('json', 'jsonindent'):
        return report.parse_json(res['stdout'])
    tx = report.parse_text(res['stdout'], verbose=(view == 'verbose'))
    if view == 'verbose' and exp is not None:
        regroup_verbose(tx, exp)
    return tx


def regroup_verbose(tx, exp):
    """One entry per printed line -> one entry per algorithm: an algorithm with k notes prints max(1, k) lines."""
    for cat in ('kex', 'key', 'enc', 'mac'):
        flat = tx['algs'][cat]
        out, i = [], 0
        for l in exp['lines'][cat]:
            k = max(1, len(l['fail']) + len(l['warn']) + len(l['info']) + (1 if l['unknown'] else 0))
            # never merge lines of different names: a wrong count then shows up as a name mismatch, not as a parser artefact
            grp = []
            while i < len(flat) and len(grp) < k and (not grp or flat[i]['name'] == grp[0]['name']):
                grp.append(flat[i])
                i += 1
            if not grp:
                break
            e = dict(grp[0])
            e['notes'] = [n for g in grp for n in g['notes']]
            e['levels'] = [n[0] for n in e['notes']]
            out.append(e)
        out += flat[i:]
        tx['algs'][cat] = out


_BITS = re.compile(r'(\d{3,5})-bit')
_TABLE_NOTES = None


def canon(t):
    """Note text -> what is compared.  Texts that come from the rating tables are compared as they are (expected and observed both read
    the live tables).  Notes the code *generates* (size notes, the Terrapin warning, the fallback notes, CA notes) are compared by what
    the properties speak of - their severity level (the caller compares per level), how many there are, and the size they name - not
    by their wording, so that rewording such a message is not reported as a violation."""
    global _TABLE_NOTES
    m = _BITS.search(t)
    if m:
        return 'GENERATED(%s-bit)' % m.group(1)
    if _TABLE_NOTES is None:
        db = tables()['db2']
        _TABLE_NOTES = {x for cat in db for e in db[cat].values() for lv in ('fail', 'warn', 'info') for x in e.get(lv, [])} | {'', 'unknown algorithm', 'using unknown algorithm'}
    if t in _TABLE_NOTES or t.startswith('available since') or t.startswith('default '):
        return t
    return 'GENERATED'


def multiset(xs):
    return sorted(canon(x) for x in xs)


def notes_of_text(alg):
    d = {'fail': [], 'warn': [], 'info': []}
    for lv, t in alg['notes']:
        d[lv].append(t)
    return d


def crash_signature(res):
    """Name the uncaught exception of a run that ended through the internal-error status (255)."""
    m = re.findall(r'^((?:\w+\.)*\w*(?:Error|Exception|Exit|Interrupt|error)\w*)(?::|$)', res['stdout'] + '\n' + res.get('stderr', ''), re.M)
    where = re.findall(r'File ".*?/(\w+)\.py", line \d+, in (\w+)', res['stdout'])
    exc = m[-1] if m else 'unknown'
    loc = '%s.%s' % where[-1] if where else 'unknown'
    return exc, loc


def compare_names(c, exp, text=None, js=None):
    """C01 aspect. Returns list of (signature, description)."""
    out = []
    for cat in ('kex', 'key', 'enc', 'mac'):
        want = [l['name'] for l in exp['lines'][cat]]
        if text is not None:
            got = [a['name'] for a in text['algs'][cat]]
            if got != want:
                out.append(('names view=text cat=%s' % cat, 'text report shows %r, advertised %r' % (got, want)))
        if js is not None:
            got = [a['name'] for a in report.json_algs(js)[cat]]
            wantj = [shown(n) for n in c[cat]]          # JSON carries the list as sent (incl. blank names)
            if [g for g in got if g.strip() != ''] != want:
                out.append(('names view=json cat=%s' % cat, 'JSON report lists %r, advertised %r' % (got, want)))
    return out


def compare_notes(c, exp, text=None, js=None):
    """C03 aspect: per algorithm, levels and note texts (multisets per level)."""
    out = []
    for cat in ('kex', 'key', 'enc', 'mac'):
        el = exp['lines'][cat]
        if text is not None:
            tl = text['algs'][cat]
            for i, l in enumerate(el):
                if i >= len(tl) or tl[i]['name'] != l['name']:
                    out.append(('notes view=text cat=%s misaligned' % cat, 'line %d: expected %r' % (i, l['name'])))
                    break
                got = notes_of_text(tl[i])
                if l['unknown']:
                    # demanded: flagged unknown, never presented as good (no info-only line); other notes are not C03's business
                    if 'unknown algorithm' not in got['warn'] + got['fail']:
                        out.append(('unknown-not-flagged view=text cat=%s' % cat, '%s %s is not flagged unknown: %r' % (cat, l['name'], got)))
                    continue
                else:
                    want = {k: list(l[k]) for k in ('fail', 'warn', 'info')}
                for lv in ('fail', 'warn', 'info'):
                    if multiset(got[lv]) != multiset(want[lv]):
                        kind = _note_kind(l, c, cat)
                        out.append(('notes view=text cat=%s level=%s kind=%s' % (cat, lv, kind),
                                    '%s %s: text shows %s %r, rule gives %r' % (cat, l['name'], lv, got[lv], want[lv])))
        if js is not None:
            jl = [a for a in report.json_algs(js)[cat] if (a['name'] or '').strip() != '']
            for i, l in enumerate(el):
                if i >= len(jl) or jl[i]['name'] != l['name']:
                    out.append(('notes view=json cat=%s misaligned' % cat, 'entry %d: expected %r' % (i, l['name'])))
                    break
                got = {k: [x for x in (jl[i]['notes'].get(k) or []) if x is not None] for k in ('fail', 'warn', 'info')}
                if l['unknown']:
                    if 'using unknown algorithm' not in got['fail'] + got['warn']:
                        out.append(('unknown-not-flagged view=json cat=%s' % cat, '%s %s is not flagged unknown in JSON: %r' % (cat, l['name'], got)))
                    continue
                else:
                    want = {k: list(l[k]) for k in ('fail', 'warn', 'info')}
                for lv in ('fail', 'warn', 'info'):
                    if multiset(got[lv]) != multiset(want[lv]):
                        kind = _note_kind(l, c, cat)
                        out.append(('notes view=json cat=%s level=%s kind=%s' % (cat, lv, kind),
                                    '%s %s: JSON has %s %r, rule gives %r' % (cat, l['name'], lv, got[lv], want[lv])))
    return out


def _note_kind(l, c, cat):
    n = l['name']
    if cat == 'kex' and n.startswith('gss-'):
        return 'gss'
    if l['unknown']:
        return 'unknown-name'
    return 'known-name'


TERRAPIN = 'vulnerable to the Terrapin attack (CVE-2023-48795), allowing message prefix truncation'
ADVISORY_RE = re.compile(r'with this target: (.*?)\.\s+[A-Z]')       # the list of names is what is compared, not the prose around it


def compare_terrapin(c, exp, text=None, js=None):
    """C04 aspect: who carries the warning, the advisory note, no + recommendation for disabled Terrapin-prone algorithms."""
    out = []
    cats = ('kex', 'key', 'enc', 'mac')
    want = {(cat, i) for cat in cats for i, l in enumerate(exp['lines'][cat]) if TERRAPIN in l['warn']}

    def diff(got, view):
        for cat, i in sorted(got ^ want):
            l = exp['lines'][cat][i] if i < len(exp['lines'][cat]) else {'name': '?', 'unknown': False}
            what = 'missing' if (cat, i) in want else 'unexpected'
            out.append(('terrapin-warning %s kind=%s view=%s' % (what, 'unknown-name' if l['unknown'] else 'known-name', view),
                        '%s:%s %s the Terrapin warning (rule: warned = %s)' % (cat, l['name'], 'lacks' if what == 'missing' else 'carries',
                                                                             sorted('%s:%s' % (a, exp['lines'][a][b]['name']) for a, b in want))))
    if text is not None:
        got = {(cat, i) for cat in cats for i, a in enumerate(text['algs'][cat]) if any(lv == 'warn' and 'terrapin' in t.lower() for lv, t in a['notes'])}
        diff(got, 'text')
        adv = [m.group(1).split(', ') for n in text['nfo'] for m in [ADVISORY_RE.search(n)] if m]
        gadv = adv[0] if adv else []
        if gadv != list(exp['advisory']) or len(adv) > 1:
            out.append(('terrapin-advisory view=text', 'advisory names %r, rule says %r' % (adv, exp['advisory'])))
        for r in text['rec']:
            if r['sign'] == '+' and _terrapin_prone(r['cat'], r['name']):
                out.append(('terrapin-rec-add view=text', 'recommends adding %s' % r['name']))
    if js is not None:
        ja = report.json_algs(js)
        got = {(cat, i) for cat in cats for i, a in enumerate([x for x in ja[cat] if (x['name'] or '').strip()])
               if any('terrapin' in (t or '').lower() for t in (a['notes'].get('warn') or []))}
        diff(got, 'json')
        adv = [m.group(1).split(', ') for n in js.get('additional_notes', []) for m in [ADVISORY_RE.search(n)] if m]
        gadv = adv[0] if adv else []
        if gadv != list(exp['advisory']):
            out.append(('terrapin-advisory view=json', 'advisory names %r, rule says %r' % (adv, exp['advisory'])))
        for r in report.json_recs(js):
            if r['action'] == 'add' and _terrapin_prone(r['cat'], r['name']):
                out.append(('terrapin-rec-add view=json', 'recommends adding %s' % r['name']))
    return out


def _terrapin_prone(cat, n):
    if cat == 'enc':
        return n.startswith('chacha20-poly1305') or n.endswith('-cbc') or n.endswith('-cbc@openssh.org') or n.endswith('-cbc@ssh.com') \
            or n == 'rijndael-cbc@lysator.liu.se'
    if cat == 'mac':
        return n.endswith('-etm@openssh.com')
    return False


def compare_recs(c, exp, text=None, js=None):
    """C13 aspect: the (rec) lines / JSON recommendations against TLC's set."""
    out = []
    want = {(r['cat'], r['name'], r['action'], r['level']) for r in exp['recs']}
    act = {'remove': 'del', 'append': 'add', 'change': 'chg'}
    if text is not None:
        got = {(r['cat'], r['name'], act.get(r['action'], r['action'])) for r in text['rec']}
        w3 = {(a, b, d) for a, b, d, _ in want}
        for x in sorted(got - w3):
            out.append(('recs view=text extra action=%s kind=%s' % (x[2], _rec_kind(x)), 'recommends %s %s:%s which the rule does not' % (x[2], x[0], x[1])))
        for x in sorted(w3 - got):
            out.append(('recs view=text missing action=%s kind=%s' % (x[2], _rec_kind(x)), 'does not recommend %s %s:%s' % (x[2], x[0], x[1])))
    if js is not None:
        got = {(r['cat'], r['name'], r['action'], r['level']) for r in report.json_recs(js)}
        for x in sorted(got - want):
            out.append(('recs view=json extra action=%s kind=%s' % (x[2], _rec_kind(x)), 'JSON recommends %r which the rule does not' % (x,)))
        for x in sorted(want - got):
            out.append(('recs view=json missing action=%s kind=%s' % (x[2], _rec_kind(x)), 'JSON lacks recommendation %r' % (x,)))
    return out


def _rec_kind(x):
    return 'gss' if x[0] == 'kex' and x[1].startswith('gss-') else 'plain'


def compare_status(c, exp, res):
    """C02 aspect."""
    if res['exit'] != exp['status']:
        return [('status', 'exit status %r, report content implies %r' % (res['exit'], exp['status']))]
    return []


# ---------------------------------------------------------------------------
# code -> spec: validation of recorded `rated` traces against TraceRating.tla
# ---------------------------------------------------------------------------
_TAG = re.compile(r'(?:-- |`- )\[(fail|warn|info)\] ')
TRACE_INVARIANTS = ['ShownIsAdvertised', 'ExitRule', 'StatusDomain', 'PositionIndependent', 'UnknownFlagged', 'TerrapinExact']


def trace_of(c, res):
    evs = []
    for e in res['events']:
        if e.get('ev') != 'rated' or e['cat'] not in ('kex', 'key', 'enc', 'mac'):
            continue
        levels = []
        for method, text in e['calls']:
            m = _TAG.search(report.strip_ansi(text))
            if m:
                levels.append(m.group(1))
        evs.append({'cat': e['cat'], 'name': alias(e['name']), 'levels': levels, 'before': e['before'], 'after': e['after']})
    return {'case': tlc_case(c), 'events': evs, 'exit': res['exit']}


def validate_traces(ck, items, chunk=4000):
    """items: [(case, result)] of runs made with observe=True. Returns [(verdict, at)] in order."""
    verdicts = []
    for s in range(0, len(items), chunk):
        part = items[s:s + chunk]
        traces = [trace_of(c, r) for c, r in part]
        cfg = 'SPECIFICATION TraceSpec\nCONSTANT Mode = "trace"\n' + ''.join('INVARIANT %s\n' % i for i in TRACE_INVARIANTS) + \
              'INVARIANT Verdict\nPROPERTY StatusMonotone\n'
        res = tlc.run('TraceRating', cfg, generated={'tables.json': tables_json(), 'traces.json': json.dumps(traces)},
                      env={'VERIF_TABLES': 'tables.json', 'VERIF_TRACES': 'traces.json'})
        ck.add_tlc(res)
        if res.violated:
            # an invariant of the specification failed on a state reached by following a real trace
            raise InvariantOnTrace(res.violated, '\n'.join(res.trace[:80]))
        got = {p['tid']: p for p in res.prints if isinstance(p, dict) and 'verdict' in p}
        common.require(len(got) == len(part), 'TraceRating gave %d verdicts for %d traces' % (len(got), len(part)))
        for i in range(len(part)):
            verdicts.append((got[i + 1]['verdict'], got[i + 1]['at']))
    return verdicts


class InvariantOnTrace(Exception):
    def __init__(self, inv, trace):
        Exception.__init__(self, inv)
        self.inv = inv
        self.trace = trace
