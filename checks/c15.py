"""C15 - output options change presentation only, never findings or verdict.

 * SshOutput.tla models the output buffer (levels, always-print, sections, batch, colours).  TLC checks LevelOnlyRemoves,
   ColourOnlyWraps, BatchOnlyDrops, NoRewrite for every call sequence up to MaxCalls over the call alphabet and every
   option set, and emits each (sequence, options, expected buffer); all are replayed into the real OutputBuffer class.
 * Through the CLI: for peers covering every severity mix (expected findings and status from SshRating via TLC) the same
   audit is rendered under {-b} x {-v} x {-n} x -l {info, warn, fail} x {text, -j, -jj}: exit status constant and equal
   to the spec's, finding set at level L = the spec's finding set filtered to L (never a line added or altered), colour
   codes only wrap lines, -j and -jj parse to the same value and carry the spec's findings for known names, repeated
   runs byte-identical, and identical across PYTHONHASHSEED values (fresh interpreters).
"""
import itertools
import json
import os
import random
import subprocess
import sys

from harness import common, tlc, runner, report, peers
from checks import rating

LAWS = ['LevelOnlyRemoves', 'ColourOnlyWraps', 'BatchOnlyDrops', 'NoRewrite']
COL = {'fail': 31, 'good': 32, 'warn': 33, 'head': 36}


def replay_buffer(e):
    from ssh_audit.outputbuffer import OutputBuffer
    o = e['opts']
    out = OutputBuffer()
    out.level = o['level']
    out.batch = o['batch']
    out.use_colors = o['colors']
    for c in e['calls']:
        op = c['op']
        if op == 'print':
            getattr(out, c['lv'])(c['text'], always_print=c['always'])
        elif op == 'pair':
            out.info('R: ', line_ended=False)           # the way a policy audit prints its verdict: "Result: " + verdict at its own level
            getattr(out, c['lv'])(c['text'])
        elif op == 'head':
            out.head(c['text'])
        elif op == 'sep':
            out.sep()
        elif op == 'enter':
            out.__enter__()
        elif op == 'exit':
            out.__exit__()
        elif op == 'flush':
            out.flush_section()
    return out.get_buffer()


def render(lines):
    res = []
    for ln in lines:
        t = ln['text']
        if ln['col']:
            t = '\033[0;%dm%s\033[0m' % (COL[ln['lv']], t)
        res.append(ln.get('pre', '') + t)
    return '\n'.join(res)


def peers_for(rnd):
    P = []
    good = {'kex': ['sntrup761x25519-sha512@openssh.com', 'kex-strict-s-v00@openssh.com'], 'key': ['ssh-ed25519'], 'enc': ['aes256-gcm@openssh.com'],
            'mac': ['hmac-sha2-256-etm@openssh.com']}
    P.append(dict(good))
    P.append(dict(good, kex=['curve25519-sha256', 'kex-strict-s-v00@openssh.com']))
    P.append(dict(good, mac=['hmac-sha1'], enc=['aes128-ctr', '3des-cbc']))
    P.append(dict(good, kex=['diffie-hellman-group1-sha1', 'curve25519-sha256'], key=['ssh-dss', 'ssh-ed25519']))
    P.append(dict(good, enc=['chacha20-poly1305@openssh.com', 'aes128-cbc'], mac=['hmac-sha2-256-etm@openssh.com', 'hmac-md5'], kex=['curve25519-sha256']))
    P.append(dict(good, enc=['chacha20-poly1305@openssh.com', 'aes128-cbc', '3des-cbc', 'aes256-ctr'],
                  mac=['hmac-sha2-256-etm@openssh.com', 'hmac-sha2-512-etm@openssh.com', 'umac-128-etm@openssh.com']))
    P.append(dict(good, kex=['foo-kex@example.org', 'curve25519-sha256'], enc=['aes128-ctr', 'bar-cipher']))
    P.append(dict(good, kex=['curve25519-sha256', 'kex-strict-s-v00@openssh.com'], key=['rsa-sha2-512', 'ssh-ed25519'], hk={'rsa-sha2-512': (2048, '', 0)}))
    P.append(dict(good, kex=['curve25519-sha256', 'diffie-hellman-group-exchange-sha256'], dh={'diffie-hellman-group-exchange-sha256': (1024, False)}))
    # names whose table entry consists of failure notes only (no warning or information list)
    P.append(dict(good, kex=['curve25519-sha256', 'kex-strict-s-v00@openssh.com'], key=['ssh-ed25519', 'ssh-xmss@openssh.com'],
                  enc=['arcfour', 'aes256-gcm@openssh.com', 'arcfour256', '3des-ctr', 'none'], mac=['hmac-sha2-256-etm@openssh.com', 'none']))
    # several gss-* key exchanges of one family (one database entry covers them all): each is rated and recommended for removal, in the
    # advertised order, whatever the interpreter's hash seed
    T = ('toWM5Slw5Ew8Mqkay+al2g==', 'eipGX3TCiQSrx573bT1o1Q==', 'A/vxljAEU54gt9a48EiANQ==')
    P.append(dict(good, kex=['gss-group1-sha1-' + t for t in T] + ['gss-gex-sha1-' + t for t in T] + ['gss-group14-sha1-' + T[2], 'gss-group14-sha1-' + T[0], 'curve25519-sha256'],
                  hashseed=True))
    # a client whose KEXINIT names different algorithms per direction (the report lists one direction, in every format)
    P.append(dict(good, role='client', kex=['curve25519-sha256'], enc=['aes128-ctr', 'aes256-gcm@openssh.com'], mac=['hmac-sha2-256', 'umac-128@openssh.com'],
                  enc_c2s=['3des-cbc', 'aes128-ctr'], mac_c2s=['hmac-md5', 'hmac-sha2-256-etm@openssh.com']))
    P.append(dict(good, role='client', kex=['curve25519-sha256', 'kex-strict-c-v00@openssh.com'], enc=['chacha20-poly1305@openssh.com'], mac=['hmac-sha1'],
                  enc_c2s=['aes256-ctr'], mac_c2s=['hmac-sha2-512']))
    # a server whose RSA certificate is cut off after the certificate-type field: the probe of that type fails in every output
    # mode alike, so nothing is measured or rated for it
    from harness import wire as _w
    full = rating.hostkey_blob('rsa-sha2-512-cert-v01@openssh.com', (1024, 'ssh-rsa', 4096))
    cut = full.index(_w.string(b'host.example.org key'))
    P.append(dict(good, kex=['curve25519-sha256', 'kex-strict-s-v00@openssh.com'], key=['rsa-sha2-512-cert-v01@openssh.com', 'ssh-ed25519'],
                  raw_hostkeys={'rsa-sha2-512-cert-v01@openssh.com': full[:cut]}))
    return P


def mk(i, p):
    c = rating.mk_case(i, role=p.get('role', 'server'), kex=p['kex'], key=p['key'], enc=p['enc'], mac=p['mac'], hk=p.get('hk'), dh=p.get('dh'),
                       sw={'product': 'OpenSSH', 'c': [9, 6], 'p': ['none', 0]}, enc_c2s=p.get('enc_c2s'), mac_c2s=p.get('mac_c2s'))
    if p.get('raw_hostkeys'):
        c['raw_hostkeys'] = p['raw_hostkeys']
    return c


def findings_of_exp(exp, min_level='info'):
    rank = {'info': 0, 'warn': 1, 'fail': 2}
    F = set()
    for cat in ('kex', 'key', 'enc', 'mac'):
        for i, l in enumerate(exp['lines'][cat]):
            notes = [('warn', 'unknown algorithm')] if l['unknown'] else []
            notes += [('fail', t) for t in l['fail']] + [('warn', t) for t in l['warn']] + [('info', t) for t in l['info']]
            for lv, t in notes:
                if rank[lv] >= rank[min_level]:
                    F.add((cat, i, l['name'], lv, rating.canon(t)))
    return F


def findings_of_text(tx, exp):
    """Findings of a parsed text report, keyed like findings_of_exp (algorithms are matched to expected lines by name, in order)."""
    F = set()
    for cat in ('kex', 'key', 'enc', 'mac'):
        names = [l['name'] for l in exp['lines'][cat]]
        pos = 0
        for a in tx['algs'][cat]:
            # under -l warn/fail whole algorithms may be absent: find the next expected line with this name
            while pos < len(names) and names[pos] != a['name']:
                pos += 1
            idx = pos if pos < len(names) else -1
            for lv, t in a['notes']:
                F.add((cat, idx, a['name'], lv, rating.canon(t)))
            pos += 1
    return F


def run(tier):
    ck = common.Check('C15', tier)
    rnd = random.Random(ck.seed)
    runner.load_repo()
    maxcalls = 3 if tier == 'quick' else 4
    cfg = 'SPECIFICATION Spec\nCONSTANT MaxCalls = %d\n' % maxcalls + ''.join('INVARIANT %s\n' % i for i in LAWS) + 'INVARIANT Emit\n'
    res = tlc.run('SshOutput', cfg, workers=1, timeout=3000)
    ck.add_tlc(res)
    common.require(res.ok, 'SshOutput: the buffer model violates its own law %s:\n%s' % (res.violated, '\n'.join(res.trace[-30:])))
    emitted = [p for p in res.prints if isinstance(p, dict) and 'calls' in p]
    ck.log('TLC: %d (call sequence, options) cases, %d states; laws %s hold' % (len(emitted), res.distinct, ', '.join(LAWS)))
    for e in emitted:
        ck.evaluated()
        want = render(e['out'])
        try:
            got = replay_buffer(e)
        except Exception as ex:     # noqa
            ck.violation('buffer-raises %s' % type(ex).__name__, repr(ex), {'case': e})
            continue
        if got != want:
            ck.violation('buffer-output level=%s batch=%s colors=%s' % (e['opts']['level'], e['opts']['batch'], e['opts']['colors']),
                         'OutputBuffer gives %r, the model gives %r for calls %r' % (got, want, [(c['op'], c['lv'], c['text']) for c in e['calls']]), {'case': e})
        else:
            ck.cov['traces_validated_against_impl'] += 1
    cli_leg(ck, tier, rnd)
    modes_leg(ck)
    targets_leg(ck, tier, rnd)
    repeated_policy_leg(ck, rnd)
    seeds_leg(ck, tier)
    ck.cov['rule'] = ('TLC: every call sequence up to length %d over 12 buffer calls x 12 option sets, replayed into OutputBuffer; CLI: 8 peers covering every severity mix x '
                      '{-b} x {-v} x {-n} x -l {info,warn,fail} x {text,-j,-jj} with expected findings/status from TLC (SshRating); repeated runs and 8 hash seeds in fresh '
                      'interpreters. distinct = (peer, option set)' % maxcalls)
    return ck.finish()


def cli_leg(ck, tier, rnd):
    P = peers_for(rnd)
    cases = [mk(i + 1, p) for i, p in enumerate(P)]
    expected = rating.evaluate(ck, cases, workers=None)
    optsets = []
    for b, v, n, lvl, fmt in itertools.product((False, True), (False, True), (False, True), ('info', 'warn', 'fail'), ('text', 'j', 'jj')):
        optsets.append((b, v, n, lvl, fmt))
    scs, meta = [], []
    for c in cases:
        for (b, v, n, lvl, fmt) in optsets:
            args = (['-b'] if b else []) + (['-v'] if v else []) + (['-n'] if n else []) + ['-l', lvl] + ({'text': [], 'j': ['-j'], 'jj': ['-jj']}[fmt])
            sc = rating.scenario(c, 'colour', extra=args)
            scs.append(sc)
            meta.append((c, (b, v, n, lvl, fmt)))
            if (b, v, n, lvl, fmt) in ((False, False, True, 'info', 'text'), (False, False, False, 'info', 'j')):
                scs.append(sc)      # the same audit again: must be byte-identical
                meta.append((c, (b, v, n, lvl, fmt)))
    results = runner.run_many(scs)
    first = {}
    jdocs = {}
    colour_pairs = []
    for sc, (c, o), r in zip(scs, meta, results):
        b, v, n, lvl, fmt = o
        exp = expected[c['id']]
        ck.evaluated()
        if r.get('harness_error') or r.get('hang'):
            raise common.Machinery('CLI run failed: %r' % (r.get('harness_error') or 'hang'))
        ck.nontrivial((c['id'], o))
        tag = 'opts=%s%s%s-l%s-%s' % ('b' if b else '', 'v' if v else '', 'n' if n else '', lvl, fmt)
        replay = {'case': c, 'options': {'batch': b, 'verbose': v, 'nocolors': n, 'level': lvl, 'format': fmt}, 'argv': sc['argv'], 'exit': r['exit'],
                  'expected_status': exp['status'], 'stdout': r['stdout'][-3000:]}
        if r['exit'] != exp['status']:
            ck.violation('status-depends-on-options %s' % _generic(o), 'exit status %r under %s, the findings imply %r' % (r['exit'], tag, exp['status']), replay)
            continue
        key = (c['id'], o)
        if key in first:
            if first[key] != r['stdout']:
                ck.violation('not-repeatable', 'two runs of the same audit under %s differ' % tag, replay)
            continue
        first[key] = r['stdout']
        if fmt in ('j', 'jj'):
            out = r['stdout']
            try:
                doc = json.loads(out)
            except ValueError:
                what = 'empty' if out.strip() == '' else ('leading-text' if '{' in out and not out.lstrip().startswith('{') else 'unparsable')
                ck.violation('json-not-one-document cause=%s level=%s verbose=%s' % (what, lvl if what == 'empty' else 'any', v if what == 'leading-text' else 'any'),
                             'stdout under %s is not one JSON document (%s)' % (tag, what), replay)
                continue
            jdocs.setdefault((c['id'], b, v, n, lvl), {})[fmt] = doc
            F = findings_of_exp(exp)
            got = set()
            ja = report.json_algs(doc)
            for cat in ('kex', 'key', 'enc', 'mac'):
                for i, a in enumerate(ja[cat]):
                    for lv in ('fail', 'warn', 'info'):
                        for t in a['notes'].get(lv) or []:
                            got.add((cat, i, a['name'], lv, rating.canon(t)))
            known = {(cat, i) for cat in exp['lines'] for i, l in enumerate(exp['lines'][cat]) if not l['unknown']}
            gk = {f for f in got if (f[0], f[1]) in known}
            fk = {f for f in F if (f[0], f[1]) in known}
            if gk != fk:
                ck.violation('json-findings-differ', 'JSON findings differ from the rule under %s: extra %r missing %r' % (tag, sorted(gk - fk)[:3], sorted(fk - gk)[:3]), replay)
                continue
            # the recommendations are part of the findings: the JSON document names the ones the rule gives (the text report is held to the same set below)
            rd = rating.compare_recs(c, exp, js=doc)
            if rd:
                ck.violation('json-recommendations-differ %s' % rd[0][0].split(' kind=')[0], 'recommendations in the JSON document under %s: %s' % (tag, '; '.join(d for _, d in rd[:3])), replay)
                continue
        else:
            raw = r['stdout']
            if n and '\033[' in raw:
                ck.violation('colour-codes-with-n', 'colour codes in the output although -n was given', replay)
                continue
            if not n:
                plain_key = (c['id'], (b, v, True, lvl, fmt))
                colour_pairs.append((key, plain_key, replay))
            tx = rating.parse_view(r, 'verbose' if v else 'text', _filtered(exp, lvl) if v else exp)
            got = findings_of_text(tx, exp)
            want = findings_of_exp(exp, lvl)
            if got != want:
                extra, missing = sorted(got - want)[:3], sorted(want - got)[:3]
                kind = 'added-or-altered' if extra else 'dropped'
                ck.violation('text-findings %s level=%s' % (kind, lvl), 'findings under %s: extra %r, missing %r' % (tag, extra, missing), replay)
                continue
            if lvl == 'info' and not v:
                rd = rating.compare_recs(c, exp, text=tx)
                if rd:
                    ck.violation('text-recommendations-differ %s' % rd[0][0].split(' kind=')[0], 'recommendations in the report under %s: %s' % (tag, '; '.join(d for _, d in rd[:3])), replay)
                    continue
        ck.cov['traces_validated_against_impl'] += 1
    # colour only wraps: removing the colour codes from the coloured report gives the lines of the -n report
    for key, plain_key, replay in colour_pairs:
        # (as multisets of lines: the recommendation section is sorted on the rendered strings, so its order may differ)
        if key in first and plain_key in first and sorted(report.strip_ansi(first[key]).split('\n')) != sorted(first[plain_key].split('\n')):
            ck.violation('colour-changes-content', 'the coloured report without its colour codes has other lines than the -n report', replay)
    # -l only removes lines below the level: the warning- and failure-coloured lines of the -l info report are exactly those of the
    # -l warn report; its failure-coloured lines exactly those of the -l fail report (whole lines, whatever section they are in)
    def coloured(text, codes):
        import re as _re
        return sorted(l for l in text.split('\n') if any(('\033[0;%dm' % c) in l for c in codes))
    for (cid_, o), text in list(first.items()):
        b, v, n, lvl, fmt = o
        if fmt != 'text' or n or lvl != 'info':
            continue
        for lv2, codes in (('warn', (31, 33)), ('fail', (31,))):
            other = first.get((cid_, (b, v, n, lv2, fmt)))
            if other is None:
                continue
            a_, b_ = coloured(text, codes), coloured(other, codes)
            if a_ != b_:
                gone = [l for l in a_ if l not in b_][:2]
                new_ = [l for l in b_ if l not in a_][:2]
                ck.violation('level-changes-lines-at-or-above-it level=%s' % lv2, 'peer %d, options batch=%s verbose=%s: lines at or above %s differ between -l info and -l %s: gone %r, new %r'
                             % (cid_, b, v, lv2, lv2, gone, new_), {'case_id': cid_, 'info_report': text[-2500:], 'level_report': other[-2500:]})
            else:
                ck.cov['traces_validated_against_impl'] += 1
    for k, d in jdocs.items():
        if 'j' in d and 'jj' in d and d['j'] != d['jj']:
            ck.violation('json-compact-vs-indented', '-j and -jj parse to different values', {'key': k})
    ck.sample({'peer': {x: cases[2][x] for x in ('kex', 'key', 'enc', 'mac')}, 'expected_status': expected[cases[2]['id']]['status'],
               'findings_at_warn': sorted(findings_of_exp(expected[cases[2]['id']], 'warn'))[:6]})


def modes_leg(ck):
    """The other kinds of audit under every combination of the output options: SSH-1 peers (with and without failing entries) and
    policy audits (satisfied and violated).  Whatever is printed, the run ends with the status of the plain run, JSON output is one
    document, and nothing but the report is printed (no traceback)."""
    import struct as _struct        # noqa
    from checks import c08
    H = c08.healthy()
    pol_ok = ('name = "C15"\nversion = 1\nhost keys = ssh-ed25519\nkey exchanges = curve25519-sha256, kex-strict-s-v00@openssh.com\nciphers = aes256-gcm@openssh.com\n'
              'macs = hmac-sha2-256-etm@openssh.com\n')
    pol_bad = pol_ok.replace('aes256-gcm@openssh.com', 'aes256-ctr')
    subjects = []
    for tag, cm, am in (('ssh1-clean', 0x48, 0x0c), ('ssh1-failing-cipher', 0x2c, 0x0c), ('ssh1-failing-auth', 0x48, 0x0e), ('ssh1-none-cipher', 0x09, 0x4c)):
        cfg = peers.ServerCfg(banner=b'SSH-1.5-OldServer_1.2', ssh1={'cmask': cm, 'amask': am}, wrong_version_text=b'Protocol major versions differ.')
        subjects.append((tag, {'servers': {(rating.HOST, 22): cfg}}, ['-1', rating.HOST]))
    subjects.append(('policy-satisfied', {'servers': {(rating.HOST, 22): H['warn']}, 'files': {'policy.txt': pol_ok}}, ['--skip-rate-test', '-P', '{tmp}/policy.txt', rating.HOST]))
    subjects.append(('policy-violated', {'servers': {(rating.HOST, 22): H['warn']}, 'files': {'policy.txt': pol_bad}}, ['--skip-rate-test', '-P', '{tmp}/policy.txt', rating.HOST]))
    # policy files written by older releases (one directive per size; the loader prints a deprecation notice - not into the JSON document)
    legacy = 'hostkey_size_ssh-ed25519 = 256\n'
    subjects.append(('policy-legacy-satisfied', {'servers': {(rating.HOST, 22): H['warn']}, 'files': {'policy.txt': pol_ok + legacy}}, ['--skip-rate-test', '-P', '{tmp}/policy.txt', rating.HOST]))
    subjects.append(('policy-legacy-violated', {'servers': {(rating.HOST, 22): H['warn']}, 'files': {'policy.txt': pol_bad + legacy}}, ['--skip-rate-test', '-P', '{tmp}/policy.txt', rating.HOST]))
    # a standard audit whose connection-rate check runs (the server offers Diffie-Hellman key exchanges and accepts connections as fast as they
    # come): its note is part of the result - of the JSON document under every level, of the text report down to the level it is printed at
    subjects.append(('standard-rate-checked', {'servers': {(rating.HOST, 22): H['fail']}}, [rating.HOST]))
    optsets = list(itertools.product((False, True), (False, True), (False, True), ('info', 'warn', 'fail'), ('text', 'j', 'jj')))
    scs, meta = [], []
    for tag, world, tail in subjects:
        for (b, v, n, lvl, fmt) in optsets:
            args = (['-b'] if b else []) + (['-v'] if v else []) + (['-n'] if n else []) + ['-l', lvl] + ({'text': [], 'j': ['-j'], 'jj': ['-jj']}[fmt])
            scs.append(dict(world, argv=args + tail))
            meta.append((tag, (b, v, n, lvl, fmt)))
    results = runner.run_many(scs)
    ref = {}
    for (tag, o), r in zip(meta, results):
        if o == (False, False, True, 'info', 'text'):
            ref[tag] = r
    docs_info = {}
    for (tag, o), r in zip(meta, results):
        if o[3] == 'info' and o[4] in ('j', 'jj'):
            try:
                docs_info[(tag, o[0], o[1], o[2], o[4])] = json.loads(r.get('stdout') or '')
            except ValueError:
                pass
    for (tag, o), sc, r in zip(meta, scs, results):
        b, v, n, lvl, fmt = o
        ck.evaluated()
        if r.get('harness_error') or r.get('hang'):
            ck.violation('run-did-not-complete mode=%s' % tag.split('-')[0], '%s under %r did not complete' % (tag, o), {'argv': sc['argv']})
            continue
        base = ref[tag]
        replay = {'subject': tag, 'options': {'batch': b, 'verbose': v, 'nocolors': n, 'level': lvl, 'format': fmt}, 'argv': sc['argv'], 'exit': r['exit'],
                  'plain_run_exit': base['exit'], 'stdout': r['stdout'][-2500:]}
        if base['exit'] not in (0, 2, 3):
            raise common.Machinery('the plain %s run ends with status %r' % (tag, base['exit']))
        if 'Traceback (most recent call last)' in r['stdout'] or r.get('uncaught'):
            exc = [l for l in (r['stdout'] + (r.get('uncaught') or '')).split('\n') if l and not l.startswith(' ')][-1][:60]
            ck.violation('options-crash-the-audit mode=%s %s' % (tag.split('-')[0], _generic(o)), '%s under %r: the run prints a traceback (%s), status %r' % (tag, o, exc, r['exit']), replay)
            continue
        if r['exit'] != base['exit']:
            ck.violation('status-depends-on-options mode=%s %s' % (tag.split('-')[0], _generic(o)), '%s: exit status %r under %r, %r in the plain run' % (tag, r['exit'], o, base['exit']), replay)
            continue
        if fmt in ('j', 'jj'):
            try:
                doc = json.loads(r['stdout'])
            except ValueError:
                ck.violation('json-not-one-document mode=%s' % tag.split('-')[0], '%s under %r: stdout is not one JSON document' % (tag, o), replay)
                continue
            # the level selects which lines of the text report are printed; the JSON document is the whole result under every level
            if lvl != 'info' and (tag, b, v, n, fmt) in docs_info and doc != docs_info[(tag, b, v, n, fmt)]:
                d0 = docs_info[(tag, b, v, n, fmt)]
                keys = sorted(k for k in set(doc) | set(d0) if doc.get(k) != d0.get(k)) if isinstance(doc, dict) and isinstance(d0, dict) else ['(shape)']
                ck.violation('json-document-depends-on-level mode=%s at=%s' % (tag.split('-')[0], '+'.join(keys)[:60]),
                             '%s under %r: the JSON document differs from the one printed under -l info at %r' % (tag, o, keys), replay)
                continue
            if tag.startswith('policy') and doc.get('passed') != tag.endswith('-satisfied'):
                ck.violation('policy-verdict-depends-on-options %s' % _generic(o), '%s under %r: JSON says passed=%r' % (tag, o, doc.get('passed')), replay)
                continue
        elif tag.startswith('policy') and lvl == 'info':
            shown = 'Passed' in r['stdout'] and 'Failed' not in r['stdout']
            if shown != tag.endswith('-satisfied'):
                ck.violation('policy-verdict-depends-on-options %s' % _generic(o), '%s under %r: the result line shows %s' % (tag, o, 'Passed' if shown else 'not Passed'), replay)
                continue
        ck.cov['traces_validated_against_impl'] += 1
        ck.nontrivial(('modes', tag, o))


def targets_leg(ck, tier, rnd):
    """The same options on a target list (-T): with -j the whole of stdout stays one JSON array whose elements are the documents
    of the default-option run, whatever -l / -v / -b / -n are; in text mode each target's block shows that target's findings
    filtered to the level."""
    from checks import multi
    P = peers_for(rnd)
    picks = [P[2], P[0], P[5]]
    cases = [rating.mk_case(900 + i, kex=p['kex'], key=p['key'], enc=p['enc'], mac=p['mac'], hk=p.get('hk'), dh=p.get('dh'),
                            sw={'product': 'OpenSSH', 'c': [9, 6], 'p': ['none', 0]}) for i, p in enumerate(picks)]
    tg = [('server', rating.server_cfg(c)) for c in cases]
    optsets = [[]] + [['-l', lvl] for lvl in ('warn', 'fail')] + [['-v'], ['-b'], ['-n'], ['-v', '-l', 'fail'], ['-b', '-l', 'warn']]
    scs, meta = [], []
    for threads in (1, 2):
        for fmt in (['-j'], ['-jj']) if tier == 'thorough' else (['-j'],):
            for o in optsets:
                sc, labels = multi.scenario(tg, threads, (0, 1, 2) if threads == 1 else None, json_out=True, extra=o)
                if fmt == ['-jj']:
                    sc['argv'] = ['-jj' if a == '-j' else a for a in sc['argv']]
                scs.append(sc)
                meta.append((threads, tuple(o), labels))
    # the same target on two lines: still one document per line
    for fmt in ('-j', '-jj'):
        sc, labels = multi.scenario(tg, 1, (0, 1, 2), json_out=True)
        sc['argv'] = [fmt if a == '-j' else a for a in sc['argv']]
        first = sc['files']['targets.txt'].split('\n')[0]
        sc['files']['targets.txt'] = sc['files']['targets.txt'] + first + '\n'
        sc.pop('setup', None)
        sc['observe'] = False
        scs.append(sc)
        meta.append((1, ('repeated-line', fmt), labels + [labels[0]]))
    # the same server before and after a different one (same algorithms, other findings): its two documents / blocks are identical
    A = rating.mk_case(950, kex=['curve25519-sha256', 'kex-strict-s-v00@openssh.com'], key=['ssh-ed25519'], enc=['chacha20-poly1305@openssh.com', 'aes256-ctr'],
                       mac=['hmac-sha2-256-etm@openssh.com'], sw={'product': 'OpenSSH', 'c': [9, 6], 'p': ['none', 0]})
    B = rating.mk_case(951, kex=['curve25519-sha256'], key=['ssh-ed25519'], enc=['chacha20-poly1305@openssh.com', 'aes256-ctr'],
                       mac=['hmac-sha2-256-etm@openssh.com'], sw={'product': 'OpenSSH', 'c': [9, 6], 'p': ['none', 0]})
    for threads in (1, 2):
        for fmt in ('-j', '-n'):
            sc, labels = multi.scenario([('server', rating.server_cfg(A)), ('server', rating.server_cfg(B))], threads, (0, 1) if threads == 1 else None, json_out=(fmt == '-j'))
            first = sc['files']['targets.txt'].split('\n')[0]
            sc['files']['targets.txt'] = sc['files']['targets.txt'] + first + '\n'
            sc.pop('setup', None)
            sc['observe'] = False
            scs.append(sc)
            meta.append((threads, ('same-server-twice', fmt), labels + [labels[0]]))
    results = runner.run_many(scs)
    ref = {}
    for sc, (threads, o, labels), r in zip(scs, meta, results):
        ck.evaluated()
        if r.get('harness_error') or r.get('hang'):
            raise common.Machinery('target-list run failed: %r' % (r.get('harness_error') or 'hang'))
        tag = ' '.join(o) or 'default'
        replay = {'argv': sc['argv'], 'exit': r['exit'], 'stdout': r['stdout'][-2500:]}
        if o and o[0] == 'same-server-twice':
            if o[1] == '-j':
                try:
                    els = [e for e in json.loads(r['stdout']) if isinstance(e, dict) and e.get('target') == labels[0]]
                except ValueError:
                    els = []
            else:
                els = [multi.strip_target_line(b).strip('\n').rstrip('-').strip('\n') for b in multi.split_text(r['stdout']) if multi.label_of_block(b, labels[:2]) == labels[0]]
            if len(els) != 2:
                ck.violation('same-server-twice count view=%s' % ('json' if o[1] == '-j' else 'text'), 'a server listed before and after another one: %d reports for it' % len(els), replay)
            elif els[0] != els[1]:
                ck.violation('same-server-twice differs view=%s' % ('json' if o[1] == '-j' else 'text'),
                             'a server listed before and after another one (%d thread(s)): its two reports differ' % threads, replay)
            else:
                ck.cov['traces_validated_against_impl'] += 1
                ck.nontrivial(('same-server-twice', threads, o[1]))
            continue
        try:
            doc = json.loads(r['stdout'])
            assert isinstance(doc, list)
        except (ValueError, AssertionError):
            cause = 'empty-elements' if r['stdout'].replace(' ', '').replace('\n', '') in ('[,,]', '[,]', '[]') else 'unparsable'
            ck.violation('target-list-json-broken cause=%s opts=%s' % (cause, _optkind(o)), 'stdout of -T -j %s is not a JSON array of documents: %r' % (tag, r['stdout'][:120]), replay)
            continue
        if o and o[0] == 'repeated-line':
            if len(doc) != len(labels) or not all(isinstance(e, dict) for e in doc):
                ck.violation('target-list-json-elements repeated-line', 'a target listed twice with %s: %d documents for %d lines' % (o[1], len(doc), len(labels)), replay)
            else:
                ck.cov['traces_validated_against_impl'] += 1
            continue
        byt = {}
        for el in doc:
            if isinstance(el, dict):
                byt['%s:%s' % (el.get('target', '').rsplit(':', 1)[0] if 'target' in el else el.get('host'), el.get('target', ':22').rsplit(':', 1)[1] if 'target' in el else el.get('port'))] = el
        if o == ():
            ref[threads] = (r['exit'], byt)
            if len(byt) != len(labels):
                ck.violation('target-list-json-elements', 'the default -T -j run yields %d documents for %d targets' % (len(byt), len(labels)), replay)
            else:
                ck.cov['traces_validated_against_impl'] += 1
            continue
        if threads not in ref:
            continue
        if r['exit'] != ref[threads][0]:
            ck.violation('target-list-status-depends-on-options opts=%s' % _optkind(o), 'exit status %r under %s, %r by default' % (r['exit'], tag, ref[threads][0]), replay)
        elif byt != ref[threads][1]:
            ck.violation('target-list-json-depends-on-options opts=%s' % _optkind(o), 'the JSON documents of -T -j %s differ from those of the default run' % tag, replay)
        else:
            ck.cov['traces_validated_against_impl'] += 1
            ck.nontrivial(('targets', threads, o))


def repeated_policy_leg(ck, rnd):
    """The same server listed several times in one policy audit (-T -P): repeated audits of the same peer are identical - each
    element of the JSON array (and each text block) is the same, in every output format."""
    from checks import multi, c06
    P = peers_for(rnd)
    c = mk(990, P[2])
    pol = {'banner': '', 'comp': [], 'opt': [], 'has': ['key', 'kex', 'enc', 'mac'], 'subset': False, 'larger': False, 'dhs': {}, 'hks': {},
           'key': list(c['key']), 'kex': list(c['kex']), 'enc': list(c['enc'])[:1], 'mac': ['hmac-sha2-512']}
    tg = [('server', rating.server_cfg(c))] * 3
    scs = []
    for fmt in ('-j', '-jj', '-n', '-b'):
        sc, labels = multi.scenario(tg, 1, (0, 1, 2), json_out=True, extra=['-P', '{tmp}/policy.txt'])
        sc['argv'] = [fmt if a == '-j' else a for a in sc['argv']] + ([] if fmt.startswith('-j') else [])
        if fmt == '-b':
            sc['argv'] = ['-n'] + sc['argv']
        sc['files']['policy.txt'] = c06.policy_text(pol)
        scs.append((sc, fmt))
    for (sc, fmt), r in zip(scs, runner.run_many([x[0] for x in scs])):
        ck.evaluated()
        if r.get('harness_error') or r.get('hang'):
            raise common.Machinery('repeated-target policy run failed: %r' % (r.get('harness_error') or 'hang'))
        replay = {'argv': sc['argv'], 'exit': r['exit'], 'stdout': r['stdout'][-2500:]}
        if fmt.startswith('-j'):
            try:
                doc = json.loads(r['stdout'])
                els = [{k: v for k, v in el.items() if k not in ('host', 'port', 'target')} for el in doc]
            except (ValueError, AttributeError):
                ck.violation('repeated-target-json-unparsable', 'stdout of -T %s -P is not a JSON array of documents' % fmt, replay)
                continue
        else:
            import re
            els = [re.sub(r'^Host: .*$', 'Host: X', multi.strip_target_line(b), flags=re.M).strip() for b in multi.split_text(r['stdout'])]
        if len(els) != 3 or any(e != els[0] for e in els[1:]):
            ck.violation('repeated-audits-differ format=%s' % fmt.lstrip('-'), 'the same server listed three times in a policy audit: the %d results are not identical' % len(els), replay)
        elif r['exit'] != 3:
            ck.violation('repeated-audits-status', 'a policy audit of a violating server exits %r' % r['exit'], replay)
        else:
            ck.cov['traces_validated_against_impl'] += 1
            ck.nontrivial(('repeated-policy', fmt))


def _optkind(o):
    return '+'.join(x.lstrip('-') for x in o if x.startswith('-')) or 'default'


def _filtered(exp, lvl):
    """Expected lines restricted to the notes shown at level lvl (for regrouping verbose output)."""
    rank = {'info': 0, 'warn': 1, 'fail': 2}
    out = {'lines': {}}
    for cat, ls in exp['lines'].items():
        nl = []
        for l in ls:
            d = dict(l)
            d['fail'] = l['fail'] if rank['fail'] >= rank[lvl] else []
            d['warn'] = l['warn'] if rank['warn'] >= rank[lvl] else []
            d['info'] = l['info'] if rank['info'] >= rank[lvl] else []
            d['unknown'] = l['unknown'] and rank['warn'] >= rank[lvl]
            if d['fail'] or d['warn'] or d['info'] or d['unknown'] or (lvl == 'info'):
                nl.append(d)
        out['lines'][cat] = nl
    return out


def _generic(o):
    b, v, n, lvl, fmt = o
    return 'format=%s level=%s' % ('json' if fmt != 'text' else 'text', lvl)


BOOT = r'''
import sys, json, pickle
sys.path.insert(0, %(verif)r)
from harness import runner
from checks import rating, c15
import random
P = c15.peers_for(random.Random(0))
out = {}
for i, p in enumerate(P[:7] + [q for q in P[7:] if q.get('hashseed')]):
    c = rating.mk_case(i + 1, kex=p['kex'], key=p['key'], enc=p['enc'], mac=p['mac'], hk=p.get('hk'), dh=p.get('dh'), sw={'product': 'OpenSSH', 'c': [9, 6], 'p': ['none', 0]})
    for view in ('text', 'json'):
        r = runner.run_one(rating.scenario(c, view))
        out['%%d/%%s' %% (i, view)] = [r['exit'], r['stdout']]
sys.stdout.write(json.dumps(out))
'''


def seeds_leg(ck, tier):
    """The same audits in fresh interpreters under different hash seeds: byte-identical."""
    outs = {}
    seeds = [0, 1, 2, 3, 7, 11, 12345, 4294967295] if tier == 'thorough' else [0, 1, 2, 3, 7, 11, 12345, 4294967295]
    procs = []
    for s in seeds:
        env = dict(os.environ, PYTHONHASHSEED=str(s), PYTHONDONTWRITEBYTECODE='1')
        procs.append((s, subprocess.Popen([sys.executable, '-c', BOOT % {'verif': common.ROOT}], env=env, cwd=common.ROOT, stdout=subprocess.PIPE, stderr=subprocess.PIPE)))
    for s, p in procs:
        o, e = p.communicate(timeout=600)
        if p.returncode != 0:
            raise common.Machinery('hash-seed run failed (seed %d): %s' % (s, e.decode()[-500:]))
        outs[s] = json.loads(o.decode())
    ref = outs[seeds[0]]
    for s in seeds[1:]:
        ck.evaluated()
        diff = [k for k in ref if outs[s].get(k) != ref[k]]
        if diff:
            ck.violation('output-depends-on-hash-seed', 'audits %r differ between PYTHONHASHSEED=%d and %d' % (diff[:3], seeds[0], s),
                         {'seed_a': seeds[0], 'seed_b': s, 'a': ref[diff[0]][1][-1500:], 'b': outs[s][diff[0]][1][-1500:]})
        else:
            ck.cov['traces_validated_against_impl'] += len(ref)
            ck.nontrivial(('seed', s))
    ck.notes.append('%d hash seeds x %d audits in fresh interpreters: byte-identical' % (len(seeds), len(ref)))
