"""SSH-1 leg of C01: all cipher / authentication bit masks (spec/SshV1.tla)."""
import json

from harness import common, tlc, runner, peers, report
from checks import rating


def run_c01(ck, tier, rnd):
    res = tlc.run('SshV1', 'SPECIFICATION Spec\nINVARIANT OneNamePerBit\nINVARIANT NoDuplicates\nINVARIANT Emit\n', workers=1)
    ck.add_tlc(res)
    common.require(res.ok, 'SshV1: %s violated' % res.violated)
    exp = {(p['cm'], p['am']): p for p in res.prints if isinstance(p, dict) and 'cm' in p}
    common.require(len(exp) == 128 * 128, 'SshV1 emitted %d mask pairs' % len(exp))
    pairs = [(1 << i, 1 << j) for i in range(7) for j in range(1, 7)] + [(0, 0x1c), (0x48, 0), (0, 0), (127, 126), (127, 127), (0x48, 1)]
    allp = sorted(exp)
    pairs += rnd.sample(allp, 500 if tier == 'quick' else len(allp))
    pairs = sorted(set(pairs))
    scs = []
    for cm, am in pairs:
        cfg = peers.ServerCfg(banner=b'SSH-1.5-OpenSSH_1.2.3', ssh1={'cmask': cm, 'amask': am})
        for js in (False, True):
            scs.append({'argv': (['-j'] if js else ['-n']) + ['-1', rating.HOST], 'servers': {(rating.HOST, 22): cfg}})
    # public-key messages of every length modulo 8 (the padding of an SSH-1 packet depends on it; a length that is a multiple of 8 gets
    # eight bytes of padding): the host key modulus is 1024..1080 bits long
    from harness.peers import _rand_int_bits
    extra_pairs = []
    for k in range(8):
        hb = 1024 + 8 * k
        cfg = peers.ServerCfg(banner=b'SSH-1.5-OpenSSH_1.2.3', ssh1={'cmask': 0x48, 'amask': 0x0c, 'hbits': hb, 'hn': _rand_int_bits(hb, ('s1h', hb))})
        for js in (False, True):
            scs.append({'argv': (['-j'] if js else ['-n']) + ['-1', rating.HOST], 'servers': {(rating.HOST, 22): cfg}})
        extra_pairs.append((0x48, 0x0c))
    pairs = pairs + extra_pairs
    # the SSH-2 -> SSH-1 fallback path
    cfg = peers.ServerCfg(banner=b'SSH-1.5-OpenSSH_1.2.3', ssh1={'cmask': 0x48, 'amask': 0x1c}, wrong_version_text=b'Protocol major versions differ.')
    scs.append({'argv': ['-n', rating.HOST], 'servers': {(rating.HOST, 22): cfg}})
    pairs_fb = pairs + [(0x48, 0x1c)]
    results = runner.run_many(scs)
    k = 0
    for (cm, am) in pairs_fb:
        e = exp[(cm, am)]
        for js in ((False, True) if k < 2 * len(pairs) else (False,)):
            r, sc = results[k], scs[k]
            k += 1
            ck.evaluated()
            if r.get('harness_error') or r.get('hang'):
                raise common.Machinery('SSH-1 run failed: %r' % (r.get('harness_error') or 'hang'))
            ck.nontrivial(('ssh1', cm, am, js))
            replay = {'cmask': cm, 'amask': am, 'argv': sc['argv'], 'expected_enc': e['enc'], 'expected_aut': e['aut'], 'exit': r['exit'], 'stdout': r['stdout'][-2000:]}
            kind = 'empty-mask' if (not e['enc'] or not e['aut']) else 'plain'
            if r['exit'] not in (0, 2, 3):
                exc, loc = rating.crash_signature(r)
                ck.violation('ssh1 no-report exit=%s uncaught=%s at=%s masks=%s' % (r['exit'], exc, loc, kind),
                             'SSH-1 audit (cipher mask %#x, auth mask %#x) ended with status %s (%s in %s)' % (cm, am, r['exit'], exc, loc), replay)
                continue
            if js:
                try:
                    doc = json.loads(r['stdout'])
                except ValueError:
                    ck.violation('ssh1 json-unparsable', 'SSH-1 JSON output does not parse', replay)
                    continue
                if doc.get('enc') != e['enc'] or doc.get('aut') != e['aut']:
                    ck.violation('ssh1 names view=json', 'JSON lists enc=%r aut=%r, the masks say enc=%r aut=%r' % (doc.get('enc'), doc.get('aut'), e['enc'], e['aut']), replay)
                    continue
                if doc.get('key') != ['ssh-rsa1']:
                    ck.violation('ssh1 key view=json', 'JSON key list %r' % (doc.get('key'),), replay)
                    continue
            else:
                tx = report.parse_text(r['stdout'])
                enc = [a['name'] for a in tx['algs']['enc']]
                aut = [a['name'] for a in tx['algs']['aut']]
                if enc != e['enc'] or aut != e['aut']:
                    ck.violation('ssh1 names view=text', 'text lists enc=%r aut=%r, the masks say enc=%r aut=%r' % (enc, aut, e['enc'], e['aut']), replay)
                    continue
            ck.cov['traces_validated_against_impl'] += 1
    ck.notes.append('SSH-1: %d mask pairs (all single bits, empty masks, %s) in text and JSON, plus the SSH-2 -> SSH-1 fallback' % (len(pairs), 'all 16384' if tier == 'thorough' else '500 sampled'))
