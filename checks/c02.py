"""C02 - exit status reflects the worst finding; incomplete audits never look clean.

 * SshRating: status is a fold over the rendered lines (Fold); invariants ExitRule, StatusDomain and the
   action property StatusMonotone are checked by TLC on the exhaustive severity spaces (Mode "mcmix": every
   combination of {good, warn, fail, unknown} across the four categories; Mode "mclist": every ordering of
   severities within one category).
 * Replay: every emitted case through the CLI under {plain, -b, -v, -l warn, -l fail, -j}: the exit status
   must equal the spec's status whatever the option.
 * Trace validation: the `rated` events of all those runs go through TraceRating.tla, which re-runs the fold
   event by event and evaluates ExitRule / StatusMonotone on every state.
 * Incomplete audits (SshAudit) and policy audits (SshPolicy) are checked from their own machines: see
   c09 / c06, imported here when present.
"""
import json
import os
import random

from harness import common, runner, report, peers
from checks import rating

OPTS = {'plain': ('text', []), 'batch': ('batch', []), 'verbose': ('verbose', []), 'lwarn': ('text', ['-l', 'warn']),
        'lfail': ('text', ['-l', 'fail']), 'json': ('json', [])}


def targets_leg(ck, tier):
    """A target list (-T): the status of the run is 3 if any target's report contains a failure, 2 if none does but one contains a
    warning, 0 only if none contains either - in whatever order the targets are listed and finish."""
    import itertools
    from checks import multi, c08
    H = c08.healthy()
    rank = {'good': 0, 'warn': 2, 'fail': 3}
    lists = [l for n in (2, 3) for l in itertools.product(sorted(H), repeat=n)]
    scs, meta = [], []
    for lst in lists:
        tg = [('server', H[n]) for n in lst]
        for threads in (1, 2):
            orders = [tuple(range(len(lst)))] if threads == 1 else [None, tuple(reversed(range(len(lst))))][:(2 if len(lst) == 2 else 1)]
            for order in orders:
                if order is not None and threads > 1 and order not in multi.feasible_orders(len(lst), threads):
                    continue
                sc, labels = multi.scenario(tg, threads, order, json_out=False)
                scs.append(sc)
                meta.append((lst, threads, order))
    # a target whose handshake the packet reader abandons (mis-sized first packet): no algorithm lists were obtained from it, so the
    # run as a whole never looks like a completed audit - its status is the connection-error status, whatever the other targets are
    bad = c08.failing()['bad-block-size']
    bscs = []
    for lst in (('bad',), ('bad', 'good'), ('good', 'bad'), ('warn', 'bad'), ('bad', 'fail')):
        sc, labels = multi.scenario([bad if n == 'bad' else ('server', H[n]) for n in lst], 1, None, json_out=False)
        bscs.append((lst, sc))
    for (lst, sc), r in zip(bscs, runner.run_many([x[1] for x in bscs])):
        ck.evaluated()
        if r.get('harness_error') or r.get('hang'):
            raise common.Machinery('target-list run failed: %r' % (r.get('harness_error') or 'hang'))
        if r['exit'] in (0, 2, 3):
            ck.violation('target-list-incomplete-audit-looks-complete got=%s' % r['exit'],
                         'targets %r, one of which never delivered a readable KEXINIT: the run exits %s' % (lst, r['exit']),
                         {'targets': lst, 'argv': sc['argv'], 'exit': r['exit'], 'stdout': r['stdout'][-1500:]})
        else:
            ck.cov['traces_validated_against_impl'] += 1
            ck.nontrivial(('targets-incomplete', lst))
    for (lst, threads, order), sc, r in zip(meta, scs, runner.run_many(scs)):
        ck.evaluated()
        if r.get('harness_error') or r.get('hang'):
            raise common.Machinery('target-list run failed: %r' % (r.get('harness_error') or 'hang'))
        want = max(rank[n] for n in lst)
        out = report.strip_ansi(r['stdout'])
        shown = 3 if '[fail]' in out else (2 if '[warn]' in out else 0)
        replay = {'targets': lst, 'threads': threads, 'finish_order': order, 'argv': sc['argv'], 'exit': r['exit'], 'stdout': r['stdout'][-1500:]}
        if shown != want:
            raise common.Machinery('archetype severities are not what the leg assumes: %r shows %r' % (lst, shown))
        if r['exit'] != want:
            ck.violation('target-list-status expected=%s got=%s' % (want, r['exit']),
                         'targets %r (%d thread(s), finish order %r): exit status %s, the worst finding among the reports implies %s' % (lst, threads, order, r['exit'], want), replay)
        else:
            ck.cov['traces_validated_against_impl'] += 1
            ck.nontrivial(('targets', lst, threads, order))


def directions_leg(ck):
    """The two directions of a KEXINIT name different lists (RFC 4253 7.1) whose worst findings differ: the status is the worst finding
    of the lists the report shows (the server-to-client ones, for servers and clients alike), in text and in JSON."""
    shapes = [dict(enc=['aes256-ctr'], enc_c2s=['aes256-ctr', '3des-cbc'], mac=['hmac-sha2-256'], mac_c2s=['hmac-sha2-256']),
              dict(enc=['aes256-ctr', '3des-cbc'], enc_c2s=['aes256-ctr'], mac=['hmac-sha2-256'], mac_c2s=['hmac-sha2-256']),
              dict(enc=['aes256-ctr'], enc_c2s=['aes256-ctr'], mac=['hmac-sha2-256'], mac_c2s=['hmac-md5', 'hmac-sha2-256']),
              dict(enc=['aes256-ctr'], enc_c2s=['aes256-ctr'], mac=['hmac-md5'], mac_c2s=['hmac-sha2-256-etm@openssh.com']),
              dict(enc=['aes256-gcm@openssh.com'], enc_c2s=['arcfour'], mac=['hmac-sha2-256-etm@openssh.com'], mac_c2s=['hmac-sha1'])]
    cases = []
    for i, sh in enumerate(shapes):
        for role in ('server', 'client'):
            cases.append(rating.mk_case(7000 + 2 * i + (role == 'client'), role=role, kex=['curve25519-sha256', 'kex-strict-s-v00@openssh.com', 'kex-strict-c-v00@openssh.com'],
                                        key=['ssh-ed25519'], **sh))
    exp = rating.evaluate(ck, cases)
    scs, meta = [], []
    for c in cases:
        for o in ('plain', 'json', 'lwarn'):
            view, extra = OPTS[o]
            scs.append(rating.scenario(c, view, extra=extra))
            meta.append((c, o))
    for (c, o), sc, r in zip(meta, scs, runner.run_many(scs)):
        ck.evaluated()
        if r.get('harness_error') or r.get('hang'):
            raise common.Machinery('run failed: %r' % (r.get('harness_error') or 'hang'))
        want = exp[c['id']]['status']
        replay = {'case': c, 'option': o, 'argv': sc['argv'], 'expected_status': want, 'exit': r['exit'], 'stdout': r['stdout'][-2500:]}
        if r['exit'] != want:
            ck.violation('status-follows-the-other-direction role=%s option=%s' % (c['role'], o), '%s audit, lists differ per direction: exit status %s, the lists the report shows imply %s'
                         % (c['role'], r['exit'], want), replay)
            continue
        if o == 'json':
            doc = json.loads(r['stdout'])
            lv = {l for cat in ('kex', 'key', 'enc', 'mac') for a in doc.get(cat, []) for l in ('fail', 'warn') if (a.get('notes') or {}).get(l)}
            worst = 3 if 'fail' in lv else (2 if 'warn' in lv else 0)
            if worst != r['exit']:
                ck.violation('status-vs-json-notes role=%s' % c['role'], 'exit %s but the notes of the JSON report imply %s' % (r['exit'], worst), replay)
                continue
        else:
            # ... and whatever the report shows for either direction, the status is the worst tag it shows (a finding printed is a finding counted)
            out = report.strip_ansi(r['stdout'])
            lv = {t for t in ('fail', 'warn') if ('[%s]' % t) in out}
            worst = 3 if 'fail' in lv else (2 if 'warn' in lv else 0)
            if worst != r['exit']:
                ck.violation('status-vs-tags scenario=directions role=%s' % c['role'], 'exit %s but the tagged findings the report shows imply %s' % (r['exit'], worst), replay)
                continue
        ck.cov['traces_validated_against_impl'] += 1
        ck.nontrivial(('directions', c['id'], o))


def json_targets_leg(ck):
    """-T with -j: the status of the run is the worst finding in the JSON documents of its targets (the notes each target's entry
    carries are the ones its status was computed from)."""
    from checks import multi, c08
    H = c08.healthy()
    hk = {'rsa-sha2-512': peers.rsa_blob(1024), 'ssh-ed25519': peers.ed25519_blob()}
    extra = {
        # findings that exist only as run-time annotations of the worker's table: a Terrapin warning, a small host key
        'terrapin-only': peers.ServerCfg(banner=b'SSH-2.0-OpenSSH_9.9', kexinit={'kex': ['sntrup761x25519-sha512@openssh.com'], 'key': ['ssh-ed25519'],
                                                                                  'enc': ['chacha20-poly1305@openssh.com'], 'mac': ['hmac-sha2-512-etm@openssh.com'], 'comp': ['none']},
                                         hostkeys={'ssh-ed25519': peers.ed25519_blob()}),
        'smallkey-only': peers.ServerCfg(banner=b'SSH-2.0-OpenSSH_9.9', kexinit={'kex': ['curve25519-sha256', 'kex-strict-s-v00@openssh.com'], 'key': ['rsa-sha2-512', 'ssh-ed25519'],
                                                                                  'enc': ['aes256-gcm@openssh.com'], 'mac': ['hmac-sha2-512-etm@openssh.com'], 'comp': ['none']}, hostkeys=hk)}
    arch = dict(H, **extra)
    lists = [('terrapin-only',), ('good', 'terrapin-only'), ('smallkey-only', 'good'), ('good', 'good'), ('warn', 'smallkey-only'), ('terrapin-only', 'fail'), ('good', 'warn', 'good')]
    scs, meta = [], []
    for lst in lists:
        for threads in (1, len(lst)):
            sc, labels = multi.scenario([('server', arch[n]) for n in lst], threads, None, json_out=True)
            scs.append(sc)
            meta.append((lst, threads))
    for (lst, threads), sc, r in zip(meta, scs, runner.run_many(scs)):
        ck.evaluated()
        if r.get('harness_error') or r.get('hang'):
            raise common.Machinery('target-list run failed: %r' % (r.get('harness_error') or 'hang'))
        replay = {'targets': lst, 'threads': threads, 'argv': sc['argv'], 'exit': r['exit'], 'stdout': r['stdout'][-3000:]}
        try:
            doc = json.loads(r['stdout'])
        except ValueError:
            ck.violation('target-list-json-unparsable', 'stdout of a -T -j run over healthy targets is not JSON', replay)
            continue
        lv = {l for el in doc if isinstance(el, dict) for cat in ('kex', 'key', 'enc', 'mac') for a in el.get(cat, []) for l in ('fail', 'warn') if (a.get('notes') or {}).get(l)}
        worst = 3 if 'fail' in lv else (2 if 'warn' in lv else 0)
        if worst != r['exit']:
            ck.violation('target-list-status-vs-json-notes', 'targets %r, %d thread(s): exit status %s, the notes in the JSON documents imply %s' % (lst, threads, r['exit'], worst), replay)
        else:
            ck.cov['traces_validated_against_impl'] += 1
            ck.nontrivial(('json-targets', lst, threads))


def unreachable_targets_leg(ck):
    """The incomplete-audit clause over a target list: a listed target that cannot be reached (refused, unknown name, no answer to the
    connection attempt) is an audit that could not be made - the run ends with the connection-error status whatever the other targets
    are rated, in text and with -j alike (what stdout looks like in that case is C08's matter, not judged here)."""
    from checks import multi, c08
    H = c08.healthy()
    lists = [(('refused',),), (('server', H['good']), ('refused',)), (('refused',), ('server', H['fail'])), (('unresolvable',), ('server', H['warn'])),
             (('server', H['good']), ('timeout',)), (('refused',), ('unresolvable',)), (('server', H['warn']), ('refused',), ('server', H['good']))]
    scs, meta = [], []
    for lst in lists:
        for threads in (1, len(lst)):
            for js in (False, True):
                sc, labels = multi.scenario(list(lst), threads, None, json_out=js)
                scs.append(sc)
                meta.append(([t[0] if t[0] != 'server' else 'healthy' for t in lst], threads, js))
    for (lst, threads, js), sc, r in zip(meta, scs, runner.run_many(scs)):
        ck.evaluated()
        if r.get('harness_error') or r.get('hang'):
            raise common.Machinery('target-list run failed: %r' % (r.get('harness_error') or 'hang'))
        replay = {'targets': lst, 'threads': threads, 'json': js, 'argv': sc['argv'], 'exit': r['exit'], 'stdout': r['stdout'][-2000:]}
        if r['exit'] != 1:
            ck.violation('unreachable-target-in-a-list-not-a-connection-error view=%s' % ('json' if js else 'text'),
                         'targets %r, %d thread(s), %s: exit status %s; a listed target could not be reached, the run is a connection error (1)' % (lst, threads, '-j' if js else 'text', r['exit']), replay)
        else:
            ck.cov['traces_validated_against_impl'] += 1
            ck.nontrivial(('unreachable-targets', tuple(lst), threads, js))


def other_sections_leg(ck):
    """What else ends in the report besides the SSH-2 algorithm sections: the connection-rate check's note (the check left on, a server
    that accepts connections quickly) and the sections of an SSH-1 report.  The status is still the worst tagged finding shown:
    a note is not a finding that could lower it, and a failure among the SSH-1 authentication types counts like one among the ciphers."""
    shapes = [('fail', dict(kex=['diffie-hellman-group14-sha256', 'curve25519-sha256', 'kex-strict-s-v00@openssh.com'], enc=['aes256-ctr', '3des-cbc'], mac=['hmac-sha2-256'])),
              ('warn', dict(kex=['diffie-hellman-group16-sha512', 'kex-strict-s-v00@openssh.com'], enc=['aes256-ctr'], mac=['hmac-sha2-256'])),
              ('fail', dict(kex=['diffie-hellman-group1-sha1', 'kex-strict-s-v00@openssh.com'], enc=['aes256-gcm@openssh.com'], mac=['hmac-sha2-256-etm@openssh.com']))]
    scs, meta = [], []
    for k, (worst, sh) in enumerate(shapes):
        c = rating.mk_case(7100 + k, key=['ssh-ed25519'], **sh)
        for view in ('text', 'json'):
            sc = rating.scenario(c, view)
            sc['argv'] = [a for a in sc['argv'] if a != '--skip-rate-test']
            sc['rtt'] = 0.0002
            scs.append(sc)
            meta.append(('rate-note/%s' % worst, view))
    for cm, am in ((0x48, 0x0c), (0x48, 0x0e), (0x48, 0x4c), (0x08, 0x4e), (0x2c, 0x0c), (0x09, 0x0c)):
        cfg = peers.ServerCfg(banner=b'SSH-1.5-OpenSSH_1.2.3', ssh1={'cmask': cm, 'amask': am}, wrong_version_text=b'Protocol major versions differ.')
        for argv in (['-n', '-1', rating.HOST], ['-n', rating.HOST], ['-n', '-b', '-v', '-1', rating.HOST]):
            scs.append({'argv': argv, 'servers': {(rating.HOST, 22): cfg}})
            meta.append(('ssh1/cm=%#x/am=%#x' % (cm, am), 'text'))
    for (what, view), sc, r in zip(meta, scs, runner.run_many(scs)):
        ck.evaluated()
        if r.get('harness_error') or r.get('hang'):
            raise common.Machinery('run failed: %r' % (r.get('harness_error') or 'hang'))
        replay = {'scenario': what, 'view': view, 'argv': sc['argv'], 'exit': r['exit'], 'stdout': r['stdout'][-2500:]}
        if r['exit'] not in (0, 2, 3):
            ck.violation('no-report exit=%s scenario=%s' % (r['exit'], what.split('/')[0]), 'status %s' % r['exit'], replay)
            continue
        if view == 'json':
            doc = json.loads(r['stdout'])
            lv = {l for cat in ('kex', 'key', 'enc', 'mac') for a in doc.get(cat, []) for l in ('fail', 'warn') if (a.get('notes') or {}).get(l)}
        else:
            out = report.strip_ansi(r['stdout'])
            lv = {t for t in ('fail', 'warn') if ('[%s]' % t) in out}
        if what.startswith('rate-note') and view == 'text' and 'throttling' not in r['stdout']:
            ck.log('other-sections leg: no rate note in %s' % what)
        worst = 3 if 'fail' in lv else (2 if 'warn' in lv else 0)
        if worst != r['exit']:
            ck.violation('status-vs-tags scenario=%s' % what.split('/')[0], '[%s, %s] exit status %s, the tagged findings shown imply %s' % (what, view, r['exit'], worst), replay)
        else:
            ck.cov['traces_validated_against_impl'] += 1
            ck.nontrivial(('other-sections', what, view, tuple(sc['argv'][:3])))


def entry_leg(ck, tier, cases, expected, rnd):
    """The same audits started the other ways the tool can be started - `python -m ssh_audit` (package __main__), `python -m
    ssh_audit.ssh_audit`, the console script of setup.cfg (sys.exit(main())) - leave with the status the default start leaves with:
    the rule's status for completed audits, the connection-error status for a target list holding an unreadable target."""
    from checks import multi, c08
    n = 8 if tier == 'quick' else 40
    by_status = {}
    for c in cases:
        by_status.setdefault(expected[c['id']]['status'], []).append(c)
    pick = []
    for st in sorted(by_status):
        pick += rnd.sample(by_status[st], min(n, len(by_status[st])))
    scs, meta = [], []
    for c in pick:
        for entry in ('module', 'inner', 'console'):
            for view in ('text', 'json'):
                sc = rating.scenario(c, view)
                sc['entry'] = entry
                scs.append(sc)
                meta.append((c, entry, view, expected[c['id']]['status']))
    bad = c08.failing()['bad-block-size']
    H = c08.healthy()
    for lst in (('bad', 'good'), ('fail', 'bad')):
        for entry in ('module', 'inner', 'console'):
            sc, _ = multi.scenario([bad if x == 'bad' else ('server', H[x]) for x in lst], 1, None, json_out=False)
            sc['entry'] = entry
            scs.append(sc)
            meta.append((lst, entry, 'text', None))
    for (c, entry, view, want), sc, r in zip(meta, scs, runner.run_many(scs)):
        ck.evaluated()
        if r.get('harness_error') or r.get('hang'):
            raise common.Machinery('run failed: %r' % (r.get('harness_error') or 'hang'))
        replay = {'case': c, 'entry': entry, 'view': view, 'argv': sc['argv'], 'exit': r['exit'], 'expected_status': want, 'stdout': r['stdout'][-1500:]}
        if want is None:
            if r['exit'] in (0, 2, 3):
                ck.violation('entry-point-status entry=%s incomplete-audit-looks-complete' % entry,
                             'started as %s: targets %r, one of which never delivered a readable KEXINIT, exit %s' % (entry, c, r['exit']), replay)
                continue
        elif r['exit'] != want:
            ck.violation('entry-point-status entry=%s expected=%s got=%s' % (entry, want, r['exit']),
                         'started as %s (%s report): exit status %s, the worst finding implies %s' % (entry, view, r['exit'], want), replay)
            continue
        ck.cov['traces_validated_against_impl'] += 1
        ck.nontrivial(('entry', entry, view, c['id'] if isinstance(c, dict) else c))
    ck.notes.append('entry-point leg: %d runs through python -m ssh_audit / python -m ssh_audit.ssh_audit / console script' % len(scs))


def run(tier):
    ck = common.Check('C02', tier)
    rnd = random.Random(ck.seed)
    os.environ['VERIF_MAXLEN'] = '2' if tier == 'quick' else '3'
    cases, expected = [], {}
    for mode in ('mcmix', 'mclist'):
        mc = rating.evaluate(ck, mode=mode, workers=None)
        for e in mc:
            ec = e['case']
            c = rating.mk_case(len(cases) + 1, role=ec['role'], kex=ec['kex'], key=ec['key'], enc=ec['enc'], mac=ec['mac'])
            cases.append(c)
            e['id'] = c['id']
            expected[c['id']] = e
        ck.log('TLC mode %s: %d cases; ExitRule, StatusMonotone hold on the fold' % (mode, len(mc)))
    scs, idx = [], []
    for c in cases:
        opts = list(OPTS) if (tier == 'thorough' or c['id'] % 3 == 0) else ['plain', rnd.choice(['batch', 'verbose', 'lwarn', 'lfail']), 'json']
        for o in opts:
            view, extra = OPTS[o]
            scs.append(rating.scenario(c, view, extra=extra, observe=True))
            idx.append((c, o))
    results = runner.run_many(scs)
    items = []
    for (c, o), sc, res in zip(idx, scs, results):
        exp = expected[c['id']]
        ck.evaluated()
        if res.get('harness_error') or res.get('hang'):
            raise common.Machinery('run failed: %r' % (res.get('harness_error') or 'hang'))
        sev = tuple(sorted({lv for cat in exp['lines'] for l in exp['lines'][cat] for lv in (['fail'] if l['fail'] else []) + (['warn'] if l['warn'] or l['unknown'] else [])}))
        ck.nontrivial((tuple(c['kex']), tuple(c['key']), tuple(c['enc']), tuple(c['mac']), c['role'], o))
        replay = {'case': c, 'option': o, 'argv': sc['argv'], 'expected_status': exp['status'], 'exit': res['exit'], 'stdout': res['stdout'][-2500:]}
        if res['exit'] != exp['status']:
            if res['exit'] not in (0, 2, 3):
                exc, loc = rating.crash_signature(res)
                ck.violation('no-report exit=%s uncaught=%s at=%s' % (res['exit'], exc, loc), 'status %s (%s in %s)' % (res['exit'], exc, loc), replay)
            else:
                ck.violation('status option=%s expected=%s got=%s' % (o, exp['status'], res['exit']),
                             'exit status %s but the worst finding of the report implies %s (severities %s)' % (res['exit'], exp['status'], sev), replay)
            continue
        # the report itself must contain the finding that justifies the status (text views)
        if o in ('plain', 'batch', 'verbose'):
            tx = rating.parse_view(res, OPTS[o][0], exp)
            lv = {l for cat in tx['algs'] for a in tx['algs'][cat] for l in a['levels']}
            worst = 3 if 'fail' in lv else (2 if 'warn' in lv else 0)
            if worst != res['exit']:
                ck.violation('status-vs-tags option=%s' % o, 'exit %s but the tags shown imply %s' % (res['exit'], worst), replay)
        items.append((c, res))
    ck.log('%d CLI runs compared; validating their traces' % len(results))
    try:
        verdicts = rating.validate_traces(ck, items)
    except rating.InvariantOnTrace as e:
        ck.violation('invariant-on-trace %s' % e.inv, 'invariant %s fails on a state reached by following a recorded run' % e.inv, {'tlc': e.trace})
        verdicts = []
    for (c, res), (v, at) in zip(items, verdicts):
        if v == 'accept':
            ck.cov['traces_validated_against_impl'] += 1
        else:
            ck.violation('trace %s' % v.replace(' ', '-'), 'TraceRating rejects the run at event %d: %s' % (at, v),
                         {'case': c, 'events': rating.trace_of(c, res)['events'], 'exit': res['exit']})
    if items:
        ck.sample({'trace': rating.trace_of(*items[len(items) // 2])})
    targets_leg(ck, tier)
    directions_leg(ck)
    other_sections_leg(ck)
    json_targets_leg(ck)
    unreachable_targets_leg(ck)
    entry_leg(ck, tier, cases, expected, rnd)
    for modname, fn in (('checks.c09', 'c02_leg'), ('checks.c06', 'c02_leg')):
        try:
            mod = __import__(modname, fromlist=['x'])
            getattr(mod, fn)(ck, tier)
        except (ImportError, AttributeError):
            ck.notes.append('%s.%s not present: that leg is not run' % (modname, fn))
    ck.cov['rule'] = ('TLC: all 4^4 severity combinations across categories and all lists of length <= %s over the severities within a category; '
                      'each replayed under plain/-b/-v/-l warn/-l fail/-j; traces of rated events validated by TLC (TraceRating). '
                      'distinct = (lists, role, option)' % os.environ['VERIF_MAXLEN'])
    ck.assumptions += ['a finding is a tagged algorithm note ([fail]/[warn]); untagged coloured lines (SSH-1 banner) are not findings']
    return ck.finish()
