"""C13 - recommendations are consistent with the ratings shown.

SshRating!RecsOf transcribes the statement: del/chg = advertised names with a failure or warning (on the
*edited* table) that the database knows in the identified release, minus what is outside the operator's
control; add = not advertised, clean, not certificate / security-key / pseudo, available in the release.
"Available" uses SshVersionOps!AvailableSince (numeric order, C14).  TLC evaluates RecsConsistent on every
case and supplies the expected set; the harness crosses peers with banners of every recognised product at
v-1, v, v+1 around every first-appeared version of the database, plus unrecognised products.
"""
import random

from harness import common, runner, report, peers
from checks import rating


def banners(tb, tier, rnd):
    vers = {}
    for cat, entries in tb['db2'].items():
        for n, e in entries.items():
            for v in e['vers']:
                if not v['cli']:
                    vers.setdefault(v['prod'], set()).add(tuple(v['c']))
    sws = []
    for prod, vs in sorted(vers.items()):
        around = set()
        for v in vs:
            around.add(v)
            if v[-1] > 0:
                around.add(v[:-1] + (v[-1] - 1,))
            around.add(v[:-1] + (v[-1] + 1,))
        extra = {'OpenSSH': [(10, 0), (9, 10), (10, 1), (3, 10)], 'Dropbear SSH': [(2022, 83), (2024, 100)], 'libssh': [(0, 10, 6), (0, 11, 0)]}[prod]
        around |= set(extra)
        for v in sorted(around):
            if len(v) == 1 and v[0] < 10:
                continue
            sws.append({'product': prod, 'c': list(v), 'p': ['none', 0]})
        if prod == 'OpenSSH':
            sws.append({'product': prod, 'c': [7, 4], 'p': ['p', 1]})
            sws.append({'product': prod, 'c': [6, 6], 'p': ['p', 2]})
    sws.append({'product': 'TinySSH', 'c': [20240101], 'p': ['none', 0]})
    sws.append({'product': 'other', 'c': [1, 25], 'p': ['none', 0]})     # recognised vendor, not a versioned product
    sws.append(None)                                                     # unrecognised software string
    return sws


def peers_for(tb, tier, rnd):
    db = tb['db2']
    P = []
    probeable = set(rating.DEFAULT_HK)

    def pick(cat, k):
        names = [n for n in sorted(db[cat]) if not n.startswith('gss-') and not (cat == 'key' and n in tb['hostkey_types'] and n not in probeable)]
        return rnd.sample(names, k)
    # hand-made boundary peers
    P.append(dict(kex=['curve25519-sha256', 'diffie-hellman-group-exchange-sha256', 'diffie-hellman-group14-sha1'],
                  key=['rsa-sha2-512', 'rsa-sha2-256', 'ssh-ed25519'], enc=['chacha20-poly1305@openssh.com', 'aes128-ctr', 'aes128-cbc'],
                  mac=['hmac-sha2-256-etm@openssh.com', 'hmac-sha1'], hk={'rsa-sha2-512': (2048, '', 0), 'rsa-sha2-256': (2048, '', 0)},
                  dh={'diffie-hellman-group-exchange-sha256': (2048, False)}))
    # the group-exchange size measured below, at and above the fallback size: the recommendation follows the rating of the line (a small
    # modulus is a failure to act on, whatever the software; only the 2048-bit OpenSSH fallback is nobody's to change)
    for bits in (1024, 1536, 3072, 4096):
        P.append(dict(kex=['curve25519-sha256', 'diffie-hellman-group-exchange-sha256'], key=['ssh-ed25519'], enc=['aes256-ctr'], mac=['hmac-sha2-256-etm@openssh.com'],
                      dh={'diffie-hellman-group-exchange-sha256': (bits, False)}))
    P.append(dict(kex=['sntrup761x25519-sha512@openssh.com', 'curve25519-sha256', 'kex-strict-s-v00@openssh.com', 'ext-info-s'],
                  key=['ssh-ed25519'], enc=['aes256-gcm@openssh.com', 'aes128-gcm@openssh.com'], mac=['hmac-sha2-512-etm@openssh.com']))
    P.append(dict(kex=['gss-gex-sha1-toWM5Slw5Ew8Mqkay+al2g==', 'gss-group14-sha256-toWM5Slw5Ew8Mqkay+al2g==', 'curve25519-sha256@libssh.org'],
                  key=['ssh-rsa', 'ssh-dss'], enc=['3des-cbc', 'aes256-ctr'], mac=['hmac-md5', 'hmac-sha2-256'], hk={'ssh-rsa': (1024, '', 0)}))
    P.append(dict(kex=['diffie-hellman-group-exchange-sha1', 'diffie-hellman-group1-sha1'], key=['ssh-rsa'],
                  enc=['aes128-ctr'], mac=['hmac-sha2-256'], hk={'ssh-rsa': (3072, '', 0)}, dh={'diffie-hellman-group-exchange-sha1': (1024, False)}))
    P.append(dict(kex=['curve25519-sha256', 'foo-kex@example.org'], key=['ssh-ed25519', 'ssh-rsa-cert-v01@openssh.com'],
                  enc=['aes128-ctr', 'foo-cipher'], mac=['umac-128-etm@openssh.com'],
                  hk={'ssh-rsa-cert-v01@openssh.com': (2048, 'ssh-rsa', 1024)}))
    # the same gss family under two mechanism suffixes (one database key covers both spellings: both are rated, both are recommended for removal)
    P.append(dict(kex=['gss-group14-sha1-toWM5Slw5Ew8Mqkay+al2g==', 'gss-group14-sha1-eipGX3TCiQSrx573bT1o1Q==', 'gss-gex-sha1-toWM5Slw5Ew8Mqkay+al2g==',
                       'gss-gex-sha1-eipGX3TCiQSrx573bT1o1Q==', 'gss-curve25519-sha256-toWM5Slw5Ew8Mqkay+al2g==', 'gss-curve25519-sha256-A/vxljAEU54gt9a48EiANQ==',
                       'curve25519-sha256'], key=['ssh-ed25519'], enc=['aes256-ctr'], mac=['hmac-sha2-256'], all_sw=True))
    # the two directions of a server's KEXINIT differ: the report (and its recommendations) is about the server-to-client lists
    P.append(dict(kex=['curve25519-sha256'], key=['ssh-ed25519'], enc=['aes128-ctr', '3des-cbc', 'aes128-cbc'], mac=['hmac-sha2-256-etm@openssh.com', 'hmac-sha1'],
                  enc_c2s=['aes128-ctr'], mac_c2s=['hmac-sha2-256']))
    P.append(dict(kex=['curve25519-sha256', 'kex-strict-s-v00@openssh.com'], key=['ssh-ed25519'], enc=['aes256-gcm@openssh.com'], mac=['hmac-sha2-512'],
                  enc_c2s=['chacha20-poly1305@openssh.com', 'aes256-cbc'], mac_c2s=['hmac-sha1-etm@openssh.com']))
    # a peer with the strict-kex marker (so the Terrapin-prone names are named in an advisory note instead of carrying the warning) whose
    # CBC ciphers and ETM MACs are rated down for reasons of their own: those are still recommended for removal / change
    P.append(dict(kex=['sntrup761x25519-sha512@openssh.com', 'curve25519-sha256', 'kex-strict-s-v00@openssh.com'], key=['ssh-ed25519'],
                  enc=['chacha20-poly1305@openssh.com', 'aes128-cbc', '3des-cbc', 'aes256-ctr'],
                  mac=['hmac-sha1-etm@openssh.com', 'umac-64-etm@openssh.com', 'hmac-sha2-256-etm@openssh.com', 'hmac-md5-etm@openssh.com'], all_sw=True))
    P.append(dict(kex=['curve25519-sha256', 'kex-strict-s-v00@openssh.com'], key=['ssh-ed25519'], enc=['blowfish-cbc', 'aes128-ctr'], mac=['hmac-sha1-96-etm@openssh.com', 'hmac-sha2-512'],
                  all_sw=True))
    # every CBC spelling of the table at once (the names the Terrapin step and its recommendation handling single out, the oddly
    # spelled ones included), with and without an ETM MAC and the marker
    cbcs = sorted(n for n in db['enc'] if n.endswith('-cbc') or '-cbc@' in n)
    for chunk in (cbcs[:len(cbcs) // 2], cbcs[len(cbcs) // 2:]):
        P.append(dict(kex=['curve25519-sha256'], key=['ssh-ed25519'], enc=chunk + ['aes256-ctr'], mac=['hmac-sha2-256-etm@openssh.com', 'hmac-sha2-256'], all_sw=True))
        P.append(dict(kex=['curve25519-sha256', 'kex-strict-s-v00@openssh.com'], key=['ssh-ed25519'], enc=chunk + ['aes256-ctr'], mac=['hmac-sha2-256'], all_sw=True))
    # a spelling the database knows in two categories, advertised in only one of them (and in both): what is advertised as a
    # cipher says nothing about the MACs, and the other way round
    cats = ('kex', 'key', 'enc', 'mac')
    basep = dict(kex=['curve25519-sha256'], key=['ssh-ed25519'], enc=['aes128-ctr'], mac=['hmac-sha2-256'])
    for a in cats:
        for b in cats:
            if a < b:
                for nm in sorted(set(db[a]) & set(db[b])):
                    for where in ((a,), (b,), (a, b)):
                        q = {k: list(v) for k, v in basep.items()}
                        for w in where:
                            q[w] = q[w] + [nm]
                        q['all_sw'] = True
                        P.append(q)
    n = 3 if tier == 'quick' else 15
    for _ in range(n):
        P.append(dict(kex=pick('kex', rnd.randint(1, 5)), key=pick('key', rnd.randint(1, 4)), enc=pick('enc', rnd.randint(1, 5)),
                      mac=pick('mac', rnd.randint(1, 4))))
    return P


def build(tier, rnd, tb):
    sws = banners(tb, tier, rnd)
    peers_ = peers_for(tb, tier, rnd)
    cases = []
    for pi, p in enumerate(peers_):
        # quick: each peer meets a third of the banners (rotating), the first two peers meet them all
        for si, sw in enumerate(sws):
            if tier == 'quick' and pi >= 2 and 'enc_c2s' not in p and not p.get('all_sw') and (si + pi) % 3 != 0:
                continue
            dh = dict(p.get('dh', {}))
            c = rating.mk_case(len(cases) + 1, kex=p['kex'], key=p['key'], enc=p['enc'], mac=p['mac'], hk=p.get('hk'), dh=dh, sw=sw,
                               enc_c2s=p.get('enc_c2s'), mac_c2s=p.get('mac_c2s'))
            cases.append(c)
    return cases


def check_cases(ck, cases, expected, views=('text', 'json')):
    scs = [rating.scenario(c, v) for c in cases for v in views]
    results = runner.run_many(scs)
    k = 0
    for c in cases:
        exp = expected[c['id']]
        for v in views:
            res, sc = results[k], scs[k]
            k += 1
            ck.evaluated()
            if res.get('harness_error') or res.get('hang'):
                raise common.Machinery('run failed: %r' % (res.get('harness_error') or 'hang'))
            sw = c['sw']
            ck.nontrivial((sw['product'] if sw else 'none', tuple(sw['c']) if sw else (), tuple(c['kex']), tuple(c['enc']), tuple(c['key']), tuple(c['mac'])))
            replay = {'case': c, 'view': v, 'argv': sc['argv'], 'banner': rating.render_sw(sw), 'expected_recs': exp['recs'],
                      'stdout': res['stdout'][-4000:], 'exit': res['exit']}
            if res['exit'] not in (0, 2, 3):
                exc, loc = rating.crash_signature(res)
                ck.violation('no-report exit=%s uncaught=%s at=%s' % (res['exit'], exc, loc), 'status %s (%s in %s)' % (res['exit'], exc, loc), replay)
                continue
            try:
                doc = rating.parse_view(res, v, exp)
            except (report.ParseError, ValueError) as e:
                raise common.Machinery('cannot parse the %s report: %r' % (v, e))
            diffs = rating.compare_recs(c, exp, text=doc) if v == 'text' else rating.compare_recs(c, exp, js=doc)
            # cross-check against the notes *in the same report* (text): every - / ! line names an algorithm shown with [fail] or [warn]
            if v == 'text':
                shown = {(cat, a['name']): a['levels'] for cat in ('kex', 'key', 'enc', 'mac') for a in doc['algs'][cat]}
                for r in doc['rec']:
                    if r['sign'] in '-!':
                        lv = shown.get((r['cat'], r['name']))
                        if lv is None:
                            diffs.append(('recs remove-not-advertised', '%s %s recommended for removal/change but not in the report' % (r['cat'], r['name'])))
                        elif 'fail' not in lv and 'warn' not in lv:
                            diffs.append(('recs remove-clean', '%s %s recommended for removal/change but shown without failure or warning' % (r['cat'], r['name'])))
                    elif (r['cat'], r['name']) in shown:
                        diffs.append(('recs add-advertised', '%s %s recommended for addition but already advertised' % (r['cat'], r['name'])))
            for sig, desc in diffs:
                ck.violation(sig, '[banner %s] %s' % (rating.render_sw(sw), desc), replay)
            ck.cov['traces_validated_against_impl'] += 1
    return results


def run(tier):
    ck = common.Check('C13', tier)
    rnd = random.Random(ck.seed)
    tb = rating.tables()
    cases = build(tier, rnd, tb)
    expected = rating.evaluate(ck, cases, workers=None)
    ck.log('%d (peer, banner) cases evaluated by TLC; RecsConsistent holds' % len(cases))
    check_cases(ck, cases, expected)
    sequence_leg(ck)
    ssh1_leg(ck)
    for c in cases[:400:97]:
        ck.sample({'banner': rating.render_sw(c['sw']), 'kex': c['kex'], 'expected_recs': sorted(
            '%s%s:%s' % ({'del': '-', 'add': '+', 'chg': '!'}[r['action']], r['cat'], r['name']) for r in expected[c['id']]['recs'])[:12]})
    ck.cov['rule'] = ('peers (boundary + random name-lists over the database, incl. gss, Terrapin-exposed, small-key, unknown names) x banners of every '
                      'recognised product at v-1, v, v+1 around every first-appeared version in the database, multi-digit versions, TinySSH, an unversioned '
                      'vendor string and an unrecognised string; expected sets from TLC (SshRating!RecsOf); text (rec) lines and JSON recommendations compared, '
                      'and cross-checked against the notes of the same report. distinct = (product, version, lists)')
    return ck.finish()


def ssh1_leg(ck):
    """SSH-1 peers of a recognised product: a cipher the report rates with a failure and that the database knows in the identified
    version ('none', known since OpenSSH 1.2.2) is recommended for removal, critically, in the text and in the JSON report; nothing
    is recommended for removal that the peer does not advertise."""
    import json
    scs, meta = [], []
    for banner in (b'SSH-1.5-OpenSSH_3.4p1', b'SSH-1.99-OpenSSH_2.9p2'):
        for cm in (0x09, 0x01, 0x49, 0x08, 0x48):
            cfg = peers.ServerCfg(banner=banner, ssh1={'cmask': cm, 'amask': 0x0c}, wrong_version_text=b'Protocol major versions differ.')
            for js in (False, True):
                scs.append({'argv': (['-j'] if js else ['-n']) + ['-1', rating.HOST], 'servers': {(rating.HOST, 22): cfg}})
                meta.append((banner, cm, js))
    for (banner, cm, js), sc, r in zip(meta, scs, runner.run_many(scs)):
        ck.evaluated()
        if r.get('harness_error') or r.get('hang') or r.get('exit') not in (0, 2, 3):
            raise common.Machinery('SSH-1 run failed: exit %r %s' % (r.get('exit'), r.get('harness_error') or ''))
        has_none = bool(cm & 1)
        replay = {'banner': banner.decode(), 'cipher_mask': cm, 'argv': sc['argv'], 'exit': r['exit'], 'stdout': r['stdout'][-2500:]}
        if js:
            doc = json.loads(r['stdout'])
            dels = [(lvl, x.get('name')) for lvl, acts in (doc.get('recommendations') or {}).items() for x in (acts.get('del') or {}).get('enc', [])]
            rec_none = ('critical', 'none') in dels
            stray = [n for _, n in dels if n not in doc.get('enc', [])]
        else:
            out = report.strip_ansi(r['stdout'])
            recs = [l.split()[1] for l in out.split('\n') if l.startswith('(rec) -') and 'enc algorithm to remove' in l]
            rec_none = '-none' in recs
            shown = [l.split()[1] for l in out.split('\n') if l.startswith('(enc) ')]
            stray = [n[1:] for n in recs if n[1:] not in shown]
        if has_none and not rec_none:
            ck.violation('ssh1-recs missing view=%s' % ('json' if js else 'text'), 'SSH-1 peer %s offering the cipher none (rated [fail], known since 1.2.2): no removal recommendation for it'
                         % banner.decode(), replay)
        elif not has_none and rec_none:
            ck.violation('ssh1-recs spurious view=%s' % ('json' if js else 'text'), 'SSH-1 peer %s not offering the cipher none: its removal is recommended' % banner.decode(), replay)
        elif stray:
            ck.violation('ssh1-recs not-advertised view=%s' % ('json' if js else 'text'), 'SSH-1 peer %s: removal recommended for %r, which it does not advertise' % (banner.decode(), stray), replay)
        else:
            ck.cov['traces_validated_against_impl'] += 1
            ck.nontrivial(('ssh1-recs', banner, cm, js))


def sequence_leg(ck):
    """Servers with the same banner and the same lists but different measurements (key sizes, group sizes), audited one after the
    other in one invocation: each one's recommendations follow its own report."""
    import json
    from checks import multi
    ossh = {'product': 'OpenSSH', 'c': [8, 9], 'p': ['p', 1]}
    base = dict(kex=['curve25519-sha256', 'diffie-hellman-group-exchange-sha256'], key=['rsa-sha2-512', 'rsa-sha2-256', 'ssh-ed25519'],
                enc=['aes256-ctr', 'aes128-ctr'], mac=['hmac-sha2-256', 'hmac-sha2-512'])
    variants = [dict(hk={'rsa-sha2-512': (2048, '', 0), 'rsa-sha2-256': (2048, '', 0)}, dh={'diffie-hellman-group-exchange-sha256': (3072, True)}),
                dict(hk={'rsa-sha2-512': (4096, '', 0), 'rsa-sha2-256': (4096, '', 0)}, dh={'diffie-hellman-group-exchange-sha256': (3072, True)}),
                dict(hk={'rsa-sha2-512': (4096, '', 0), 'rsa-sha2-256': (4096, '', 0)}, dh={'diffie-hellman-group-exchange-sha256': (2048, False)}),
                dict(hk={'rsa-sha2-512': (1024, '', 0), 'rsa-sha2-256': (1024, '', 0)}, dh={'diffie-hellman-group-exchange-sha256': (4096, True)})]
    cases = [rating.mk_case(600 + i, sw=ossh, hk=v['hk'], dh=v['dh'], **base) for i, v in enumerate(variants)]
    exp = rating.evaluate(ck, cases)
    scs = []
    for order in ((0, 1, 2, 3), (3, 2, 1, 0), (1, 0), (2, 1), (0, 3, 0)):
        sc, labels = multi.scenario([('server', rating.server_cfg(cases[i])) for i in order], 1, tuple(range(len(order))), json_out=True)
        scs.append((sc, labels, order))
    for (sc, labels, order), r in zip(scs, runner.run_many([x[0] for x in scs])):
        ck.evaluated()
        if r.get('harness_error') or r.get('hang'):
            raise common.Machinery('sequence run failed: %r' % (r.get('harness_error') or 'hang'))
        replay = {'order': order, 'argv': sc['argv'], 'exit': r['exit'], 'stdout': r['stdout'][-3000:]}
        try:
            docs = {el['target']: el for el in json.loads(r['stdout'])}
        except (ValueError, KeyError, TypeError):
            ck.violation('sequence-json-unparsable', 'stdout of a -T -j run of healthy servers is not a JSON array of reports', replay)
            continue
        bad = False
        for pos, (lab, i) in enumerate(zip(labels, order)):
            for sig, desc in rating.compare_recs(cases[i], exp[cases[i]['id']], js=docs.get(lab, {})):
                ck.violation('sequence-' + sig, '[target %d of %r: same banner and lists as its neighbours, its own measurements] %s' % (pos + 1, order, desc), replay)
                bad = True
        if not bad:
            ck.cov['traces_validated_against_impl'] += 1
            ck.nontrivial(('sequence', order))


def cli_version_leg(ck, tier):
    """C14's CLI leg: banners at multi-digit versions; availability must follow the numeric order (expected from TLC)."""
    rnd = random.Random(ck.seed + 14)
    tb = rating.tables()
    sws = [{'product': 'OpenSSH', 'c': list(v), 'p': ['none', 0]} for v in [(10, 0), (9, 10), (9, 9), (10, 1), (12, 0), (8, 10), (100, 0)]]
    sws += [{'product': 'libssh', 'c': list(v), 'p': ['none', 0]} for v in [(0, 10, 6), (0, 7, 0), (0, 11, 0), (0, 9, 10)]]
    sws += [{'product': 'Dropbear SSH', 'c': list(v), 'p': ['none', 0]} for v in [(2022, 83), (2020, 100), (2018, 76)]]
    cases = []
    for sw in sws:
        cases.append(rating.mk_case(len(cases) + 1, kex=['curve25519-sha256'], key=['ssh-ed25519'], enc=['aes128-ctr'], mac=['hmac-sha2-256'], sw=sw))
        cases.append(rating.mk_case(len(cases) + 1, kex=['diffie-hellman-group14-sha1', 'sntrup761x25519-sha512@openssh.com'], key=['ssh-ed25519'],
                                    enc=['aes256-ctr'], mac=['hmac-sha2-512-etm@openssh.com'], sw=sw))
    expected = rating.evaluate(ck, cases, workers=None)
    n0 = len(ck.violations)
    saved = ck.prop
    check_cases(ck, cases, expected)
    ck.notes.append('CLI leg: %d banner cases at multi-digit versions compared with TLC-predicted recommendations' % len(cases))
