"""SshCli.tla bound to ssh_audit.process_commandline (a leg of C19, also evidence for C15 and C18).

TLC enumerates every well-formed set of up to MaxOpts option tokens, checks the laws (AttackModesOnlyOnRequest,
PresentationOnlyPresents, PortLegal, RefusedIffUsageStatus) and emits the expected outcome of each; every case is replayed
into the real process_commandline() with the corresponding argv and the configuration it returns - or the status it exits
with - is compared field by field.
"""
import contextlib
import io
import os
import shutil
import sys
import tempfile

from harness import common, tlc, runner

SERVER_POLICY = ('name = "verif server"\nversion = 1\nhost keys = ssh-ed25519\nkey exchanges = curve25519-sha256\nciphers = aes256-ctr\n'
                 'macs = hmac-sha2-256\n')
CLIENT_POLICY = SERVER_POLICY.replace('verif server', 'verif client') + 'client policy = true\n'
BUILTIN = 'Hardened OpenSSH Server v9.4 (version 2)'


def argv_of(tokens, tmp):
    words = {'1': ['-1'], '2': ['-2'], '4': ['-4'], '6': ['-6'], '46': ['-4', '-6'], '64': ['-6', '-4'], 'b': ['-b'], 'c': ['-c'], 'd': ['-d'],
             'j': ['-j'], 'jj': ['-jj'], 'L': ['-L'], 'm': ['-m'], 'n': ['-n'], 'v': ['-v'], 'skip': ['--skip-rate-test'],
             'lookup': ['--lookup', 'aes128-ctr'], 'M': ['-M', os.path.join(tmp, 'made.txt')], 'Pserver': ['-P', os.path.join(tmp, 'server.txt')],
             'Pclient': ['-P', os.path.join(tmp, 'client.txt')], 'Pmissing': ['-P', os.path.join(tmp, 'no-such-policy.txt')], 'Pbuiltin': ['-P', BUILTIN],
             'T': ['-T', os.path.join(tmp, 'targets.txt')], 't3': ['-t', '3'], 'threads4': ['--threads', '4'], 'p2200': ['-p', '2200'], 'p0': ['-p', '0'],
             'p70000': ['-p', '70000'], 'gok': ['-g', '2048:3072:4096'], 'gbad': ['-g', 'abc'], 'lwarn': ['-l', 'warn'], 'lfail': ['-l', 'fail'],
             'dheat': ['--dheat', '2'], 'connrate': ['--conn-rate-test', '2'], 'host': ['example.org'], 'hostport': ['example.org:2022']}
    out = []
    for t in sorted(tokens, key=lambda x: (x in ('host', 'hostport'), x)):
        out += words[t]
    return out


def observe(argv):
    """-> ('exit', status) | ('conf', {field: value})"""
    from ssh_audit.ssh_audit import process_commandline
    from ssh_audit.outputbuffer import OutputBuffer
    buf = io.StringIO()
    try:
        with contextlib.redirect_stdout(buf), contextlib.redirect_stderr(buf):
            a = process_commandline(OutputBuffer(), list(argv))
    except SystemExit as e:
        code = e.code if isinstance(e.code, int) else (0 if e.code is None else 1)
        return 'exit', code & 0xff, buf.getvalue()
    except Exception as e:          # noqa
        return 'raised', repr(e), buf.getvalue()
    flags = {'batch': a.batch, 'verbose': a.verbose, 'debug': a.debug, 'colors': a.colors, 'json': a.json, 'indent': a.json_print_indent, 'level': a.level,
             'client_audit': a.client_audit, 'skip_rate_test': a.skip_rate_test, 'manual': a.manual, 'lookup': a.lookup, 'ipv': list(a.ip_version_preference),
             'timeout_set': a.timeout_set, 'timeout': int(a.timeout) if float(a.timeout) == int(a.timeout) else a.timeout, 'threads': a.threads,
             'make_policy': a.make_policy, 'has_target_file': a.target_file is not None, 'gex_test': a.gex_test, 'dheat': a.dheat is not None,
             'conn_rate_test': a.conn_rate_test_enabled}
    audit = {'port': a.port, 'host': a.host, 'ssh1': a.ssh1, 'ssh2': a.ssh2, 'policy_loaded': a.policy is not None}
    return 'conf', {'flags': flags, 'audit': audit}, buf.getvalue()


def run_leg(ck, tier):
    runner.load_repo()
    maxopts = 3 if tier == 'quick' else 4
    cfg = ('SPECIFICATION Spec\nCONSTANT MaxOpts = %d\nINVARIANT AttackModesOnlyOnRequest\nINVARIANT PresentationOnlyPresents\nINVARIANT PortLegal\n'
           'INVARIANT RefusedIffUsageStatus\nINVARIANT Emit\n' % maxopts)
    res = tlc.run('SshCli', cfg, workers=None)
    ck.add_tlc(res)
    common.require(res.ok, 'SshCli: %s violated on the option space:\n%s' % (res.violated, '\n'.join(res.trace[-30:])))
    cases = [p for p in res.prints if isinstance(p, dict) and 'opts' in p]
    common.require(len(cases) > 1000, 'SshCli emitted only %d cases' % len(cases))
    ck.log('SshCli: %d option sets (<= %d options); AttackModesOnlyOnRequest, PresentationOnlyPresents, PortLegal, RefusedIffUsageStatus hold' % (len(cases), maxopts))
    tmp = tempfile.mkdtemp(prefix='vcli-')
    saved_env = os.environ.pop('NO_COLOR', None)
    saved_argv = list(sys.argv)
    sys.argv = ['ssh-audit.py']
    try:
        for name, text in (('server.txt', SERVER_POLICY), ('client.txt', CLIENT_POLICY), ('targets.txt', 'alpha.example\nbeta.example:2022\n')):
            with open(os.path.join(tmp, name), 'w') as f:
                f.write(text)
        for c in cases:
            ck.evaluated()
            argv = argv_of(c['opts'], tmp)
            kind, got, printed = observe(argv)
            shown = [a.replace(tmp, '{tmp}') for a in argv]
            replay = {'argv': shown, 'expected': {k: c[k] for k in ('mode', 'exit', 'refusal')}, 'observed': got if kind != 'conf' else got, 'printed': printed[-600:]}
            klass = 'options=' + '+'.join(sorted(t for t in c['opts'] if t not in ('host', 'hostport'))[:4])
            if kind == 'raised':
                ck.violation('cli-uncaught mode=%s' % c['mode'], 'process_commandline(%r) raised %s' % (shown, got), replay)
                continue
            if c['exit'] != -1:
                if kind != 'exit' or got != c['exit']:
                    ck.violation('cli-outcome expected=%s%s' % (c['mode'], ('/' + c['refusal']) if c['refusal'] else ''),
                                 '%r: expected to leave with status %d (%s), observed %s' % (shown, c['exit'], c['refusal'] or c['mode'], (kind, got if kind == 'exit' else 'a configuration')), replay)
                else:
                    ck.cov['traces_validated_against_impl'] += 1
                    ck.nontrivial(('cli', tuple(sorted(c['opts']))))
                continue
            if kind != 'conf':
                ck.violation('cli-outcome expected=%s' % c['mode'], '%r: expected a configuration for mode %s, observed exit status %r' % (shown, c['mode'], got), replay)
                continue
            bad = []
            for f, want in c['flags'].items():
                have = got['flags'].get(f)
                if f == 'ipv':
                    want = list(want)
                if have != want:
                    bad.append((f, want, have))
            if isinstance(c['audit'], dict) and 'port' in c['audit']:
                for f, want in c['audit'].items():
                    if got['audit'].get(f) != want:
                        bad.append((f, want, got['audit'].get(f)))
            if bad:
                f, want, have = bad[0]
                ck.violation('cli-field field=%s' % f, '%r (mode %s): configuration field %s is %r, the option set implies %r%s'
                             % (shown, c['mode'], f, have, want, '' if len(bad) == 1 else ' (and %d more fields differ)' % (len(bad) - 1)), replay)
            else:
                ck.cov['traces_validated_against_impl'] += 1
                ck.nontrivial(('cli', tuple(sorted(c['opts']))))
    finally:
        sys.argv = saved_argv
        if saved_env is not None:
            os.environ['NO_COLOR'] = saved_env
        shutil.rmtree(tmp, ignore_errors=True)
    ck.notes.append('command-line leg: %d option sets replayed into process_commandline()' % len(cases))
