"""Shared machinery of the checks bound to spec/SshAudit.tla and TraceAudit.tla (C09 C11 C12 C19, C02's incomplete-audit leg)."""
import json

from harness import common, tlc, runner, peers, report

HOST = '10.0.0.1'
PROBE_ORDER = ["ssh-rsa", "rsa-sha2-256", "rsa-sha2-512", "ssh-rsa-cert-v01@openssh.com", "rsa-sha2-256-cert-v01@openssh.com",
               "rsa-sha2-512-cert-v01@openssh.com", "ssh-ed25519", "ssh-ed25519-cert-v01@openssh.com", "ssh-ed448",
               "ecdsa-sha2-nistp256", "ecdsa-sha2-nistp384", "ecdsa-sha2-nistp521", "ecdsa-sha2-nistp256-cert-v01@openssh.com",
               "ecdsa-sha2-nistp384-cert-v01@openssh.com", "ecdsa-sha2-nistp521-cert-v01@openssh.com", "ssh-dss", "ssh-dss-cert-v01@openssh.com"]
# key exchanges a client can drive without the server's private key being involved in anything it checks (RFC 4253/5656/8731, group exchange)
DRIVABLE_KEX = ['diffie-hellman-group1-sha1', 'diffie-hellman-group14-sha1', 'diffie-hellman-group14-sha256', 'curve25519-sha256',
                'curve25519-sha256@libssh.org', 'diffie-hellman-group16-sha512', 'diffie-hellman-group18-sha512',
                'diffie-hellman-group-exchange-sha1', 'diffie-hellman-group-exchange-sha256', 'ecdh-sha2-nistp256', 'ecdh-sha2-nistp384',
                'ecdh-sha2-nistp521']
GEX = ['diffie-hellman-group-exchange-sha1', 'diffie-hellman-group-exchange-sha256']
INVARIANTS = ['GranularRule', 'ExitDocumented', 'ReportIffHandshake', 'BoundedWaiting', 'FootprintBounded', 'KexReqDiscipline', 'AllClosedAtExit', 'FallbackDiscipline',
              'ProbesOnlyAfterHandshake', 'GexReportRule', 'NoSizeWhenRefused', 'GexRequestsFixed', 'RsaFanOut']


def mc_cfg(servers, faults, cap=38, conc=3, ticks=15, mode='attempts', emit=False, live=False, spec=None):
    c = 'SPECIFICATION %s\nCONSTANTS\n MaxFaults = %d\n RateCap = %d\n RateConc = %d\n RateTicks = %d\n RateMode = "%s"\n Servers <- %s\n' % (
        spec or ('FairSpec' if live else 'Spec'), faults, cap, conc, ticks, mode, servers)
    c += ''.join('INVARIANT %s\n' % i for i in INVARIANTS)
    if emit:
        c += 'INVARIANT EmitGex\n'
    if live:
        c += 'PROPERTY Terminates\nPROPERTY OnlyDowngrade\n'
    return c


def srv_of(cfg, skip_rate, dheat_tables, argv=(), role='server', granular=()):
    """Server archetype (SshAudit!srv) of a fake peer configuration and the command line it is audited with."""
    one = any(a in ('-1', '--ssh1', '-12', '-21') for a in argv)
    two = any(a in ('-2', '--ssh2', '-12', '-21') for a in argv)
    tryv = '12' if one == two else ('1' if one else '2')
    proto = 'none' if cfg.get('wrong_version_always') else ('1' if cfg.get('ssh1') is not None else '2')
    k = peers.full_lists(cfg.get('kexinit', peers.DEFAULT_KEXINIT))
    kex = [x.decode('latin-1') for x in k['kex']]
    key = [x.decode('latin-1') for x in k['key']]
    first = next((x for x in kex if x in DRIVABLE_KEX), None)
    gex = cfg.get('gex') or {}
    dh_names = set(dheat_tables['alg_priority']) | set(dheat_tables['gex_algs'])
    return {
        'hk': [t for t in PROBE_ORDER if t in key],
        'kexOK': first is not None,
        'kexGex': first in GEX,
        'gex': [g for g in GEX if g in kex],
        'dh': any(x in dh_names for x in kex),
        'moduli': sorted(gex.get('moduli', [])),
        'style': gex.get('style', 'strict'),
        'openssh': 'OpenSSH' in (cfg.get('banner') or b'').decode('latin-1'),
        'skipRate': bool(skip_rate),
        'role': role, 'proto': proto, 'try': tryv, 'cliTimeout': '-t' in argv or any(a.startswith('--timeout') for a in argv),
        'granular': [list(r) for r in granular],
    }


def srv_from_report(res, srv, dheat_tables):
    """Archetype as the tool saw it: the (kex)/(key) names of its own report."""
    from harness import report as R
    try:
        tx = R.parse_text(res['stdout'])
    except Exception:
        return srv
    kex = [a['name'] for a in tx['algs']['kex']]
    key = [a['name'] for a in tx['algs']['key']]
    if not kex and not key:
        return srv
    first = next((x for x in kex if x in DRIVABLE_KEX), None)
    dh_names = set(dheat_tables['alg_priority']) | set(dheat_tables['gex_algs'])
    out = dict(srv)
    out.update({'hk': [t for t in PROBE_ORDER if t in key], 'kexOK': first is not None, 'kexGex': first in GEX,
                'gex': [g for g in GEX if g in kex], 'dh': any(x in dh_names for x in kex)})
    return out


def has_report(res):
    """Did the run end with its product - the algorithm report, the policy verdict, the written policy?  Read off the report's
    structure (section tags, JSON keys) and, for policy runs, off the exit status - not off the wording of any message."""
    argv = res.get('argv') or []
    if '-M' in argv or '--make-policy' in argv:
        return res.get('exit') == 0                      # the policy file was written
    if '-P' in argv or '--policy' in argv:
        return res.get('exit') in (0, 3)                 # a verdict (passed / failed) was reached
    out = res['stdout']
    return ('(kex) ' in out or '(key) ' in out or '(enc) ' in out or '(mac) ' in out or '"kex":' in out
            or 'Result:' in out or '"passed":' in out or 'Wrote policy to' in out)


GEX1_NAME, GEX256_NAME = 'diffie-hellman-group-exchange-sha1', 'diffie-hellman-group-exchange-sha256'


def shown_gex_sizes(res):
    """The group-exchange modulus sizes a standard audit's report shows -> (known?, sha1 bits or 0, sha256 bits or 0).
    known is False when the run has no algorithm report to read them from (policy audits, -M, -g, client audits, failed runs)."""
    import re
    argv = res.get('argv') or []
    if any(a in argv for a in ('-M', '--make-policy', '-P', '--policy', '-g', '--gex-test', '-c', '--client-audit', '-T', '--targets')):
        return False, 0, 0
    out = res.get('stdout') or ''
    sizes = {GEX1_NAME: 0, GEX256_NAME: 0}
    if '-j' in argv or '-jj' in argv:
        try:
            doc = json.loads(out)
        except ValueError:
            return False, 0, 0
        if not isinstance(doc, dict) or 'kex' not in doc:
            return False, 0, 0
        for a in doc['kex']:
            if a.get('algorithm') in sizes and isinstance(a.get('keysize'), int):
                sizes[a['algorithm']] = a['keysize']
        return True, sizes[GEX1_NAME], sizes[GEX256_NAME]
    if '(kex) ' not in out:
        return False, 0, 0
    from harness import report as _report
    for line in _report.strip_ansi(out).split('\n'):
        m = re.match(r'\(kex\) (\S+)\s+\((\d+)-bit\)', line)
        if m and m.group(1) in sizes and not sizes[m.group(1)]:
            sizes[m.group(1)] = int(m.group(2))
    return True, sizes[GEX1_NAME], sizes[GEX256_NAME]


def trace_events(res):
    nb = {}
    evs = []
    sawbanner = set()
    lasttext = {}
    for e in res['events']:
        k = e.get('ev')
        if k == 'listen':
            evs.append({'e': 'listen'})
            continue
        if k == 'unlisten':
            evs.append({'e': 'unlisten'})
            continue
        if k == 'accept':
            nb[e['n']] = False
            evs.append({'e': 'connect', 'ok': True, 'nb': False, 'accepted': True})
            continue
        if k == 'resolve' and not e.get('ok') and e.get('port') != 0:
            evs.append({'e': 'connect', 'ok': False, 'nb': False, 'accepted': False})      # the attempt to reach the target failed at name resolution
        elif k == 'connect':
            nb[e['n']] = bool(e.get('nb'))
            evs.append({'e': 'connect', 'ok': bool(e['ok']), 'nb': bool(e.get('nb')), 'accepted': False})
        elif k == 'read':
            n = e['n']
            if e.get('got') == 'data' and bytes.fromhex(e.get('head', '')).startswith(b'SSH-'):
                sawbanner.add(n)
            if nb.get(n):
                continue
            if e.get('got') == 'data':
                lasttext[n] = bytes.fromhex(e.get('head', ''))
            if e.get('got') in ('eof', 'reset'):
                evs.append({'e': 'readfail', 'kind': 'eof', 'mismatch': lasttext.get(n, b'').startswith(b'Protocol')})
            elif e.get('got') == 'timeout':
                evs.append({'e': 'readfail', 'kind': 'timeout', 'mismatch': False})
            elif e.get('tainted') and not (evs and evs[-1].get('e') == 'garbled'):
                evs.append({'e': 'garbled'})
        elif k == 'send':
            t = e.get('type')
            if t == 'banner':
                evs.append({'e': 'sendbanner'})
            elif t == 20:
                kex, key = e.get('kex', []), e.get('key', [])
                evs.append({'e': 'send20', 'nkex': len(kex), 'nkey': len(key), 'kex1': kex[0] if kex else '', 'key1': key[0] if key else ''})
            elif t == 30:
                evs.append({'e': 'send30'})
            elif t == 32:
                evs.append({'e': 'send32'})
            elif t == 34:
                evs.append({'e': 'send34', 'min': e.get('min', -1), 'pref': e.get('pref', -1), 'max': e.get('max', -1), 'answer': e.get('answer', 0)})
            else:
                evs.append({'e': 'sendother', 'type': str(t)})
        elif k == 'close':
            evs.append({'e': 'close', 'nb': nb.get(e['n'], False), 'banner': e['n'] in sawbanner})
    known, s1, s256 = shown_gex_sizes(res)
    evs.append({'e': 'exit', 'status': res['exit'] if res['exit'] is not None else -1, 'report': has_report(res), 'open': res.get('open', 0),
                'waits': res.get('waits', 0), 'sizes': {'known': known, 'sha1': s1, 'sha256': s256}})
    return evs


def validate(ck, items, chunk=1500, diagnose=True):
    """items: [(srv, result)]; returns list of (accepted: bool, info)."""
    out = []
    for s in range(0, len(items), chunk):
        part = items[s:s + chunk]
        traces = [{'srv': srv, 'ev': trace_events(res)} for srv, res in part]
        cfg = ('SPECIFICATION TraceSpec\nCONSTANTS\n MaxFaults = 100000\n RateCap = 38\n RateConc = 3\n RateTicks = 15\n RateMode = "attempts"\n'
               ' Servers = {}\n' + ''.join('INVARIANT %s\n' % i for i in INVARIANTS if i not in ('GexReportRule',)) + 'INVARIANT Accept\n')
        res = tlc.run('TraceAudit', cfg, generated={'traces.json': json.dumps(traces)}, env={'VERIF_TRACES': 'traces.json'}, deque=True)
        ck.add_tlc(res)
        acc = {p['tid'] for p in res.prints if isinstance(p, dict) and p.get('verdict') == 'accept'}
        inv_failed = res.violated
        rejected = [i for i in range(len(part)) if (i + 1) not in acc]
        info = {}
        if inv_failed:
            info['_invariant'] = (inv_failed, '\n'.join(res.trace[-60:]))
        if rejected and diagnose and not inv_failed:
            sub = [traces[i] for i in rejected]
            cfg2 = cfg.replace('INVARIANT Accept\n', 'INVARIANT Progress\n')
            r2 = tlc.run('TraceAudit', cfg2, generated={'traces.json': json.dumps(sub)}, env={'VERIF_TRACES': 'traces.json'}, deque=True)
            best = {}
            for p in r2.prints:
                if isinstance(p, dict) and 'at' in p:
                    b = best.get(p['tid'])
                    if b is None or p['at'] > b[0]:
                        best[p['tid']] = (p['at'], p['pc'])
            for j, i in enumerate(rejected):
                at, pc = best.get(j + 1, (0, '?'))
                ev = traces[i]['ev']
                info[i] = {'matched_events': at - 1, 'model_pc': pc, 'next_event': ev[at - 1] if at - 1 < len(ev) else None,
                           'events': ev}
        for i in range(len(part)):
            if inv_failed:
                out.append((False, {'invariant': inv_failed, 'tlc': info['_invariant'][1]}))
            elif (i + 1) in acc:
                out.append((True, None))
            else:
                out.append((False, info.get(i, {'events': traces[i]['ev']})))
    return out
