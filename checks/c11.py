"""C11 - host-key sizes, CA details and fingerprints are measured and rated correctly.

 * Rating: SshRating!HostKeyFails/HostKeyWarns/SizeShown transcribe the thresholds (RSA family and RSA CAs: < 2048
   fail, [2048, 3072) warn, >= 3072 none; ECC: 224/256) and the RSA-family fan-out; TLC checks SizeMonotone and
   Thresholds and supplies, for every measured case, the expected size suffix, notes and JSON fields.
 * Measurement: the fake server presents blobs built by an independent encoder (harness/peers.py) for RSA moduli
   from 512 to 16384 bits, Ed25519, Ed448, RSA and Ed25519 certificates signed by RSA / Ed25519 / ECDSA CAs; the
   sizes the tool reports must equal the sizes put into the blobs.
 * Fingerprints: SHA-256 / MD5 of the presented blob, computed with hashlib (hash functions are outside TLA+;
   DESIGN section 9): one `ssh-rsa` entry for the RSA family, none for certificates.
 * Connection pattern (one probe per type, one for the whole RSA family): the recorded runs are validated against
   TraceAudit.tla (invariants RsaFanOut, FootprintBounded).
"""
import base64
import hashlib
import itertools
import random

from harness import common, runner, report, peers
from checks import rating, audit

RSA_FAM = ['ssh-rsa', 'rsa-sha2-256', 'rsa-sha2-512']


def build(tier, rnd):
    cases = []

    def add(key, hk, tag):
        c = rating.mk_case(len(cases) + 1, kex=['curve25519-sha256'], key=key, enc=['aes128-ctr'], mac=['hmac-sha2-256'], hk=hk,
                           sw={'product': 'OpenSSH', 'c': [9, 6], 'p': ['none', 0]})
        c['tag'] = tag
        cases.append(c)

    step = 64 if tier == 'thorough' else 512
    sizes = set(range(512, 16384 + 1, step)) | set(range(1984, 2112 + 1, 16)) | set(range(3008, 3136 + 1, 16)) | {1024, 2048, 3072, 4096, 8192, 16384}
    if tier == 'quick':
        sizes = {s for s in sizes if s <= 8192 or s == 16384}
    for i, s in enumerate(sorted(sizes)):
        t = RSA_FAM[i % 3]
        add([t, 'ssh-ed25519'], {t: (s, '', 0)}, 'rsa-size')
    add(['ssh-ed25519'], {'ssh-ed25519': (256, '', 0)}, 'ed25519')
    add(['ssh-ed448', 'ssh-ed25519'], {'ssh-ed448': (448, '', 0), 'ssh-ed25519': (256, '', 0)}, 'ed448')
    # certificates
    ca_rsa = [1024, 2047 // 16 * 16, 2048, 3056, 3072, 4096] if tier == 'quick' else sorted({1024, 1536, 2032, 2048, 2064, 3056, 3072, 3088, 4096, 8192})
    cas = [('ssh-rsa', s) for s in ca_rsa] + [('ssh-ed25519', 256), ('ecdsa-sha2-nistp256', 256), ('ecdsa-sha2-nistp384', 384), ('ecdsa-sha2-nistp521', 528)]
    for ct in ('ssh-rsa-cert-v01@openssh.com', 'ssh-ed25519-cert-v01@openssh.com'):
        for ca, casz in cas:
            for hs in ((1024, 2048, 3072, 4096) if ct.startswith('ssh-rsa') else (256,)):
                if tier == 'quick' and ct.startswith('ssh-rsa') and hs in (1024, 4096) and ca == 'ssh-rsa' and casz not in (2048, 3072):
                    continue
                add([ct, 'ssh-ed25519'], {ct: (hs, ca, casz)}, 'cert')
    # RSA certificates offered under the SHA-2 signature names, next to the plain RSA key they certify (distinct blobs: the
    # family's one fingerprint is that of the plain key, never of a certificate)
    for ct in ('rsa-sha2-256-cert-v01@openssh.com', 'rsa-sha2-512-cert-v01@openssh.com'):
        for ca, casz in (('ssh-rsa', 2048), ('ssh-rsa', 4096), ('ssh-ed25519', 256)):
            add([ct, 'rsa-sha2-512', 'ssh-ed25519'], {ct: (3072, ca, casz), 'rsa-sha2-512': (4096, '', 0)}, 'cert-sha2')
            add(['ssh-rsa', ct], {ct: (2048, ca, casz), 'ssh-rsa': (3072, '', 0)}, 'cert-sha2')
        add([ct, 'ssh-ed25519'], {ct: (4096, 'ssh-rsa', 3072)}, 'cert-sha2')
    # RSA family: every non-empty ordered subset, one shared key
    for k in (1, 2, 3):
        for sub in itertools.permutations(RSA_FAM, k):
            for s in ((2048, 3072) if tier == 'quick' else (1024, 2048, 3072)):
                add(list(sub), {t: (s, '', 0) for t in sub}, 'rsa-family')
    # combined with other types in both orders
    add(['ssh-ed25519', 'rsa-sha2-512', 'rsa-sha2-256'], {'rsa-sha2-512': (2048, '', 0), 'rsa-sha2-256': (2048, '', 0)}, 'combined')
    add(['rsa-sha2-256', 'ssh-ed25519', 'ssh-rsa', 'ssh-rsa-cert-v01@openssh.com'],
        {'rsa-sha2-256': (3072, '', 0), 'ssh-rsa': (3072, '', 0), 'ssh-rsa-cert-v01@openssh.com': (3072, 'ssh-rsa', 2048)}, 'combined')
    add(['ecdsa-sha2-nistp256', 'ssh-rsa'], {'ssh-rsa': (1024, '', 0)}, 'combined')
    # SSH_MSG_DEBUG messages (legal at any time, RFC 4253 11.3) in front of the reply that carries the key: the key is presented
    # all the same and must be measured all the same
    for k in (1, 2, 3):
        add(['rsa-sha2-512', 'ssh-ed25519-cert-v01@openssh.com', 'ssh-ed25519'],
            {'rsa-sha2-512': (2048, '', 0), 'ssh-ed25519-cert-v01@openssh.com': (256, 'ssh-rsa', 2048)}, 'debug-before-reply')
        cases[-1]['server_opts'] = {'debug_kinds': {'kexreply': k}}
        add(['ssh-rsa-cert-v01@openssh.com', 'ssh-rsa'], {'ssh-rsa-cert-v01@openssh.com': (3072, 'ssh-ed25519', 256), 'ssh-rsa': (1024, '', 0)}, 'debug-before-reply')
        cases[-1]['server_opts'] = {'debug_kinds': {'kexreply': k}}
    # SSH_MSG_IGNORE in front of the reply: the probes do not expect it and give the type up - each on its own connection, so nothing
    # is measured for any type and, above all, no reply left over from one probe is taken for the next type's key
    add(['rsa-sha2-512', 'ssh-ed25519'], {}, 'ignore-before-reply')
    cases[-1]['server_opts'] = {'ignore_kinds': {'kexreply': 1}}
    add(['ssh-rsa', 'ssh-rsa-cert-v01@openssh.com', 'ssh-ed25519'], {}, 'ignore-before-reply')
    cases[-1]['server_opts'] = {'ignore_kinds': {'kexreply': 1}}
    cases[-1]['raw_hostkeys'] = {'ssh-rsa-cert-v01@openssh.com': rating.hostkey_blob('ssh-rsa-cert-v01@openssh.com', (1024, 'ssh-rsa', 4096))}
    # the first probe of the RSA family (ssh-rsa) is answered with SSH_MSG_DISCONNECT, the next member's probe normally: one answered
    # probe speaks for the whole family, so all three names carry the size
    def _first_probe_disconnects(k, kind, idx, data):
        from harness import wire
        if k == 2 and kind == 'kexreply':
            return [wire.frame(bytes([1]) + wire.u32(2) + wire.string(b'cannot sign with SHA-1') + wire.string(b''))]
        return [data]
    for size in (2048, 3072):
        add(['ssh-rsa', 'rsa-sha2-256', 'rsa-sha2-512', 'ssh-ed25519'], {t: (size, '', 0) for t in RSA_FAM}, 'first-family-probe-fails')
        cases[-1]['server_opts'] = {'mutate': _first_probe_disconnects}
    # the free-form fields of a certificate (key id, principals, options, extensions) say nothing about its sizes: whatever they hold -
    # text outside ASCII, bytes that are not UTF-8, nothing, a lot - the key and its CA are measured and rated as for any certificate
    from harness import wire as _wire
    ext = _wire.string(b'permit-pty') + _wire.string(b'')
    for k, kw in enumerate((dict(key_id='h\u00f4te-prod-01'.encode('utf-8')), dict(key_id=b'\xff\xfe\x80id'), dict(key_id=b''), dict(key_id=b'k' * 300),
                            dict(principals=(b'a.example', b'b.example', 'h\u00f4te.example'.encode('utf-8'))), dict(principals=()),
                            dict(extensions=ext, options=_wire.string(b'force-command') + _wire.string(_wire.string(b'/bin/true'))))):
        add(['ssh-rsa-cert-v01@openssh.com', 'ssh-ed25519-cert-v01@openssh.com', 'ssh-ed25519'],
            {'ssh-rsa-cert-v01@openssh.com': (1024, 'ssh-rsa', 1024), 'ssh-ed25519-cert-v01@openssh.com': (256, 'ssh-rsa', 2048)}, 'certificate-free-form-fields')
        cases[-1]['raw_hostkeys'] = {'ssh-rsa-cert-v01@openssh.com': peers.cert_blob('rsa', ('rsa', 1024), bits=1024, **kw),
                                     'ssh-ed25519-cert-v01@openssh.com': peers.cert_blob('ed25519', ('rsa', 2048), **kw)}
    # advertised but never presented: the server closes the probe connection instead of sending the key.  Nothing was measured
    # for that type, so nothing may be reported for it (no size, no CA, no fingerprint); the other types are unaffected.
    for key, hk, held in ((['rsa-sha2-512', 'rsa-sha2-256', 'ssh-ed25519'], {}, RSA_FAM),
                          (['ssh-ed25519', 'rsa-sha2-256'], {'rsa-sha2-256': (2048, '', 0)}, ['ssh-ed25519']),
                          (['ssh-ed25519', 'ssh-rsa', 'ecdsa-sha2-nistp256'], {'ssh-rsa': (3072, '', 0)}, ['ecdsa-sha2-nistp256']),
                          (['ssh-rsa-cert-v01@openssh.com', 'ssh-ed25519', 'rsa-sha2-512'], {'rsa-sha2-512': (4096, '', 0)}, ['ssh-rsa-cert-v01@openssh.com']),
                          (['ssh-ed25519-cert-v01@openssh.com', 'ssh-ed25519'], {}, ['ssh-ed25519-cert-v01@openssh.com', 'ssh-ed25519']),
                          (['ssh-rsa', 'ssh-ed448'], {}, RSA_FAM + ['ssh-ed448'])):
        add(key, hk, 'withheld')
        cases[-1]['withheld'] = list(held)
    return cases


def fp_expected(c, cfg):
    """{type: (sha256, md5)} of the presented blobs: one 'ssh-rsa' for the family, none for certificates."""
    out = {}
    if (c.get('server_opts') or {}).get('ignore_kinds'):
        return out          # no probe of this server can succeed: no key is ever read, so none may be fingerprinted
    for t, blob in cfg['hostkeys'].items():
        if '-cert-' in t or t not in [rating.shown(x) for x in c['key']]:
            continue
        name = 'ssh-rsa' if t in RSA_FAM else t
        sha = base64.b64encode(hashlib.sha256(blob).digest()).decode().rstrip('=')
        md5 = hashlib.md5(blob).hexdigest()
        out[name] = (sha, ':'.join(md5[i:i + 2] for i in range(0, 32, 2)))
    return out


def sequence_leg(ck):
    """Several servers in one invocation (-T): every server's host keys are probed and measured for that server - the types an earlier
    target presented are probed again on the later ones, sizes, CA details and fingerprints are each server's own."""
    import json
    from checks import multi
    shapes = [rating.mk_case(8801, kex=['curve25519-sha256'], key=['ssh-rsa', 'ssh-ed25519'], enc=['aes128-ctr'], mac=['hmac-sha2-256'], hk={'ssh-rsa': (1024, '', 0)}),
              rating.mk_case(8802, kex=['curve25519-sha256'], key=['rsa-sha2-512', 'ssh-rsa', 'ssh-ed25519'], enc=['aes128-ctr'], mac=['hmac-sha2-256'],
                             hk={'rsa-sha2-512': (4096, '', 0), 'ssh-rsa': (4096, '', 0)}),
              rating.mk_case(8803, kex=['curve25519-sha256'], key=['ssh-rsa-cert-v01@openssh.com', 'ssh-rsa', 'ssh-ed25519'], enc=['aes128-ctr'], mac=['hmac-sha2-256'],
                             hk={'ssh-rsa-cert-v01@openssh.com': (3072, 'ssh-rsa', 1024), 'ssh-rsa': (2048, '', 0)}),
              rating.mk_case(8804, kex=['curve25519-sha256'], key=['ssh-ed25519'], enc=['aes128-ctr'], mac=['hmac-sha2-256'])]
    cfgs = [rating.server_cfg(c) for c in shapes]
    refs = []
    for cfg in cfgs:
        rr = runner.run_one(multi.single_scenario(('server', cfg), 0, json_out=True))
        if rr.get('harness_error') or rr.get('hang') or rr.get('exit') not in (0, 2, 3):
            raise common.Machinery('single-target reference run failed')
        d = json.loads(rr['stdout'])
        refs.append((d.get('key'), d.get('fingerprints')))
    scs = []
    for order in ((0, 1), (1, 0), (0, 1, 2), (2, 1, 0), (3, 0, 3, 2), (1, 1), (0, 3, 1)):
        for threads in (1, 2):
            sc, labels = multi.scenario([('server', cfgs[i]) for i in order], threads, tuple(range(len(order))) if threads == 1 else None, json_out=True)
            scs.append((sc, labels, order, threads))
    for (sc, labels, order, threads), r in zip(scs, runner.run_many([x[0] for x in scs])):
        ck.evaluated()
        if r.get('harness_error') or r.get('hang'):
            raise common.Machinery('target-list run failed: %r' % (r.get('harness_error') or 'hang'))
        replay = {'order': list(order), 'threads': threads, 'argv': sc['argv'], 'exit': r['exit'], 'stdout': r['stdout'][-3000:]}
        try:
            docs = {}
            for el in json.loads(r['stdout']):
                docs.setdefault(el['target'], []).append(el)
        except (ValueError, KeyError, TypeError):
            ck.violation('sequence-json-unparsable', 'stdout of a -T -j run of healthy servers is not a JSON array of reports', replay)
            continue
        bad = False
        for pos, (lab, i) in enumerate(zip(labels, order)):
            for el in docs.get(lab, [None]):
                got = (el or {}).get('key'), (el or {}).get('fingerprints')
                if got != refs[i]:
                    what = 'host-key lines (sizes, CA, notes)' if got[0] != refs[i][0] else 'fingerprints'
                    ck.violation('hostkey sequence %s' % what.split(' ')[0], 'server %d audited as target %d of %r (%d thread(s)): its %s differ from those of its single-target audit'
                                 % (i, pos + 1, list(order), threads, what), dict(replay, single_target=refs[i], in_list=got))
                    bad = True
                    break
            if bad:
                break
        if not bad:
            ck.cov['traces_validated_against_impl'] += 1
            ck.nontrivial(('sequence', order, threads))


def run(tier):
    ck = common.Check('C11', tier)
    rnd = random.Random(ck.seed)
    cases = build(tier, rnd)
    expected = rating.evaluate(ck, cases, workers=None)
    ck.log('%d host-key cases evaluated by TLC (SizeMonotone, Thresholds hold)' % len(cases))
    views = ('text', 'verbose', 'json')
    scs = [rating.scenario(c, v) for c in cases for v in views]
    results = runner.run_many(scs)
    dh = rating.tables()['dheat']
    items = []
    k = 0
    for c in cases:
        exp = expected[c['id']]
        cfg = rating.server_cfg(c)
        fps = fp_expected(c, cfg)
        for v in views:
            res, sc = results[k], scs[k]
            k += 1
            ck.evaluated()
            if res.get('harness_error') or res.get('hang'):
                raise common.Machinery('run failed: %r' % (res.get('harness_error') or 'hang'))
            ck.nontrivial((tuple(c['key']), tuple(sorted((a, b) for a, b in c['hk'].items())), v))
            replay = {'case': c, 'view': v, 'argv': sc['argv'], 'expected_key_lines': exp['lines']['key'], 'expected_sizes': exp['sizes']['key'],
                      'stdout': res['stdout'][-3000:], 'exit': res['exit']}
            if res['exit'] not in (0, 2, 3):
                exc, loc = rating.crash_signature(res)
                ck.violation('no-report exit=%s uncaught=%s at=%s' % (res['exit'], exc, loc), 'status %s (%s in %s)' % (res['exit'], exc, loc), replay)
                continue
            doc = rating.parse_view(res, v, exp)
            if v == 'json':
                ja = report.json_algs(doc)['key']
                for i, l in enumerate(exp['lines']['key']):
                    sz = exp['sizes']['key'][i]
                    e = ja[i]
                    want_keysize = sz['size'] if (l['name'] in RSA_FAM or l['name'].startswith('ssh-rsa-cert-v0')) and l['name'] in c['hk'] or (
                        l['name'] in RSA_FAM and any(f in c['hk'] for f in RSA_FAM)) else None
                    if l['name'] in RSA_FAM and want_keysize is None:
                        want_keysize = None
                    if l['name'] in RSA_FAM and any(f in c['hk'] for f in RSA_FAM):
                        want_keysize = next(c['hk'][f][0] for f in RSA_FAM if f in c['hk'])
                    if e.get('keysize') != want_keysize:
                        ck.violation('hostkey-size view=json kind=%s' % c['tag'], 'key %s: JSON keysize %r, key presented has %r bits' % (l['name'], e.get('keysize'), want_keysize), replay)
                    hk = c['hk'].get(l['name'])
                    want_ca = (hk[1], hk[2]) if hk and hk[1] and hk[2] else (None, None)
                    if (e.get('ca_algorithm'), e.get('casize')) != want_ca:
                        ck.violation('ca view=json kind=%s' % c['tag'], 'key %s: JSON CA %r, certificate signed by %r' % (l['name'], (e.get('ca_algorithm'), e.get('casize')), want_ca), replay)
                for sig, desc in rating.compare_notes(c, exp, js=doc):
                    if 'cat=key' in sig:
                        ck.violation('hostkey-' + sig + ' kind=%s' % c['tag'], desc, replay)
                got_fp = {}
                for f in doc.get('fingerprints', []):
                    got_fp.setdefault(f['hostkey'], {})[f['hash_alg']] = f['hash']
                want_fp = {t: {'SHA256': s, 'MD5': m} for t, (s, m) in fps.items()}
                if got_fp != want_fp:
                    ck.violation('fingerprints view=json kind=%s' % c['tag'], 'JSON fingerprints %r, blobs presented hash to %r' % (got_fp, want_fp), replay)
            else:
                ta = doc['algs']['key']
                for i, l in enumerate(exp['lines']['key']):
                    if i >= len(ta):
                        ck.violation('hostkey-line-missing', 'key line %d missing' % i, replay)
                        break
                    sz = exp['sizes']['key'][i]
                    got = (ta[i]['size'] or 0, ta[i]['casize'] or 0, ta[i]['catype'] or '')
                    want = (sz['size'], sz['casize'], sz['catype'])
                    if got != want:
                        ck.violation('hostkey-size view=%s kind=%s' % (v, c['tag']), 'key %s: report shows %r (size, CA size, CA type), key presented has %r' % (l['name'], got, want), replay)
                for sig, desc in rating.compare_notes(c, exp, text=doc):
                    if 'cat=key' in sig:
                        ck.violation('hostkey-' + sig + ' kind=%s' % c['tag'], desc, replay)
                got_fp = {}
                for t, h, note in doc['fin']:
                    got_fp.setdefault(t, set()).add(h)
                want_fp = {}
                for t, (s, m) in fps.items():
                    weak = t.startswith('ecdsa-') or t == 'ssh-dss'
                    if weak and v != 'verbose':
                        continue
                    want_fp[t] = {'SHA256:' + s} | ({'MD5:' + m} if v == 'verbose' else set())
                if got_fp != want_fp:
                    ck.violation('fingerprints view=%s kind=%s' % (v, c['tag']), 'report fingerprints %r, blobs presented hash to %r' % (got_fp, want_fp), replay)
            ck.cov['traces_validated_against_impl'] += 1
            if v == 'text':
                items.append((audit.srv_of(cfg, True, dh), res))
    verdicts = audit.validate(ck, items)
    for (srv, r), (ok, info) in zip(items, verdicts):
        if not ok:
            ck.violation('trace-rejected model_pc=%s' % (info or {}).get('model_pc'), 'TraceAudit rejects a host-key probing run: %s' % (
                {kk: vv for kk, vv in (info or {}).items() if kk != 'events'}), {'srv': srv, 'info': info})
        else:
            ck.cov['traces_validated_against_impl'] += 1
    for c in cases[:60:25]:
        ck.sample({'key': c['key'], 'measured': c['hk'], 'expected_sizes': expected[c['id']]['sizes']['key'],
                   'expected_notes': [{'name': l['name'], 'fail': l['fail'], 'warn': l['warn']} for l in expected[c['id']]['lines']['key']]})
    ck.cov['rule'] = ('RSA moduli 512..16384 (step %d, every multiple of 16 around 2048 and 3072), Ed25519, Ed448, RSA/Ed25519 certificates x RSA/Ed25519/ECDSA CAs, '
                      'every ordered subset of the RSA family, combined lists; expected suffix/notes/JSON from TLC (SshRating), fingerprints from hashlib; plain, '
                      'verbose and JSON views; connection pattern via TraceAudit. distinct = (key list, measured sizes, view)' % (64 if tier == 'thorough' else 512))
    ck.assumptions += ['RSA sizes are multiples of 16 bits (the tool infers bits from the byte length of the modulus)',
                       'ECDSA CA size is 8 x len(X) as the tool documents (P-521 => 528)',
                       'fingerprint values are compared with hashlib (outside TLA+)']
    sequence_leg(ck)
    return ck.finish()
