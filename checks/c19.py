"""C19 - a standard audit's footprint on the target is small and bounded.

SshAudit.tla's invariants FootprintBounded (<= 1 handshake connection, <= one per probed host-key type, <= 9 per
group-exchange algorithm, <= 38 for the rate check and none when it is skipped or no DH key exchange is offered, <= 3
in flight), KexReqDiscipline (key-exchange computation requests only in probes, one per connection), AllClosedAtExit and
ProbesOnlyAfterHandshake are (a) model-checked by TLC over the fault family - including the rate loop with an
environment that answers with banners, other bytes, nothing, or refusals - and (b) evaluated on every state of the
recorded network trace of real CLI runs against the C09 / C11 / C12 server families and dedicated rate-test peers,
with and without --skip-rate-test, standard and policy audits (TraceAudit.tla).
The model's constant RateMode documents the defect found here: with the cap applied to counted banners ("banners",
the tree as found) TLC produces a run that exceeds the bound; with the cap on attempts ("attempts") it holds.
"""
import random

from harness import common, runner, peers, tlc
from checks import rating, audit, c09

HOST = audit.HOST


def rate_peers():
    base = c09.archetypes()['dropbear']
    out = []
    out.append(('banner-at-once', peers.ServerCfg(base)))
    c = peers.ServerCfg(base); c['prebanner'] = [b'Welcome to the machine']
    out.append(('pre-banner-line', c))
    c = peers.ServerCfg(base); c['banner_after_client'] = True
    out.append(('silent-until-spoken-to', c))
    c = peers.ServerCfg(base); c['refuse_after'] = 3
    out.append(('refuses-after-3', c))
    c = peers.ServerCfg(base); c['refuse_after'] = 10
    out.append(('refuses-after-10', c))
    c = peers.ServerCfg(base); c['maxstartups_after'] = 8
    out.append(('maxstartups-after-8', c))
    c = peers.ServerCfg(base); c['banner'] = b'HTTP/1.1 400 Bad Request'
    c2 = peers.ServerCfg(base); c2['eol'] = b'\n'
    out.append(('lf-only', c2))
    c3 = peers.ServerCfg(base)
    c3['kexinit'] = {'kex': ['sntrup761x25519-sha512@openssh.com', 'mlkem768x25519-sha256'], 'key': ['ssh-ed25519'], 'enc': ['aes128-ctr'],
                     'mac': ['hmac-sha2-256'], 'comp': ['none']}
    out.append(('no-classic-dh-kex', c3))
    # connections of the rate check (everything after the handshake and the probes) that are accepted and then left without a word,
    # all of them or every other one: the check still ends with its time window
    probe = runner.run_one({'argv': ['-n', '--skip-rate-test', HOST], 'servers': {(HOST, 22): peers.ServerCfg(base)}})
    k = probe.get('nconn') or 0
    for which in ('all', 'odd'):
        c4 = peers.ServerCfg(base)

        def silent(n, kind, idx, data, which=which, k=k):
            from harness import fakenet
            if n > k and kind == 'banner' and (which == 'all' or n % 2 == 1):
                return [fakenet.STALL]
            return [data]
        c4['mutate'] = silent
        out.append(('rate-connections-silent-%s' % which, c4))
    return out


def _garble_replies(how):
    """Every key-exchange reply of every probe connection is replaced (the exception path of the host-key probe)."""
    from harness import wire, fakenet

    def mutate(k, kind, idx, data):
        if kind != 'kexreply':
            return [data]
        if how == 'disconnect':
            return [wire.frame(bytes([1]) + wire.u32(2) + wire.string(b'bye') + wire.string(b''))]
        if how == 'truncated-blob':
            return [wire.frame(bytes([data[5]]) + wire.u32(64) + b'\x00\x00\x00\x0bssh-ed25519')]
        if how == 'eof':
            return [fakenet.EOF]
        return [data]
    return mutate


def footprint_peers():
    """Peers chosen for what could inflate the footprint: repeated names in the host-key list (with every kind of probe
    reply), peers that refuse both protocol versions, SSH-1 peers (the fallback makes a second handshake connection)."""
    out = []
    base = c09.archetypes()['dropbear']
    for how in ('plain', 'disconnect', 'truncated-blob', 'eof'):
        c = peers.ServerCfg(base)
        c['kexinit'] = dict(base['kexinit'], key=['ssh-ed25519'] * 12 + ['rsa-sha2-256'] * 5 + ['ssh-ed25519', 'rsa-sha2-512'])
        c['hostkeys'] = dict(base['hostkeys'], **{'rsa-sha2-512': base['hostkeys']['rsa-sha2-256']})
        if how != 'plain':
            c['mutate'] = _garble_replies(how)
        out.append(('repeated-hostkey-names/' + how, c, []))
    for name, (cfg, role, xargs) in c09.other_archetypes().items():
        if role == 'server':
            for extra in ([], ['-1'], ['-2']):
                out.append(('%s/args=%s' % (name, ''.join(extra) or 'default'), cfg, extra))
    # servers that announce protocol 1.99 (SSH-2 with SSH-1 compatibility) and speak SSH-2: one handshake like any SSH-2 server
    for bn in (b'SSH-1.99-OpenSSH_3.9p1', b'SSH-1.99-Cisco-1.25'):
        c = peers.ServerCfg(base)
        c['banner'] = bn
        for extra in ([], ['-2'], ['--skip-rate-test']):
            out.append(('announces-1.99/%s/args=%s' % (bn.decode().split('-')[2], ''.join(extra) or 'default'), c, extra))
    stub = peers.ServerCfg(banner=b'SSH-1.5-Stubborn_1.0', wrong_version_always=True)
    stub2 = peers.ServerCfg(banner=b'SSH-2.0-Stubborn_2.0', wrong_version_always=True)
    for extra in ([], ['-1'], ['-2']):
        out.append(('refuses-both-versions/args=%s' % (''.join(extra) or 'default'), stub, extra))
        out.append(('refuses-both-versions-ssh2-banner/args=%s' % (''.join(extra) or 'default'), stub2, extra))
    return out


def targets_leg(ck, dh):
    """A target list: the bound is per listed server - each server receives the connections of its own audit and of no other, also
    when several listed targets share a host name or address and differ only in the port."""
    arch = c09.archetypes()
    names = sorted(arch)
    ip = '10.0.0.7'
    layouts = [[(ip, 2201), (ip, 2202), (ip, 2203)], [(ip, 22), ('10.0.0.8', 22), (ip, 2222)], [('samehost.example', 2201), ('samehost.example', 2202)],
               # a line with a port followed by lines without one (those are on the default port)
               [(ip, 2201), (ip, None)], [('10.0.0.8', 2207), (ip, None), ('10.0.0.9', None)]]
    scs, meta = [], []
    for lay in layouts:
        for threads in (1, 2):
            for skip in (True, False):
                servers = {}
                resolver = {}
                lay_full = [(h, 22 if p is None else p) for h, p in lay]
                for i, (h, p) in enumerate(lay_full):
                    addr = ip if h.endswith('.example') else h
                    servers[(addr, p)] = arch[names[i % len(names)]]
                    if h.endswith('.example'):
                        import socket as _socket
                        resolver[h] = [(_socket.AF_INET, addr)]
                scs.append({'argv': ['-n', '--threads', str(threads)] + (['--skip-rate-test'] if skip else []) + ['-T', '{tmp}/targets.txt'], 'servers': servers, 'resolver': resolver,
                            'files': {'targets.txt': ''.join(('%s\n' % h) if p is None else ('%s:%d\n' % (h, p)) for h, p in lay)}, 'fresh': True})
                meta.append((lay_full, threads, skip, servers))
    for (lay, threads, skip, servers), sc, r in zip(meta, scs, runner.run_many(scs)):
        ck.evaluated()
        replay = {'targets': ['%s:%d' % hp for hp in lay], 'threads': threads, 'argv': sc['argv'], 'exit': r.get('exit'), 'nconn': r.get('nconn'), 'stdout': (r.get('stdout') or '')[-1500:]}
        if r.get('harness_error'):
            raise common.Machinery('run failed: %r' % r['harness_error'])
        if r.get('hang') or r.get('runaway'):
            ck.violation('runaway-connections', 'target list %r: the run did not end' % (lay,), replay)
            continue
        per = {}
        for e in r['events']:
            if e.get('ev') == 'connect':
                per.setdefault((e.get('host'), e.get('port')), []).append(bool(e.get('nb')))
        ok = True
        for (addr, p), cfg in servers.items():
            srv = audit.srv_of(cfg, skip, dh, argv=sc['argv'])
            got = per.get((addr, p), [])
            probes = [x for x in got if not x]
            bound = 2 + len(set(srv['hk'])) + 9 * len(srv['gex'])
            if not probes:
                ck.violation('listed-server-never-contacted', 'target list %r, %d thread(s): the server at %s:%d was never connected to (connections went to %r)'
                             % (lay, threads, addr, p, {('%s:%s' % k): len(v) for k, v in per.items()}), replay)
                ok = False
            elif len(probes) > bound or len([x for x in got if x]) > 38:
                ck.violation('per-server-connections-exceed-bound', 'target list %r, %d thread(s): the server at %s:%d received %d handshake/probe and %d rate-check connections; '
                             'the bound for one audit of it is %d and 38' % (lay, threads, addr, p, len(probes), len(got) - len(probes), bound), replay)
                ok = False
        if ok:
            ck.cov['traces_validated_against_impl'] += 1
            ck.nontrivial(('targets', tuple(lay), threads, skip))


def run(tier):
    ck = common.Check('C19', tier)
    rnd = random.Random(ck.seed)
    dh = rating.tables()['dheat']
    # (a) the model
    faults = 1 if tier == 'quick' else 2
    res = tlc.run('MC_SshAudit', audit.mc_cfg('FaultFamily', faults, cap=4, conc=2, ticks=2))
    ck.add_tlc(res)
    common.require(res.ok, 'SshAudit: %s violated on the model:\n%s' % (res.violated, '\n'.join(res.trace[-40:])))
    res2 = tlc.run('MC_SshAudit', audit.mc_cfg('RateServers', 2, cap=38, conc=3, ticks=3))
    ck.add_tlc(res2)
    common.require(res2.ok, 'SshAudit rate loop: %s violated' % res2.violated)
    bad = tlc.run('MC_SshAudit', audit.mc_cfg('RateServers', 0, cap=4, conc=2, ticks=2, mode='banners'))
    common.require(bad.violated == 'FootprintBounded', 'the model of the cap-on-banners mechanism should exceed the bound (sanity of the invariant)')
    ck.log('model: bounds hold for the cap-on-attempts mechanism (%d + %d states); the cap-on-banners mechanism violates FootprintBounded as expected'
           % (res.distinct, res2.distinct))
    # (b) traces of real runs
    scs, meta = [], []
    for name, cfg in c09.archetypes().items():
        for skip in (True, False):
            for extra, what in (([], 'standard'), (['-j'], 'json'), (['-P', 'Hardened OpenSSH Server v9.4 (version 2)'], 'policy')):
                scs.append({'argv': ['-n'] + extra + (['--skip-rate-test'] if skip else []) + [HOST], 'servers': {(HOST, 22): cfg}})
                meta.append((name + '/' + what, cfg, skip))
        scs.append({'argv': ['-n', '-M', '{tmp}/policy.txt', HOST], 'servers': {(HOST, 22): cfg}})
        meta.append((name + '/make-policy', cfg, False))
    for what, cfg in rate_peers():
        for rtt in (0.0002, 0.005, 0.05):
            scs.append({'argv': ['-n', HOST], 'servers': {(HOST, 22): cfg}, 'rtt': rtt})
            meta.append(('rate/%s/rtt=%g' % (what, rtt), cfg, False))
        scs.append({'argv': ['-n', '--skip-rate-test', HOST], 'servers': {(HOST, 22): cfg}})
        meta.append(('rate/%s/skipped' % what, cfg, True))
    for what, cfg, extra in footprint_peers():
        scs.append({'argv': ['-n'] + extra + [HOST], 'servers': {(HOST, 22): cfg}})
        meta.append(('footprint/' + what, cfg, False))
    # a target named by a host name that resolves to several addresses of the same server: one address is dialled per connection
    import socket as _socket
    for name, cfg in c09.archetypes().items():
        for addrs in ([(_socket.AF_INET, '10.0.0.1'), (_socket.AF_INET, '10.0.0.2')],
                      [(_socket.AF_INET6, '2001:db8::1'), (_socket.AF_INET, '10.0.0.1'), (_socket.AF_INET, '10.0.0.2')]):
            scs.append({'argv': ['-n', 'multihomed.example'], 'servers': {(ip, 22): cfg for _, ip in addrs}, 'resolver': {'multihomed.example': addrs}})
            meta.append(('footprint/multi-homed x%d/%s' % (len(addrs), name), cfg, False))
    roles = {}
    # the fault family of C09, with the rate check on (quick: a sample)
    fsc, fmeta, _ = c09.build('quick', rnd)
    idx = list(range(len(fsc)))
    rnd.shuffle(idx)
    for i in idx[:400 if tier == 'quick' else 3000]:
        m = fmeta[i]
        if m[0] == 'none' or m[2] is None:
            continue
        if m[2][1] == 'gexgroup' and any(t in m[1] for t in ('randmut', 'strlen', 'strbyte', 'random')):
            continue
        sc = dict(fsc[i])
        sc['argv'] = [a for a in sc['argv'] if a != '--skip-rate-test']
        scs.append(sc)
        meta.append(('fault/' + m[0] + '/' + m[1], m[3], False))
        roles[len(meta) - 1] = c09.arch_opts(m[0])['role']
    results = runner.run_many(scs)
    items = []
    import re
    for j, (sc, (what, cfg, skip), r) in enumerate(zip(scs, meta, results)):
        ck.evaluated()
        if r.get('harness_error'):
            raise common.Machinery('run failed: %r' % r['harness_error'])
        if r.get('hang') or r.get('runaway'):
            ck.violation('runaway-connections', '[%s] the audit kept opening connections (%s; the fake network refuses after 1500)'
                         % (what, 'killed after 60 s' if r.get('hang') else '%d connections' % r.get('nconn', 0)), {'scenario': what, 'argv': sc['argv']})
            items.append(None)
            continue
        ck.nontrivial(what)
        srv = audit.srv_of(cfg, skip, dh, argv=sc['argv'], role=roles.get(j, 'server'))
        mb = re.search(r'^\(gen\) banner: (.*)$', r.get('stdout') or '', re.M)
        if mb:
            srv['openssh'] = 'OpenSSH' in mb.group(1)
        if what.startswith('fault/') and r.get('exit') in (0, 2, 3) and 'conn1/' in what and srv['proto'] == '2':
            srv = audit.srv_from_report(r, srv, dh)
        items.append((srv, r))
        # direct counts (what the invariants say, read off the raw connection log)
        evs = r['events']
        nb = [e for e in evs if e.get('ev') == 'connect' and e.get('nb')]
        replay = {'scenario': what, 'argv': sc['argv'], 'exit': r.get('exit'), 'nconn': r.get('nconn'), 'stdout': (r.get('stdout') or '')[-1500:]}
        others = [e for e in evs if e.get('ev') == 'connect' and not e.get('nb')]
        # one handshake (two with the SSH-1 fallback), one per distinct probed host-key type, at most 9 per group-exchange algorithm
        bound = 2 + len(set(srv['hk'])) + 9 * len(srv['gex'])
        if len(others) > bound:
            ck.violation('probe-connections-exceed-bound', '[%s] %d handshake/probe connections; the bound for this peer is %d' % (what, len(others), bound), replay)
        if len(nb) > 38:
            ck.violation('rate-connections n>38', '[%s] the rate check opened %d connections' % (what, len(nb)), replay)
        if what.startswith('rate/') and (r.get('vtime') or 0) > 4.0:
            # handshake + probes take a few round trips on these cooperative peers, the rate check 1.5 s by its own clock
            ck.violation('rate-check-outlasts-its-window', '[%s] the audit took %.1f s of (virtual) time: the connection-rate check did not end with its 1.5 s window' % (what, r['vtime']), replay)
        if skip and nb:
            ck.violation('rate-check-ran-while-skipped', '[%s] %d rate connections with --skip-rate-test' % (what, len(nb)), replay)
        if r.get('open'):
            ck.violation('sockets-open-at-exit', '[%s] %d sockets neither closed nor finalised at exit' % (what, r['open']), replay)
    live = [(m, it) for m, it in zip(meta, items) if it is not None]
    verdicts = audit.validate(ck, [it for _, it in live])
    for (what, cfg, skip), (srv, r), (ok, info) in zip([m for m, _ in live], [it for _, it in live], verdicts):
        if ok:
            ck.cov['traces_validated_against_impl'] += 1
            continue
        if r.get('exit') not in (0, 1, 2, 3) or c09.reject_signature(r, info, what).startswith('report-lost'):
            continue            # crashes and lost reports are C09's findings; the footprint clauses were checked directly above
        if 'invariant' in (info or {}):
            ck.violation('invariant=%s' % info['invariant'], '[%s] %s fails on a state reached by following the recorded run' % (what, info['invariant']),
                         {'scenario': what, 'tlc': info.get('tlc')})
        else:
            ck.violation('trace-rejected model_pc=%s next=%s' % ((info or {}).get('model_pc'), ((info or {}).get('next_event') or {}).get('e')),
                         '[%s] TraceAudit rejects the run: %s' % (what, {k: v for k, v in (info or {}).items() if k != 'events'}),
                         {'scenario': what, 'info': info})
    # the command line itself: the attack modes are entered only on request and --skip-rate-test reaches the audit (SshCli.tla)
    targets_leg(ck, dh)
    from checks import cli
    cli.run_leg(ck, tier)
    ck.sample({'scenario': meta[1][0], 'connections': results[1].get('nconn'), 'trace_head': audit.trace_events(results[1])[:12]})
    ck.cov['rule'] = ('TLC: FaultFamily with up to %d faults + the rate loop with every reply pattern; real runs: 3 archetypes x {standard, json, policy, make-policy} x '
                      '{rate check on, skipped}, 8 rate-test peers x 3 RTTs, a sample of the C09 fault family with the rate check on; every trace validated '
                      'against TraceAudit.tla. distinct = scenario' % faults)
    ck.assumptions += ['connections are observed at the fake network; "closed by exit" = closed or finalised after main() returned and a gc.collect()']
    return ck.finish()
