"""C08 - one bad target never costs the others their results.

 * SshMulti.tla: every outcome archetype (good / warn / fail / connection error / exception in the worker / a
   SystemExit raised deep in the worker) in every position of lists of length <= 3, 1..3 threads, every
   interleaving: invariants Blocks (one block per target), ExitIsMax (rank order good < warn < fail < connection
   error < internal error), Framing (open (block (delim block)*) close) and liveness RunEnds hold when a worker's
   SystemExit is contained; the check confirms that they fail when it escapes into the main thread (the tree as
   found), so the invariants are not vacuous.
 * Real runs: target lists mixing healthy servers with every failure archetype (unresolvable, refused, connect
   timeout, silent, early close, bad block size, bad SSH-1 CRC, truncated KEXINIT, probe-phase garbage), every
   position, 1..3 threads, text and JSON: block count, attribution and equality of the healthy targets' blocks
   with their single-target result, exit status = highest rank, stdout a single JSON array.
 * Trace validation of begin/end/printed/exit events against TraceMulti.tla.
"""
import itertools
import json
import random
import struct

from harness import common, runner, peers, tlc, fakenet, wire
from checks import multi, c07

RANK = {0: 0, 2: 1, 3: 2, 1: 3, 255: 4}


def healthy():
    hk = {'ssh-ed25519': peers.ed25519_blob()}
    H = {}
    H['good'] = peers.ServerCfg(banner=b'SSH-2.0-OpenSSH_9.9', kexinit={
        'kex': ['sntrup761x25519-sha512@openssh.com', 'mlkem768x25519-sha256', 'kex-strict-s-v00@openssh.com', 'ext-info-s'], 'key': ['ssh-ed25519'],
        'enc': ['aes256-gcm@openssh.com', 'aes128-gcm@openssh.com'], 'mac': ['hmac-sha2-256-etm@openssh.com', 'hmac-sha2-512-etm@openssh.com'],
        'comp': ['none']}, hostkeys=hk)
    H['warn'] = peers.ServerCfg(banner=b'SSH-2.0-OpenSSH_9.6', kexinit={
        'kex': ['curve25519-sha256', 'kex-strict-s-v00@openssh.com'], 'key': ['ssh-ed25519'], 'enc': ['aes256-gcm@openssh.com'],
        'mac': ['hmac-sha2-256-etm@openssh.com'], 'comp': ['none']}, hostkeys=hk)
    H['fail'] = peers.ServerCfg(banner=b'SSH-2.0-OpenSSH_7.4', kexinit={
        'kex': ['curve25519-sha256', 'diffie-hellman-group1-sha1'], 'key': ['ssh-ed25519'], 'enc': ['aes128-ctr', '3des-cbc'],
        'mac': ['hmac-sha1'], 'comp': ['none']}, hostkeys=hk)
    return H


def _mut(n_sel, kind_sel, fn):
    def mutate(n, kind, idx, data):
        if (n_sel is None or n == n_sel) and kind == kind_sel:
            return fn(data)
        return [data]
    return mutate


def short_padding(base):
    """A server whose KEXINIT packets carry fewer than four bytes of padding (RFC 4253 section 6 asks for at least four; the packet is still a
    whole number of blocks).  The tool audits such a server like any other - it is a healthy target."""
    c = peers.ServerCfg(base)

    def mutate(n, kind, idx, data):
        if kind != 'kexinit':
            return [data]
        plen, pad = struct.unpack('>IB', data[:5])
        payload = data[5:4 + plen - pad]
        d = wire.parse_kexinit(payload[1:])
        for k in range(9):
            lists = {f: d[f] for f in wire.KEXINIT_FIELDS}
            lists['lang_s2c'] = [b'x' * k] if k else []
            pl = wire.build_kexinit(lists, cookie=d['cookie'])
            p = (-(len(pl) + 5)) % 8
            if p < 4:
                return [struct.pack('>IB', len(pl) + p + 1, p) + pl + b'\x00' * p]
        return [data]
    c['mutate'] = mutate
    return c


def reply_unparseable(base):
    """A server that answers the host-key probes' KEXDH_INIT with a well-framed message the tool cannot read a host key from (the reply cut
    short inside its first field).  No key is measured; the audit is otherwise that of the healthy server."""
    c = peers.ServerCfg(base)
    c['mutate'] = _mut(None, 'kexreply', lambda d: [wire.frame(bytes([31]) + b'\x00\x00\x01')])
    return c


def failing():
    base = healthy()['warn']
    F = {}
    F['unresolvable'] = ('unresolvable',)
    F['refused'] = ('refused',)
    F['connect-timeout'] = ('timeout',)
    c = peers.ServerCfg(base); c['mutate'] = _mut(None, 'banner', lambda d: [fakenet.STALL])
    F['silent'] = ('server', c)
    c = peers.ServerCfg(base); c['mutate'] = _mut(None, 'banner', lambda d: [fakenet.EOF])
    F['close-before-banner'] = ('server', c)
    c = peers.ServerCfg(base); c['mutate'] = _mut(None, 'kexinit', lambda d: [fakenet.EOF])
    F['close-after-banner'] = ('server', c)
    c = peers.ServerCfg(base); c['mutate'] = _mut(None, 'kexinit', lambda d: [d[:len(d) // 2], fakenet.EOF])
    F['truncated-kexinit'] = ('server', c)
    c = peers.ServerCfg(base); c['mutate'] = _mut(None, 'kexinit', lambda d: [struct.pack('>I', struct.unpack('>I', d[:4])[0] + 1) + d[4:]])
    F['bad-block-size'] = ('server', c)
    c = peers.ServerCfg(banner=b'SSH-1.5-OldServer_1.2', ssh1={'cmask': 0x48, 'amask': 0x1c}, wrong_version_text=b'Protocol major versions differ.')
    c['mutate'] = _mut(None, 'pkm', lambda d: [d[:-1] + bytes([d[-1] ^ 0x55])])
    F['bad-ssh1-crc'] = ('server', c)
    c = peers.ServerCfg(banner=b'SSH-1.5-OldServer_1.2', ssh1={'cmask': 0x48, 'amask': 0x1c}, wrong_version_text=b'Protocol major versions differ.', refuse_after=1)
    F['ssh1-fallback-refused'] = ('server', c)
    c = peers.ServerCfg(banner=b'SSH-1.5-OldServer_1.2', ssh1={'cmask': 0x48, 'amask': 0x1c}, wrong_version_text=b'Protocol major versions differ.')
    c['mutate'] = _mut(2, 'banner', lambda d: [fakenet.EOF])
    F['ssh1-fallback-closed'] = ('server', c)
    c = peers.ServerCfg(base); c['mutate'] = _mut(2, 'kexreply', lambda d: [bytes(reversed(d))])
    F['probe-garbage'] = ('server', c)
    c = peers.ServerCfg(base); c['mutate'] = _mut(2, 'kexreply', lambda d: [struct.pack('>I', struct.unpack('>I', d[:4])[0] + 3) + d[4:], fakenet.EOF])
    F['probe-bad-block-size'] = ('server', c)
    g = peers.ServerCfg(base)
    g['kexinit'] = dict(base['kexinit'], kex=['curve25519-sha256', 'diffie-hellman-group-exchange-sha256', 'kex-strict-s-v00@openssh.com'])
    g['gex'] = {'style': 'roundup', 'moduli': [4096]}
    g['mutate'] = _mut(None, 'gexgroup', lambda d: [fakenet.STALL])
    F['gex-probe-silent'] = ('server', g)
    return F


def json_options_leg(ck, H):
    """-T -j combined with the other output options: stdout stays one JSON array with one document per target."""
    names = ['good', 'warn', 'fail']
    tg = [('server', H[n]) for n in names]
    scs = []
    for extra in (['-l', 'warn'], ['-l', 'fail'], ['-v'], ['-b'], ['-v', '-l', 'fail'], ['-n', '-b', '-l', 'warn']):
        for threads in (1, 3):
            sc, labels = multi.scenario(tg, threads, None, json_out=True, extra=extra)
            scs.append((sc, extra, threads))
    for (sc, extra, threads), r in zip(scs, runner.run_many([x[0] for x in scs])):
        ck.evaluated()
        if r.get('harness_error') or r.get('hang'):
            raise common.Machinery('run failed: %r' % (r.get('harness_error') or 'hang'))
        replay = {'argv': sc['argv'], 'exit': r['exit'], 'stdout': r['stdout'][-1500:]}
        try:
            doc = json.loads(r['stdout'])
            ok = isinstance(doc, list) and len(doc) == 3 and all(isinstance(e, dict) and 'kex' in e for e in doc)
        except ValueError:
            ok = False
        if not ok:
            ck.violation('json-not-one-array-of-n healthy-only options=%s' % '+'.join(x.lstrip('-') for x in extra if x.startswith('-')),
                         'three healthy targets with -j %s, %d thread(s): stdout is not a JSON array of three reports: %r' % (' '.join(extra), threads, r['stdout'][:100]), replay)
        elif r['exit'] != 3:
            ck.violation('exit-status-not-max healthy-only', 'exit status %r for good+warn+fail targets' % r['exit'], replay)
        else:
            ck.cov['traces_validated_against_impl'] += 1
            ck.nontrivial(('json-options', tuple(extra), threads))


def duplicates_leg(ck, H):
    """A target listed more than once (repeated literally, or spelled with and without its port): every *line* yields one block."""
    a, b = multi.ip_of(0), multi.ip_of(1)
    layouts = [[a, b, a], [a, a], [a, '%s:22' % a, b], [b, a, b, a], ['%s:2222' % a, a, '%s:2222' % a]]
    scs, meta = [], []
    for lines in layouts:
        servers = {(a, 22): H['warn'], (b, 22): H['good'], (a, 2222): H['fail']}
        for threads in (1, 4):
            for js in (False, True):
                scs.append({'argv': (['-j'] if js else ['-n']) + ['--skip-rate-test', '--threads', str(threads), '-T', '{tmp}/targets.txt'], 'servers': servers,
                            'files': {'targets.txt': '\n'.join(lines) + '\n'}})
                meta.append((lines, threads, js))
    for (lines, threads, js), sc, r in zip(meta, scs, runner.run_many(scs)):
        ck.evaluated()
        if r.get('harness_error') or r.get('hang'):
            raise common.Machinery('duplicate-target run failed: %r' % (r.get('harness_error') or 'hang'))
        replay = {'lines': lines, 'threads': threads, 'json': js, 'argv': sc['argv'], 'exit': r['exit'], 'stdout': r['stdout'][-2500:]}
        want_status = 3 if any(l.endswith(':2222') for l in lines) else 2
        n = None
        if js:
            try:
                doc = json.loads(r['stdout'])
                n = len(doc) if isinstance(doc, list) else None
            except ValueError:
                n = None
        else:
            n = len(multi.split_text(r['stdout']))
        if n != len(lines):
            ck.violation('repeated-target-block-count view=%s' % ('json' if js else 'text'),
                         'targets file %r, %d thread(s): %s result blocks for %d listed targets' % (lines, threads, 'unparsable output /' if n is None else n, len(lines)), replay)
        elif r['exit'] != want_status:
            ck.violation('repeated-target-exit-status', 'targets file %r: exit status %r, expected %r' % (lines, r['exit'], want_status), replay)
        else:
            ck.cov['traces_validated_against_impl'] += 1
            ck.nontrivial(('duplicates', tuple(lines), threads, js))


POLICY = """name = "C08 policy"
version = 1
host keys = ssh-ed25519
key exchanges = curve25519-sha256, kex-strict-s-v00@openssh.com
ciphers = aes256-gcm@openssh.com
macs = hmac-sha2-256-etm@openssh.com
"""


def _policy_blocks(stdout):
    """Text of a policy audit over a target list -> {host: result line}"""
    import re
    from harness import report
    out = report.strip_ansi(stdout)
    res = {}
    for m in re.finditer(r'Host:\s+(\S+)\s*\n(?:.*\n)?Result:\s*(.*)', out):
        res.setdefault(m.group(1), []).append(('Passed' in m.group(2)) and 'Failed' not in m.group(2))
    return res


def catchall_leg(ck, H):
    """A scan that ends in an exception only the worker's catch-all handles (a targets-file line in bracket notation whose host name
    no resolver accepts - an empty label makes the lookup raise UnicodeError): the error is reported for that line, every other
    target gets its report, the status is the internal-error status (the highest rank)."""
    bad = ('line', '[bad..name.example]:2222', 'bad..name.example:2222')
    arch = {n: ('server', H[n]) for n in ('good', 'warn', 'fail')}
    singles = {}
    for n in arch:
        for pos in range(3):
            singles[(n, pos)] = runner.run_one(multi.single_scenario(arch[n], pos))
    lists = [('bad', 'good'), ('good', 'bad'), ('fail', 'bad', 'warn'), ('bad', 'bad', 'good'), ('warn', 'good', 'bad')]
    scs, meta = [], []
    for lst in lists:
        for k in (1, len(lst)):
            sc, labels = multi.scenario([bad if n == 'bad' else arch[n] for n in lst], k, None, json_out=False)
            scs.append(sc)
            meta.append((lst, k, labels))
    for (lst, k, labels), sc, r in zip(meta, scs, runner.run_many(scs)):
        ck.evaluated()
        replay = {'targets': lst, 'threads': k, 'argv': sc['argv'], 'exit': r.get('exit'), 'stdout': (r.get('stdout') or '')[-3500:]}
        if r.get('harness_error'):
            raise common.Machinery('run failed: %r' % r.get('harness_error'))
        if r.get('hang'):
            ck.violation('run-never-ends with=worker-catch-all', 'list %r, %d thread(s): the run never ended' % (lst, k), replay)
            continue
        out = r['stdout']
        blocks = multi.split_text(out)
        got = {}
        for b_ in blocks:
            lab = multi.label_of_block(b_, labels)
            if lab:
                got.setdefault(lab, []).append(b_)
        bad_found = False
        for i, n in enumerate(lst):
            if n == 'bad':
                continue
            bl = got.get(labels[i], [])
            ref = multi.normalise_single(singles[(n, i)]['stdout'])
            if len(bl) != 1 or multi.strip_target_line(bl[0]).rstrip('\n') != ref:
                ck.violation('healthy-result-missing-or-changed view=text with=worker-catch-all', 'list %r, %d thread(s): healthy target %s (%s) has %d blocks, expected exactly its single-target report'
                             % (lst, k, labels[i], n, len(bl)), replay)
                bad_found = True
                break
        if bad_found:
            continue
        if out.count('bad..name.example') < lst.count('bad'):
            ck.violation('failed-target-not-reported with=worker-catch-all', 'list %r: the failing line is not mentioned %d time(s)' % (lst, lst.count('bad')), replay)
        elif r['exit'] != 255:
            ck.violation('exit-status-not-max with=worker-catch-all', 'list %r, %d thread(s): exit status %r, an internal error on one target ranks highest (255)' % (lst, k, r['exit']), replay)
        else:
            ck.cov['traces_validated_against_impl'] += 1
            ck.nontrivial(('catchall', lst, k))


def rate_check_leg(ck, H):
    """Target lists audited with the connection-rate check left on, one of the targets turning the check's connections away (reset,
    closed, left silent): the run ends, every target - that one too - gets its report, the status is the fold."""
    warn = H['warn']
    probe = runner.run_one(multi.single_scenario(('server', warn), 0))
    k = probe.get('nconn') or 1
    scs, meta = [], []
    for fname, item in (('reset', fakenet.RESET), ('eof', fakenet.EOF), ('stall', fakenet.STALL)):
        for pos in (0, 1):
            for threads in (1, 2):
                bad = peers.ServerCfg(warn)

                def turn_away(n, kind, idx, data, item=item, k=k):
                    # (connection numbers are per run: the first k connections to this server are its handshake and probes)
                    return [item] if kind == 'banner' and turn_away.seen.setdefault(n, len(turn_away.seen)) >= k else [data]
                turn_away.seen = {}
                bad['mutate'] = turn_away
                tg = [('server', bad), ('server', H['fail'])] if pos == 0 else [('server', H['good']), ('server', bad)]
                sc, labels = multi.scenario(tg, threads, None, json_out=False)
                sc['argv'] = [a for a in sc['argv'] if a != '--skip-rate-test']
                scs.append(sc)
                meta.append((fname, pos, threads, labels))
    for (fname, pos, threads, labels), sc, r in zip(meta, scs, runner.run_many(scs)):
        ck.evaluated()
        replay = {'rate_check_connections': fname, 'position': pos, 'threads': threads, 'argv': sc['argv'], 'exit': r.get('exit'), 'stdout': (r.get('stdout') or '')[-3000:]}
        if r.get('harness_error'):
            raise common.Machinery('run failed: %r' % r.get('harness_error'))
        if r.get('hang'):
            ck.violation('run-never-ends with=rate-check-%s' % fname, 'a target whose rate-check connections are %s, %d thread(s): the run never ended' % (fname, threads), replay)
            continue
        blocks = multi.split_text(r['stdout'])
        labs = [multi.label_of_block(b_, labels) for b_ in blocks]
        if sorted(x for x in labs if x) != sorted(labels):
            ck.violation('block-count with=rate-check-%s' % fname, 'a target whose rate-check connections are %s: result blocks for %r, targets %r' % (fname, labs, labels), replay)
        elif r['exit'] != (3 if pos == 0 else 2):
            ck.violation('exit-status-not-max with=rate-check-%s' % fname, 'exit status %r' % r['exit'], replay)
        else:
            ck.cov['traces_validated_against_impl'] += 1
            ck.nontrivial(('rate-check', fname, pos, threads))


def policy_leg(ck, H, F):
    """Policy audits (-P) over a target list: every healthy target gets exactly one verdict - the verdict of its single-target policy
    audit - whatever else is on the list, and the run's status is the highest-ranked status among the targets."""
    arch = {n: ('server', c) for n, c in H.items() if n in ('good', 'warn', 'fail')}
    fl = ('refused', 'close-after-banner', 'unresolvable', 'gex-probe-silent')       # (archetypes that end read_packet in sys.exit() are the recorded finding of the main leg)
    arch.update({n: F[n] for n in fl})
    names = sorted(arch)
    singles = {}
    sscs = []
    for n in names:
        for pos in range(3):
            sc = multi.single_scenario(arch[n], pos, json_out=False, extra=['-P', '{tmp}/policy.txt'])
            sc['files'] = {'policy.txt': POLICY}
            sscs.append(sc)
    for (n, pos), r in zip([(n, pos) for n in names for pos in range(3)], runner.run_many(sscs)):
        if r.get('harness_error') or r.get('hang'):
            raise common.Machinery('single-target policy run failed for %r' % (n,))
        singles[(n, pos)] = r
    hn = [n for n in names if n in H]
    lists = [(a, b) for a in hn for b in hn] + [(f, h) for f in fl for h in hn] + [(h, f) for f in fl for h in hn] + [('warn', 'refused', 'good'), ('fail', 'warn', 'close-after-banner')]
    scs, meta = [], []
    for lst in lists:
        for k in (1, len(lst)):
            sc, labels = multi.scenario([arch[n] for n in lst], k, None, json_out=False, extra=['-P', '{tmp}/policy.txt'])
            sc['files']['policy.txt'] = POLICY
            scs.append(sc)
            meta.append((lst, k, labels))
    for (lst, k, labels), sc, r in zip(meta, scs, runner.run_many(scs)):
        ck.evaluated()
        replay = {'targets': lst, 'threads': k, 'argv': sc['argv'], 'exit': r.get('exit'), 'stdout': (r.get('stdout') or '')[-3000:]}
        if r.get('harness_error'):
            raise common.Machinery('policy list run failed: %r' % r.get('harness_error'))
        tag = 'with=%s' % '+'.join(sorted({n for n in lst if n not in H})) if any(n not in H for n in lst) else 'healthy-only'
        if r.get('hang'):
            ck.violation('policy-list-run-never-ends %s' % tag, 'policy audit of %r, %d thread(s): the run never ended' % (lst, k), replay)
            continue
        want = max((singles[(n, i)]['exit'] for i, n in enumerate(lst)), key=lambda s_: RANK.get(s_, 9))
        got = _policy_blocks(r['stdout'])
        bad = False
        for i, n in enumerate(lst):
            if n not in H:
                continue
            host = labels[i].rsplit(':', 1)[0]
            ref = _policy_blocks(singles[(n, i)]['stdout']).get(host)
            if not ref or len(ref) != 1:
                raise common.Machinery('cannot read the single-target policy verdict of %s' % n)
            if got.get(host) != ref:
                ck.violation('policy-list-healthy-verdict-missing-or-changed %s' % tag, 'policy audit of %r, %d thread(s): target %s (%s) has verdicts %r, its own policy audit gives %r'
                             % (lst, k, host, n, got.get(host), ref), replay)
                bad = True
                break
        if not bad and r['exit'] != want:
            ck.violation('policy-list-exit-status-not-max %s' % tag, 'policy audit of %r, %d thread(s): exit status %r, highest-ranked target status is %r' % (lst, k, r['exit'], want), replay)
            bad = True
        if not bad:
            ck.cov['traces_validated_against_impl'] += 1
            ck.nontrivial(('policy-list', lst, k))


def policy_json_leg(ck, H):
    """Policy audits of a target list with -j: standard output is one JSON array with one element per target - the element that target's own
    -P -j audit prints - whatever the other targets are.  (Healthy targets only: what a failing target leaves in a JSON document is the
    recorded finding of the main leg.)"""
    names = [n for n in sorted(H) if n in ('good', 'warn', 'fail', 'warn-reply-unparseable', 'warn-short-padding', 'warn-one-connection')]
    arch = {n: ('server', H[n]) for n in names}
    sscs = []
    for n in names:
        for pos in range(3):
            sc = multi.single_scenario(arch[n], pos, json_out=True, extra=['-P', '{tmp}/policy.txt'])
            sc['files'] = {'policy.txt': POLICY}
            sscs.append(sc)
    singles = {}
    for key, r in zip([(n, pos) for n in names for pos in range(3)], runner.run_many(sscs)):
        try:
            if r.get('harness_error') or r.get('hang'):
                raise ValueError('run failed')
            singles[key] = json.loads(r['stdout'])
        except ValueError as e:
            # a target that is audited without complaint prints a JSON document when asked to: if it does not, that is the finding
            ck.evaluated()
            ck.violation('policy-json-single-target-not-json with=%s' % key[0], 'policy audit of the single target %s with -j: standard output is not a JSON document (%s)' % (key[0], e),
                         {'target': key[0], 'stdout': (r.get('stdout') or '')[-2000:], 'exit': r.get('exit')})
            return
    lists = [(a, b) for a in names for b in names] + [('warn', 'warn-reply-unparseable', 'good'), ('warn-reply-unparseable', 'fail', 'warn-short-padding')]
    lists = [l for l in lists if all(n in arch for n in l)]
    scs, meta = [], []
    for lst in lists:
        for k in (1, len(lst)):
            sc, labels = multi.scenario([arch[n] for n in lst], k, None, json_out=True, extra=['-P', '{tmp}/policy.txt'])
            sc['files']['policy.txt'] = POLICY
            scs.append(sc)
            meta.append((lst, k, labels))
    for (lst, k, labels), sc, r in zip(meta, scs, runner.run_many(scs)):
        ck.evaluated()
        replay = {'targets': lst, 'threads': k, 'argv': sc['argv'], 'exit': r.get('exit'), 'stdout': (r.get('stdout') or '')[-3000:]}
        if r.get('harness_error'):
            raise common.Machinery('policy list run failed: %r' % r.get('harness_error'))
        tag = 'with=%s' % '+'.join(sorted(set(lst)))
        if r.get('hang'):
            ck.violation('policy-list-run-never-ends %s' % tag, 'policy audit (-j) of %r, %d thread(s): the run never ended' % (lst, k), replay)
            continue
        try:
            doc = json.loads(r['stdout'])
        except ValueError:
            ck.violation('policy-json-list-unparsable %s' % tag, 'policy audit (-j) of the healthy targets %r, %d thread(s): standard output is not one JSON document' % (lst, k), replay)
            continue
        if not isinstance(doc, list) or len(doc) != len(lst):
            ck.violation('policy-json-list-element-count %s' % tag, 'policy audit (-j) of %r, %d thread(s): %s, %d targets listed'
                         % (lst, k, ('%d elements' % len(doc)) if isinstance(doc, list) else 'not an array', len(lst)), replay)
            continue
        ok = True
        by_host = {el.get('host'): el for el in doc if isinstance(el, dict)}
        for i, n in enumerate(lst):
            host = labels[i].rsplit(':', 1)[0]
            if by_host.get(host) != singles[(n, i)]:
                ck.violation('policy-json-list-element-differs %s' % tag, 'policy audit (-j) of %r, %d thread(s): the element of %s (%s) is not the document of its own audit' % (lst, k, host, n), replay)
                ok = False
                break
        if ok:
            ck.cov['traces_validated_against_impl'] += 1
            ck.nontrivial(('policy-json-list', lst, k))


def schedule_leg(ck, tier, H, F, rnd):
    """A healthy target whose findings come from its probes, next to a target that fails, on two worker threads driven through the
    schedules of SshSched.tla: the healthy target's JSON result is its single-target result under every schedule."""
    hk = {'rsa-sha2-512': peers.rsa_blob(1024), 'ssh-rsa': peers.rsa_blob(1024), 'ssh-ed25519': peers.ed25519_blob()}
    probed = peers.ServerCfg(banner=b'SSH-2.0-OpenSSH_7.4', kexinit={'kex': ['curve25519-sha256', 'diffie-hellman-group-exchange-sha256'], 'key': ['rsa-sha2-512', 'ssh-rsa', 'ssh-ed25519'],
                                                                      'enc': ['aes128-ctr'], 'mac': ['hmac-sha2-256'], 'comp': ['none']}, hostkeys=hk,
                             gex={'style': 'roundup', 'moduli': [1024]})
    others = ['close-after-banner', 'truncated-kexinit', 'refused'] + (['gex-probe-silent', 'close-before-banner', 'ssh1-fallback-closed'] if tier == 'thorough' else [])
    others = [('fail', ('server', H['fail']))] + [(n, F[n]) for n in others]
    total = 0
    for oname, other in others:
        for order in ((0, 1), (1, 0)):
            tg = [('server', probed), other] if order == (0, 1) else [other, ('server', probed)]
            hi = 0 if order == (0, 1) else 1
            sc, labels = multi.scenario(tg, 2, None, json_out=True)
            ref = runner.run_many([multi.single_scenario(('server', probed), hi, json_out=True)])[0]
            probe = runner.run_many([multi.scheduled(sc, [[0, -1], [1, -1]], labels)])[0]
            if ref.get('harness_error') or ref.get('hang') or probe.get('harness_error') or not probe.get('sched'):
                raise common.Machinery('schedule leg: reference runs failed (%s)' % oname)
            ref_doc = json.loads(ref['stdout'])
            ops = [max(1, probe['sched']['ops'].get(l, 0)) for l in labels]
            plans, _ = multi.schedule_plans(ck, ops, 1 if tier == 'quick' else 2)
            cap = 250 if tier == 'quick' else 3000
            if len(plans) > cap:
                plans = rnd.sample(plans, cap)
            for pl, r in zip(plans, runner.run_many([multi.scheduled(sc, pl, labels) for pl in plans])):
                ck.evaluated()
                total += 1
                replay = {'targets': ['probed-1024' if i == hi else oname for i in range(2)], 'plan': pl, 'argv': sc['argv'], 'exit': r.get('exit'), 'stdout': (r.get('stdout') or '')[-3000:]}
                if r.get('harness_error'):
                    raise common.Machinery('scheduled run failed: %r' % r.get('harness_error'))
                if r.get('hang'):
                    ck.violation('run-never-ends scheduled with=%s' % oname, 'healthy target next to %s under the schedule %r: the run never ended' % (oname, pl), replay)
                    continue
                out = r['stdout']
                i0 = out.find('{"additional_notes"') if '"additional_notes"' in out else -1
                el = None
                try:
                    doc = json.loads(out)
                    el = next((e for e in doc if isinstance(e, dict) and e.get('target') == labels[hi]), None)
                except ValueError:
                    # (the raw error text of the failing target inside the array is the recorded finding json-array-broken: find the healthy element)
                    dec = json.JSONDecoder()
                    for m in range(len(out)):
                        if out[m] == '{':
                            try:
                                cand, _ = dec.raw_decode(out[m:])
                            except ValueError:
                                continue
                            if isinstance(cand, dict) and cand.get('target') == labels[hi]:
                                el = cand
                                break
                if el is None:
                    ck.violation('healthy-result-missing scheduled with=%s' % oname, 'healthy target next to %s under the schedule %r: no result for it' % (oname, pl), replay)
                elif el != ref_doc:
                    ck.violation('healthy-result-changed scheduled with=%s' % oname, 'healthy target next to %s under the schedule %r: its JSON result differs from its single-target result' % (oname, pl), replay)
                else:
                    ck.cov['traces_validated_against_impl'] += 1
                    ck.nontrivial(('scheduled', oname, order, json.dumps(pl)))
    ck.notes.append('schedule leg: %d scheduled two-target runs' % total)


def run(tier):
    ck = common.Check('C08', tier)
    rnd = random.Random(ck.seed)
    res = tlc.run('MC_SshMulti', multi.mc_cfg('Triples08'))
    ck.add_tlc(res)
    common.require(res.ok, 'SshMulti: %s violated on the model:\n%s' % (res.violated, '\n'.join(res.trace[-40:])))
    bad = tlc.run('MC_SshMulti', multi.mc_cfg('Pairs08', sysexit='escapes', invs=['Blocks'], live=False))
    common.require(bad.violated == 'Blocks', 'Blocks should fail when a worker SystemExit escapes (vacuity guard)')
    ck.log('model: Blocks/ExitIsMax/Framing/RunEnds hold when SystemExit is contained (%d states); they fail when it escapes, as expected' % res.distinct)

    H, F = healthy(), failing()
    # healthy targets whose probes cannot be made: the first connection is served, every later one is refused / turned away.
    # Their result is a report (all of it from the first connection), like any healthy target's.
    c1 = peers.ServerCfg(H['warn']); c1['refuse_after'] = 1
    c2 = peers.ServerCfg(H['fail']); c2['maxstartups_after'] = 1
    H = dict(H, **{'warn-one-connection': c1, 'fail-probes-turned-away': c2, 'warn-short-padding': short_padding(H['warn']), 'warn-reply-unparseable': reply_unparseable(H['warn'])})
    arch = {n: ('server', c) for n, c in H.items()}
    arch.update(F)
    # single-target references
    names = sorted(arch)
    sscs, sidx = [], []
    for n in names:
        for js in (False, True):
            for pos in range(3):
                extra = []
                sscs.append(multi.single_scenario(arch[n], pos, json_out=js, extra=extra))
                sidx.append((n, js, pos))
    sres = dict(zip(sidx, runner.run_many(sscs)))
    status_of = {n: sres[(n, False, 0)]['exit'] for n in names}
    for n in sorted(H):
        if status_of[n] != {'good': 0, 'warn': 2, 'fail': 3}[n.split('-')[0]]:
            # the three plain archetypes must be healthy (else nothing below means anything); a derived one that this tree does not audit to
            # the end is, for this tree, one more failing target: the lists it is on are judged as such
            common.require('-' in n, 'healthy archetype %s exits %r' % (n, status_of[n]))
            ck.log('archetype %s is not audited to the end by this tree (status %r): treated as a failing target' % (n, status_of[n]))
            F = dict(F, **{n: arch[n]})
            H = {k_: v for k_, v in H.items() if k_ != n}
    lists = []
    hn, fn = sorted(H), sorted(F)
    for f in fn:
        for h in hn:
            lists.append((f, h))
            lists.append((h, f))
    lists += list(itertools.product(hn, repeat=2))
    lists += [(h,) for h in hn] + [(f,) for f in fn]          # a targets file with a single line is a target list like any other
    lists += [(f, f) for f in fn]
    if tier == 'thorough':
        for f in fn:
            for h1, h2 in itertools.product(hn, repeat=2):
                lists += [(f, h1, h2), (h1, f, h2), (h1, h2, f)]
        lists += rnd.sample(list(itertools.product(fn, repeat=2)), 40)
    else:
        for f in fn:
            h1, h2 = rnd.choice(hn), rnd.choice(hn)
            lists.append(rnd.choice([(f, h1, h2), (h1, f, h2), (h1, h2, f)]))
    scs, meta = [], []
    for lst in lists:
        tg = [arch[n] for n in lst]
        for k in ((1, 2, 3) if tier == 'thorough' else (1, len(lst))):
            if k > len(lst):
                continue
            for js in (False, True):
                extra = ['-1'] if False else []
                sc, labels = multi.scenario(tg, k, None, json_out=js, extra=extra)
                scs.append(sc)
                meta.append((lst, k, js, labels))
    ck.log('%d multi-target scenarios' % len(scs))
    results = runner.run_many(scs)
    traces, tmeta = [], []
    roots = {}
    for sc, m, r in zip(scs, meta, results):
        lst, k, js, labels = m
        ck.evaluated()
        if r.get('harness_error'):
            raise common.Machinery('multi-target run failed: %r' % r.get('harness_error'))
        if r.get('hang'):
            ck.violation('run-never-ends with=%s' % '+'.join(sorted(set(n for n in lst if n in F))),
                         'list %r, %d thread(s): the run never ended (a read with no time limit on a peer that stays silent, or no progress within the harness watchdog): some wait has no bound' % (lst, k),
                         {'targets': lst, 'threads': k, 'json': js, 'argv': sc['argv']})
            continue
        ck.nontrivial((lst, k, js))
        bad_names = [n for n in lst if n in F]
        tag = 'with=%s' % '+'.join(sorted(set(bad_names))) if bad_names else 'healthy-only'
        replay = {'targets': lst, 'threads': k, 'json': js, 'argv': sc['argv'], 'exit': r['exit'], 'stdout': r['stdout'][-3000:],
                  'single_status': {n: status_of[n] for n in lst}}
        out = r['stdout']
        symptoms = []
        want = max((status_of[n] for n in lst), key=lambda s: RANK.get(s, 9))
        if r['exit'] != want:
            symptoms.append(('exit-status-not-max %s' % tag, 'list %r, %d thread(s): exit status %r, highest-ranked target status is %r' % (lst, k, r['exit'], want)))
        if js:
            try:
                doc = json.loads(out)
                ok = isinstance(doc, list) and len(doc) == len(lst)
            except ValueError:
                doc, ok = None, False
            if not ok:
                symptoms.append(('json-not-one-array-of-n %s' % tag, 'list %r: stdout is not a single JSON array with %d elements' % (lst, len(lst))))
            else:
                for el in doc:
                    if isinstance(el, dict) and el.get('target') in labels:
                        i = labels.index(el['target'])
                        if lst[i] in H and el != json.loads(sres[(lst[i], True, i)]['stdout']):
                            symptoms.append(('healthy-result-changed view=json %s' % tag, 'healthy target %s differs from its single-target result' % lst[i]))
        else:
            blocks = multi.split_text(out)
            if len(blocks) != len(lst):
                symptoms.append(('block-count %s' % tag, 'list %r, %d thread(s): %d result blocks for %d targets' % (lst, k, len(blocks), len(lst))))
            got = {}
            for b_ in blocks:
                lab = multi.label_of_block(b_, labels)
                if lab:
                    got.setdefault(lab, []).append(b_)
            for i, n in enumerate(lst):
                if n in H:
                    bl = got.get(labels[i], [])
                    ref = multi.normalise_single(sres[(n, False, i)]['stdout'])
                    if len(bl) != 1 or multi.strip_target_line(bl[0]).rstrip('\n') != ref:
                        symptoms.append(('healthy-result-missing-or-changed view=text %s' % tag,
                                         'healthy target %s (%s): %d blocks, expected exactly its single-target report' % (labels[i], n, len(bl))))
        # root causes with many symptoms are reported once, by cause
        root = None
        if symptoms and ('invalid ssh packet (block size)' in out or 'checksum CRC32 mismatch' in out):
            root = ('run-aborted cause=sys.exit-in-worker-thread at=ssh_socket.read_packet',
                    'list %r, %d thread(s), %s: a target answering with a mis-sized packet / bad CRC makes read_packet call sys.exit() inside the worker; the '
                    'SystemExit resurfaces in the main thread and ends the run (status %r): %s' % (lst, k, 'JSON' if js else 'text', r['exit'], '; '.join(d for _, d in symptoms)))
        elif symptoms and js and '[exception]' in out and doc is None:
            root = ('json-array-broken cause=raw-error-text-element',
                    'list %r: the error of an unreachable/failed target is printed as raw text inside the JSON array, so stdout is not JSON' % (lst,))
        if root:
            ck.violation(root[0], root[1], replay)
            roots[len(traces)] = root[0]
        else:
            for sig, desc in symptoms:
                ck.violation(sig, desc, replay)
        tr = multi.build_trace(r, labels, k, js)
        traces.append(tr)
        tmeta.append((m, tag))
    duplicates_leg(ck, H)
    json_options_leg(ck, H)
    policy_leg(ck, H, F)
    policy_json_leg(ck, H)
    catchall_leg(ck, H)
    rate_check_leg(ck, H)
    schedule_leg(ck, tier, H, F, rnd)
    verdicts = multi.validate(ck, traces)
    for j, ((m, tag), tr, (ok, info)) in enumerate(zip(tmeta, traces, verdicts)):
        if j in roots:
            if ok:
                raise common.Machinery('TraceMulti accepts a run that breaks the property (%s): the trace specification is too weak' % roots[j])
            continue
        if ok:
            ck.cov['traces_validated_against_impl'] += 1
        else:
            ne = (info or {}).get('next_event') or {}
            sig = 'invariant=%s %s' % (info['invariant'], tag) if info and 'invariant' in info else 'trace-rejected next=%s %s' % (ne.get('e'), tag)
            if ne.get('e') == 'end' and ne.get('ret') == -99:
                # the worker function was left through a BaseException (SystemExit): same root cause, seen at the mechanism level
                sig = 'run-aborted cause=sys.exit-in-worker-thread at=ssh_socket.read_packet'
            ck.violation(sig, 'TraceMulti rejects the run %r threads=%d: %s' % (m[0], m[1], info), {'trace': tr, 'info': info})
    ck.sample({'targets': meta[0][0], 'threads': meta[0][1], 'json': meta[0][2], 'trace': traces[0]['ev']})
    ck.cov['rule'] = ('TLC: all lists of length <= 3 over 6 outcome archetypes x 1..3 threads x every interleaving (safety + liveness); real runs: healthy {good, warn, fail} '
                      'mixed with 11 failure archetypes in every position of pairs (+ triples), 1..n threads, text and JSON; traces validated against TraceMulti.tla. '
                      'distinct = (list, threads, view)')
    return ck.finish()
