"""C04 - Terrapin exposure is flagged exactly per the published rule.

TLC enumerates the whole class space (role x marker x ChaCha x CBC x ETM x others) of SshRating in
Mode "mc", checking TerrapinExact / NeverAddTerrapinProne on every state, and emits each class with
its expected report.  Every class is replayed through the real CLI (server role: fake server; client
role: -c with a scripted client).  The classes are then instantiated by rotation with every matching
database name and with unknown names of the same shape; those concrete cases go back through TLC
(Mode "oracle") for their expected reports and are replayed too.
"""
import random

from harness import common, runner, report
from checks import rating


def rotation_cases(tb, rnd, tier):
    db = tb['db2']
    cbc = [n for n in db['enc'] if rating._terrapin_prone('enc', n) and not n.startswith('chacha20')]
    cha = [n for n in db['enc'] if n.startswith('chacha20-poly1305')]
    etm = [n for n in db['mac'] if n.endswith('-etm@openssh.com')]
    unk = {'enc': ['foo-cbc', 'bar-cbc@openssh.org', 'baz-cbc@ssh.com', 'chacha20-poly1305@example.org', 'chacha20-poly1305x'],
           'mac': ['foo-etm@openssh.com', 'hmac-sha3-512-etm@openssh.com']}
    other_enc = [n for n in db['enc'] if not rating._terrapin_prone('enc', n)]
    other_mac = [n for n in db['mac'] if not rating._terrapin_prone('mac', n)]
    cases = []
    cid = [0]

    def add(role, marker, enc, mac, tag):
        cid[0] += 1
        kex = ['curve25519-sha256']
        if marker == 'own':
            kex.append(rating_marker(role))
        elif marker == 'other':
            kex.append(rating_marker('client' if role == 'server' else 'server'))
        sw = {'product': 'OpenSSH', 'c': [9, 6], 'p': ['none', 0]} if role == 'server' else None
        c = rating.mk_case(cid[0], role=role, kex=kex, key=['ssh-ed25519'], enc=enc, mac=mac, sw=sw)
        c['tag'] = tag
        cases.append(c)

    roles = ('server', 'client')
    markers = ('none', 'own', 'other')
    for role in roles:
        for marker in markers:
            for n in cha:
                add(role, marker, [n, rnd.choice(other_enc)], [rnd.choice(other_mac)], 'chacha')
            for n in cbc:
                add(role, marker, [rnd.choice(other_enc), n], [rnd.choice(etm)], 'cbc+etm')       # paired
                if tier == 'thorough' or marker == 'none':
                    add(role, marker, [n], [rnd.choice(other_mac)], 'cbc-alone')                   # not paired
            for n in etm:
                add(role, marker, [rnd.choice(cbc), rnd.choice(other_enc)], [n], 'etm+cbc')
                if tier == 'thorough' or marker == 'none':
                    add(role, marker, [rnd.choice(other_enc)], [n, rnd.choice(other_mac)], 'etm-alone')
            # unknown names of the same shape
            for n in unk['enc']:
                add(role, marker, [n, rnd.choice(other_enc)], [rnd.choice(etm)], 'unknown-shape')
            for n in unk['mac']:
                add(role, marker, [rnd.choice(cbc)], [n], 'unknown-shape')
            # the client-to-server lists differ from the server-to-client lists (server role: the report is about the latter)
            if role == 'server':
                cid[0] += 1
                c = rating.mk_case(cid[0], role=role, kex=['curve25519-sha256'] + ([rating_marker(role)] if marker == 'own' else []), key=['ssh-ed25519'],
                                   enc=[rnd.choice(cbc), rnd.choice(other_enc)], mac=[rnd.choice(etm)], enc_c2s=[rnd.choice(other_enc)], mac_c2s=[rnd.choice(other_mac)],
                                   sw={'product': 'OpenSSH', 'c': [9, 6], 'p': ['none', 0]})
                c['tag'] = 'asymmetric-directions'
                cases.append(c)
                cid[0] += 1
                c = rating.mk_case(cid[0], role=role, kex=['curve25519-sha256'] + ([rating_marker(role)] if marker == 'own' else []), key=['ssh-ed25519'],
                                   enc=[rnd.choice(other_enc)], mac=[rnd.choice(other_mac)], enc_c2s=cha + [rnd.choice(cbc)], mac_c2s=[rnd.choice(etm)],
                                   sw={'product': 'OpenSSH', 'c': [9, 6], 'p': ['none', 0]})
                c['tag'] = 'asymmetric-directions'
                cases.append(c)
            # next to what the other closing steps of the report do: an OpenSSH server whose group exchange measures 2048 bits (the
            # fallback note and its recommendation handling run just before the Terrapin step), several ChaCha20-Poly1305 spellings at once
            if role == 'server':
                for enc, mac in ((cha + ['aes256-ctr'], ['hmac-sha2-256']), ([cbc[0], 'aes256-ctr'], [etm[0]]), (['aes256-ctr'], ['hmac-sha2-256'])):
                    cid[0] += 1
                    kex = ['curve25519-sha256', 'diffie-hellman-group-exchange-sha256'] + ([rating_marker(role)] if marker == 'own' else [])
                    c = rating.mk_case(cid[0], role=role, kex=kex, key=['ssh-ed25519'], enc=enc, mac=mac, dh={'diffie-hellman-group-exchange-sha256': (2048, False)},
                                       sw={'product': 'OpenSSH', 'c': [8, 9], 'p': ['p', 1]})
                    c['tag'] = 'openssh-gex-2048'
                    cases.append(c)
            add(role, marker, cha + ['chacha20-poly1305@example.org', 'aes128-ctr'], [rnd.choice(other_mac)], 'several-chacha')
            # a peer that announces protocol 1.99 (SSH-2 with SSH-1 compatibility) is audited over SSH-2 like any other: same rule
            for enc, mac in ((cha + ['aes256-ctr'], ['hmac-sha2-256']), ([cbc[0]], [etm[0]])):
                cid[0] += 1
                kex = ['curve25519-sha256'] + ([rating_marker(role)] if marker == 'own' else [rating_marker('client' if role == 'server' else 'server')] if marker == 'other' else [])
                c = rating.mk_case(cid[0], role=role, kex=kex, key=['ssh-ed25519'], enc=enc, mac=mac, banner='SSH-1.99-OpenSSH_3.9p1',
                                   sw={'product': 'OpenSSH', 'c': [3, 9], 'p': ['p', 1]})
                c['tag'] = 'announces-1.99'
                cases.append(c)
            # several at once, duplicates
            add(role, marker, cha + cbc[:3] + [cbc[0]], etm[:2] + [etm[0]], 'many+dups')
    return cases


def rating_marker(role):
    return 'kex-strict-s-v00@openssh.com' if role == 'server' else 'kex-strict-c-v00@openssh.com'


def rate_note_leg(ck):
    """The advisory note next to the other closing notes: a server with the marker whose connection-rate check also earns a note
    (no --skip-rate-test, a DH key exchange, no throttling) still gets the advisory naming exactly the algorithms due."""
    S = 'kex-strict-s-v00@openssh.com'
    shapes = [dict(kex=['diffie-hellman-group14-sha256', 'curve25519-sha256', S], enc=['chacha20-poly1305@openssh.com', 'aes256-ctr'], mac=['hmac-sha2-256']),
              dict(kex=['diffie-hellman-group16-sha512', S], enc=['aes128-cbc', 'aes256-ctr'], mac=['hmac-sha2-256-etm@openssh.com']),
              dict(kex=['diffie-hellman-group14-sha256'], enc=['chacha20-poly1305@openssh.com'], mac=['hmac-sha2-256'])]
    cases = [rating.mk_case(800 + i, kex=sh['kex'], key=['ssh-ed25519'], enc=sh['enc'], mac=sh['mac']) for i, sh in enumerate(shapes)]
    exp = rating.evaluate(ck, cases)
    scs = []
    for c in cases:
        for v in ('text', 'json'):
            sc = rating.scenario(c, v)
            sc['argv'] = [a for a in sc['argv'] if a != '--skip-rate-test']
            sc['rtt'] = 0.0002
            scs.append((sc, c, v))
    for (sc, c, v), r in zip(scs, runner.run_many([x[0] for x in scs])):
        ck.evaluated()
        if r.get('harness_error') or r.get('hang'):
            raise common.Machinery('run failed: %r' % (r.get('harness_error') or 'hang'))
        replay = {'case': c, 'view': v, 'argv': sc['argv'], 'exit': r['exit'], 'stdout': r['stdout'][-3000:]}
        if 'throttling' not in r['stdout']:
            # the scenario itself is judged on the JSON view (which carries the notes as data); a text report that has lost the note while
            # the JSON one has it is the tool's doing, and the comparison below says what else went missing with it
            if v == 'json':
                raise common.Machinery('the rate check of this leg was expected to produce its note (it did not): %r' % r['stdout'][-400:])
            ck.log('rate-note leg: the text report of case %d carries no rate note' % c['id'])
        d = rating.compare_terrapin(c, exp[c['id']], text=report.parse_text(r['stdout'])) if v == 'text' else rating.compare_terrapin(c, exp[c['id']], js=report.parse_json(r['stdout']))
        for sig, desc in d:
            ck.violation('with-rate-note-' + sig, '[the rate check adds its own note] %s' % desc, replay)
        if not d:
            ck.cov['traces_validated_against_impl'] += 1
            ck.nontrivial(('rate-note', c['id'], v))


def sequence_leg(ck, tier):
    """Several servers in one invocation (-T): a server's Terrapin marks are decided by its own KEXINIT, whatever was audited before
    it in the same process (exposed peers before marked ones, paired before unpaired, and the other way round)."""
    import json
    from checks import multi
    S, C = 'kex-strict-s-v00@openssh.com', 'kex-strict-c-v00@openssh.com'
    shapes = [dict(kex=['curve25519-sha256'], enc=['chacha20-poly1305@openssh.com', 'aes128-cbc', 'aes256-ctr'], mac=['hmac-sha2-256-etm@openssh.com', 'umac-128-etm@openssh.com']),
              dict(kex=['curve25519-sha256', S], enc=['chacha20-poly1305@openssh.com', 'aes128-cbc', 'aes256-ctr'], mac=['hmac-sha2-256-etm@openssh.com', 'umac-128-etm@openssh.com']),
              dict(kex=['curve25519-sha256'], enc=['aes128-cbc', '3des-cbc', 'aes256-ctr'], mac=['hmac-sha2-256', 'hmac-sha1']),
              dict(kex=['curve25519-sha256', C], enc=['chacha20-poly1305@openssh.com'], mac=['hmac-sha2-512-etm@openssh.com']),
              dict(kex=['curve25519-sha256'], enc=['aes256-ctr'], mac=['hmac-sha2-256-etm@openssh.com', 'hmac-sha1-etm@openssh.com'])]
    cases = [rating.mk_case(700 + i, kex=sh['kex'], key=['ssh-ed25519'], enc=sh['enc'], mac=sh['mac']) for i, sh in enumerate(shapes)]
    exp = rating.evaluate(ck, cases)
    orders = [(0, 1, 2, 3, 4), (4, 3, 2, 1, 0), (1, 0, 1), (2, 0, 2, 4), (0, 2), (0, 4, 1)]
    scs = []
    for o in orders:
        for threads in (1, 3):
            for js in ((True, False) if threads == 1 else (True,)):       # text blocks carry no label: only compared where the order is fixed
                sc, labels = multi.scenario([('server', rating.server_cfg(cases[i])) for i in o], threads, tuple(range(len(o))) if threads == 1 else None, json_out=js)
                scs.append((sc, labels, o, threads, js))
    for (sc, labels, o, threads, js), r in zip(scs, runner.run_many([x[0] for x in scs])):
        ck.evaluated()
        if r.get('harness_error') or r.get('hang'):
            raise common.Machinery('target-list run failed: %r' % (r.get('harness_error') or 'hang'))
        replay = {'order': o, 'threads': threads, 'argv': sc['argv'], 'exit': r['exit'], 'stdout': r['stdout'][-3000:]}
        docs = {}
        try:
            if js:
                for el in json.loads(r['stdout']):
                    docs['%s:%s' % (el.get('target', ':').rsplit(':', 1)[0], el.get('target', ':22').rsplit(':', 1)[1])] = el
            else:
                blocks = multi.split_text(r['stdout'])
                for lab, b in zip(labels, blocks):
                    docs[lab] = report.parse_text(b)
        except (ValueError, report.ParseError):
            ck.violation('target-list-unparsable view=%s' % ('json' if js else 'text'), 'cannot parse the output of a -T run', replay)
            continue
        bad = False
        for pos, (lab, i) in enumerate(zip(labels, o)):
            if lab not in docs:
                continue
            d = rating.compare_terrapin(cases[i], exp[cases[i]['id']], js=docs[lab]) if js else rating.compare_terrapin(cases[i], exp[cases[i]['id']], text=docs[lab])
            for sig, desc in d:
                ck.violation('sequence-' + sig + ' threads=%d' % threads, '[target %d of %r, %d thread(s)] %s' % (pos + 1, o, threads, desc), replay)
                bad = True
        if not bad:
            ck.cov['traces_validated_against_impl'] += 1
            ck.nontrivial(('sequence', o, threads, js))


def run(tier):
    ck = common.Check('C04', tier)
    rnd = random.Random(ck.seed)
    tb = rating.tables()

    # 1. exhaustive class space, enumerated and decided by TLC
    mc = rating.evaluate(ck, mode='mc', workers=None)
    ck.log('TLC enumerated %d classes, TerrapinExact holds on the rule' % len(mc))
    cases = []
    expected = {}
    for k, e in enumerate(mc):
        ec = e['case']
        c = rating.mk_case(100000 + k, role=ec['role'], kex=ec['kex'], key=ec['key'], enc=ec['enc'], mac=ec['mac'])
        c['tag'] = 'class'
        cases.append(c)
        e['id'] = c['id']
        expected[c['id']] = e
    # 2. rotation through database names and unknown shapes: TLC as oracle
    rot = rotation_cases(tb, rnd, tier)
    # names the database knows as a cipher *and* as a MAC (chacha20-poly1305@openssh.com, the AEAD names): the mark belongs to the
    # cipher; the same spelling in the MAC list is not an encrypt-then-MAC MAC
    cid = max(c['id'] for c in rot) + 1 if rot else 1
    for role in ('server', 'client'):
        for strict in (False, True):
            kx = ['curve25519-sha256'] + ([rating_marker(role)] if strict else [])
            for enc, mac in ((['chacha20-poly1305@openssh.com', 'aes128-ctr'], ['chacha20-poly1305@openssh.com', 'hmac-sha2-256']),
                             (['aes128-cbc', 'aes256-gcm@openssh.com'], ['hmac-sha2-256-etm@openssh.com', 'chacha20-poly1305@openssh.com', 'aes256-gcm']),
                             (['aes128-ctr'], ['chacha20-poly1305@openssh.com', 'AEAD_AES_128_GCM'])):
                c = rating.mk_case(cid, role=role, kex=kx, key=['ssh-ed25519'], enc=enc, mac=mac)
                c['tag'] = 'two-category-name'
                rot.append(c)
                cid += 1
    expected.update(rating.evaluate(ck, rot))
    cases += rot
    ck.log('%d rotated cases evaluated by TLC' % len(rot))

    views = ('text', 'json')
    scs = [rating.scenario(c, v) for c in cases for v in views]
    results = runner.run_many(scs)
    k = 0
    for c in cases:
        exp = expected[c['id']]
        for v in views:
            res = results[k]
            k += 1
            ck.evaluated()
            if exp['exposed'] or exp['advisory']:
                ck.nontrivial((c['role'], tuple(c['kex']), tuple(c['enc']), tuple(c['mac'])))
            if res.get('harness_error') or res.get('hang'):
                raise common.Machinery('run failed: %r' % (res.get('harness_error') or 'hang'))
            replay = {'case': c, 'view': v, 'expected': exp, 'stdout': res['stdout'][-4000:], 'exit': res['exit'], 'argv': scs[k - 1]['argv']}
            if res['exit'] not in (0, 2, 3):
                exc, loc = rating.crash_signature(res)
                ck.violation('no-report exit=%s uncaught=%s at=%s shape=%s' % (res['exit'], exc, loc, c['tag']),
                             'audit of a %s peer with enc=%r mac=%r ended with status %s (%s in %s) instead of a report'
                             % (c['role'], c['enc'], c['mac'], res['exit'], exc, loc), replay)
                continue
            try:
                if v == 'text':
                    diffs = rating.compare_terrapin(c, exp, text=report.parse_text(res['stdout']))
                else:
                    diffs = rating.compare_terrapin(c, exp, js=report.parse_json(res['stdout']))
            except (report.ParseError, ValueError) as e:
                raise common.Machinery('cannot parse the %s report: %r' % (v, e))
            for sig, desc in diffs:
                ck.violation(sig, '[%s peer, case family %s] %s' % (c['role'], c['tag'], desc), replay)
            ck.cov['traces_validated_against_impl'] += 1
        if len(ck.cov['samples']) < 4 and (exp['exposed'] or exp['advisory']):
            ck.sample({'case': {x: c[x] for x in ('role', 'kex', 'enc', 'mac')}, 'expected_warned':
                       [l['name'] for cat in ('enc', 'mac') for l in exp['lines'][cat] if rating.TERRAPIN in l['warn']],
                       'expected_advisory': exp['advisory']})
    sequence_leg(ck, tier)
    rate_note_leg(ck)
    ck.cov['rule'] = ('TLC enumerates every class role{server,client} x marker{none,S,C,both} x ChaCha{0,1,2} x CBC{0,1,2} x ETM{0,1,2} x other cipher/MAC '
                      'present or not (enc and mac non-empty) and decides TerrapinExact on each; plus rotation of every database CBC/ChaCha/ETM name and '
                      'unknown names of the same shape through role x marker x paired/unpaired contexts, expected reports from TLC; each case replayed '
                      'in text and JSON. non-trivial = distinct (role,kex,enc,mac) where the peer is exposed or the advisory note is due')
    ck.cov['exhaustive'] = True
    ck.cov['exhaustive_note'] = 'class space exhaustive; name rotation covers every matching database name at least once per role and marker'
    ck.assumptions += ['client audits run through the fake accept() path of the harness network']
    return ck.finish()
