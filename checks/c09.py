"""C09 - no peer can crash, hang or fool the auditor.

 * SshAudit.tla: the audit as a machine with the peer as environment; TLC checks ExitDocumented,
   ReportIffHandshake, BoundedWaiting (safety) and Terminates (liveness, weak fairness of the tool) over every
   placement of up to MaxFaults faults {refuse, eof, stall, garbage} on every read of every connection of a
   family of server archetypes.
 * Replay / conformance: for each archetype transcript the harness injects byte-level faults at every
   (connection, message) point - the model's fault kinds refined to concrete bytes: early close, stall,
   truncation at offsets, random bytes, every length field set to 0 / len-1 / len+1 / 2^31 / 2^32-1, wrong
   message type, leading debug messages, pre-banner lines, segmentation - runs the real CLI and (a) checks the
   observable clauses directly (documented status, no uncaught exception, no hang, waiting bounded by
   timeout x connections), (b) validates the recorded network trace against TraceAudit.tla, where TLC infers
   which read failed and every invariant of SshAudit is evaluated on every state.
"""
import json
import random
import struct

from harness import common, runner, peers, fakenet, wire
from checks import rating, audit

HOST = audit.HOST


CPU_BOUND = 12.0        # processor seconds one fault scenario may use on top of a second per connection (the costliest on the unchanged tree: see the evidence notes)


def archetypes():
    A = {}
    A['openssh'] = peers.ServerCfg(
        banner=b'SSH-2.0-OpenSSH_8.9p1 Ubuntu-3',
        kexinit={'kex': ['curve25519-sha256', 'diffie-hellman-group-exchange-sha256', 'diffie-hellman-group-exchange-sha1', 'kex-strict-s-v00@openssh.com'],
                 'key': ['rsa-sha2-512', 'rsa-sha2-256', 'ssh-ed25519', 'ssh-ed25519-cert-v01@openssh.com'],
                 'enc': ['chacha20-poly1305@openssh.com', 'aes128-ctr'], 'mac': ['hmac-sha2-256-etm@openssh.com', 'hmac-sha1'],
                 'comp': ['none', 'zlib@openssh.com']},
        hostkeys={'rsa-sha2-512': peers.rsa_blob(3072), 'rsa-sha2-256': peers.rsa_blob(3072), 'ssh-ed25519': peers.ed25519_blob(),
                  'ssh-ed25519-cert-v01@openssh.com': peers.cert_blob('ed25519', ('rsa', 4096))},
        gex={'style': 'openssh', 'moduli': [2048, 3072, 4096]})
    A['dropbear'] = peers.ServerCfg(
        banner=b'SSH-2.0-dropbear_2020.81',
        kexinit={'kex': ['curve25519-sha256', 'diffie-hellman-group14-sha256'], 'key': ['ssh-ed25519', 'rsa-sha2-256'],
                 'enc': ['aes128-ctr', 'aes256-ctr'], 'mac': ['hmac-sha2-256'], 'comp': ['none']},
        hostkeys={'ssh-ed25519': peers.ed25519_blob(), 'rsa-sha2-256': peers.rsa_blob(2048)})
    A['gexfirst'] = peers.ServerCfg(
        banner=b'SSH-2.0-Generic_2.1',
        kexinit={'kex': ['diffie-hellman-group-exchange-sha256', 'ecdh-sha2-nistp256'], 'key': ['ssh-rsa', 'ssh-ed25519', 'ssh-ed25519-cert-v01@openssh.com'],
                 'enc': ['aes128-ctr'], 'mac': ['hmac-sha2-512'], 'comp': ['none']},
        hostkeys={'ssh-rsa': peers.rsa_blob(4096), 'ssh-ed25519': peers.ed25519_blob(),
                  'ssh-ed25519-cert-v01@openssh.com': peers.cert_blob('ed25519', ('ecdsa', 521))},      # a host certificate signed by an ECDSA CA
        gex={'style': 'strict', 'moduli': [2048, 4096, 8192]})
    return A


def other_archetypes():
    """Peers beyond the SSH-2 server: name -> (peer cfg, role, extra command-line arguments)."""
    s1 = peers.ServerCfg(banner=b'SSH-1.5-OpenSSH_3.0', ssh1={'cmask': 0x4c, 'amask': 0x2c}, wrong_version_text=b'Protocol major versions differ.')
    s199 = peers.ServerCfg(banner=b'SSH-1.99-OpenSSH_3.4', ssh1={'cmask': 0x48, 'amask': 0x0c}, wrong_version_text=b'Protocol major versions differ.')
    cl = {'banner': b'SSH-2.0-OpenSSH_8.4', 'kexinit': dict(peers.DEFAULT_KEXINIT)}
    return {
        'ssh1-fallback': (s1, 'server', []),          # default protocol selection: SSH-2 first, then the SSH-1 fallback
        'ssh1-only': (s199, 'server', ['-1']),
        'client': (cl, 'client', []),
    }


# ---------------------------------------------------------------------------
# byte-level faults: each is a function data -> [items]
# ---------------------------------------------------------------------------
def f_eof(d):
    return [fakenet.EOF]


def f_stall(d):
    return [fakenet.STALL]


def f_reset(d):
    return [fakenet.RESET]


def f_trunc(k, then):
    def f(d):
        return [d[:k], then]
    f.__name__ = 'trunc%d_%s' % (k, then)
    return f


def f_random(seed):
    def f(d):
        r = random.Random(seed)
        return [bytes(r.getrandbits(8) for _ in range(len(d)))]
    return f


def f_patch(off, new):
    def f(d):
        if off + len(new) > len(d):
            return [d]
        return [d[:off] + new + d[off + len(new):]]
    return f


def f_then_eof(g):
    def f(d):
        return g(d) + [fakenet.EOF]
    return f


def packet_faults(d, rnd, tier, dense=True):
    """Faults for one SSH-2 binary packet `d` (length | padlen | payload | padding).  Thorough tier: truncation / short payload
    at *every* offset where `dense` (the handshake connection and the first probe connection), at the field boundaries elsewhere
    (later probe connections repeat the same message shapes)."""
    every = tier == 'thorough' and dense
    out = []
    n = len(d)
    plen = struct.unpack('>I', d[:4])[0]
    for v in (0, 1, 4, plen - 1, plen + 1, plen + 8, 0x7fffffff, 0x80000000, 0xffffffff):
        out.append(('plen=%d' % v if v < 1 << 20 else 'plen=huge%x' % v, f_then_eof(f_patch(0, struct.pack('>I', v & 0xffffffff)))))
    pad = d[4]
    for v in (0, 3, pad - 1, pad + 1, 255):
        out.append(('padlen=%d' % v, f_then_eof(f_patch(4, bytes([v & 0xff])))))
    # a correctly framed packet whose payload ends early (length, padding and alignment are consistent; fields are missing)
    payload = d[5:5 + (plen - pad - 1)]
    cuts = range(1, len(payload)) if every else sorted({1, 2, 17, 21, len(payload) // 2, len(payload) - 5, len(payload) - 1})
    for k in cuts:
        if 0 < k < len(payload):
            from harness import wire as _w
            out.append(('shortpayload@%d' % k, (lambda _d, k=k, payload=payload: [_w.frame(payload[:k])])))
    # the packet with an empty payload (padding fills the whole packet)
    out.append(('emptypayload', lambda _d: [struct.pack('>IB', 4, 3) + b'\x00' * 3, fakenet.EOF]))
    t = d[5]
    for v in (t - 1, t + 1, 0, 255):
        out.append(('type=%d' % (v & 0xff), f_patch(5, bytes([v & 0xff]))))
    # every length field inside the payload (strings / name-lists / mpints begin with a uint32 length)
    offs = string_offsets(d)
    for o, ln in offs:
        for v in (0, ln - 1, ln + 1, 0x7fffffff, 0xffffffff):
            if v < 0:
                continue
            out.append(('strlen@%d=%s' % (o, v if v < 1 << 20 else 'huge'), f_patch(o, struct.pack('>I', v & 0xffffffff))))
    # the content of every top-level string altered in place, lengths and framing untouched: bytes outside US-ASCII (a lone
    # 0xE9, the UTF-8 pair C3 A9), NUL, and a comma (splitting a name / leaving an empty name)
    for o, ln in offs:
        if ln < 2:
            continue
        for where, pos in (('first', o + 4), ('last', o + 4 + ln - 2)):
            for label, bs in (('e9', b'\xe9'), ('utf8', b'\xc3\xa9'), ('nul', b'\x00'), ('comma', b',')):
                if tier == 'quick' and (where, label) in (('last', 'nul'), ('first', 'comma'), ('last', 'e9')):
                    continue
                out.append(('strbyte@%d/%s=%s' % (o, where, label), f_patch(pos, bs)))
    ks = sorted({0, 1, 3, 4, 5, 6, 7, n // 2, n - 1} | ({o for o, _ in offs} | {o + 4 for o, _ in offs} if tier == 'thorough' else set()))
    if every:
        ks = range(0, n)
    for k in ks:
        if 0 <= k < n:
            out.append(('trunc@%d+eof' % k, f_trunc(k, fakenet.EOF)))
            if k in (0, 5, n // 2, n - 1) or every and k % 16 == 0:
                out.append(('trunc@%d+stall' % k, f_trunc(k, fakenet.STALL)))
    out.append(('random', f_random(rnd.randrange(1 << 30))))
    out.append(('random+eof', f_then_eof(f_random(rnd.randrange(1 << 30)))))
    out.append(('eof', f_eof))
    out.append(('stall', f_stall))
    out.append(('reset', f_reset))
    return out


def ssh1_faults(d, rnd, tier):
    """Faults for one SSH-1 packet that keep its framing and CRC valid: the public-key message cut short at every field boundary
    (and, thorough, at every offset), another message type, bit counts that promise more than is there."""
    from harness import wire as _w
    L = struct.unpack('>I', d[:4])[0]
    pad = 8 - L % 8
    body = d[4 + pad:4 + pad + L - 4]
    ptype, data = body[0], body[1:]
    out = []
    cuts = range(0, len(data)) if tier == 'thorough' else sorted({0, 1, 7, 8, 11, 12, 13, 14, 15, len(data) // 2, len(data) - 13, len(data) - 12, len(data) - 8, len(data) - 4, len(data) - 1})
    for k in cuts:
        if 0 <= k < len(data):
            out.append(('ssh1-short@%d' % k, (lambda _d, k=k: [_w.frame1(ptype, data[:k])])))
    for t in (ptype + 1, 0, 255):
        out.append(('ssh1-type=%d' % (t & 0xff), (lambda _d, t=t: [_w.frame1(t & 0xff, data)])))
    for off in (12, 14):           # the bit counts of the first two multiple-precision integers (after cookie and server key bits)
        if off + 2 <= len(data):
            for v in (0, 0xffff, 7):
                out.append(('ssh1-bits@%d=%d' % (off, v), (lambda _d, off=off, v=v: [_w.frame1(ptype, data[:off] + struct.pack('>H', v) + data[off + 2:])])))
    out.append(('ssh1-trailing', lambda _d: [_w.frame1(ptype, data + b'\x00' * 9)]))
    # the cipher and authentication masks (the last two words) with reserved bits set
    if len(data) >= 8:
        for cm, am in ((0x148, 0x2c), (0x4c, 0xffffffff), (0xffffffff, 0xffffffff), (0x80000000, 0x100)):
            out.append(('ssh1-masks=%x/%x' % (cm, am), (lambda _d, cm=cm, am=am: [_w.frame1(ptype, data[:-8] + struct.pack('>II', cm, am))])))
    return out


def string_offsets(d):
    """Offsets (within the framed packet) of plausible uint32 length fields of the payload's top-level strings."""
    res = []
    plen = struct.unpack('>I', d[:4])[0]
    pad = d[4]
    payload_end = 4 + plen - pad
    t = d[5]
    i = 6
    if t == 20:
        i += 16
    elif t in (31, 33):
        pass
    while i + 4 <= payload_end and len(res) < 12:
        ln = struct.unpack('>I', d[i:i + 4])[0]
        if i + 4 + ln > payload_end:
            break
        res.append((i, ln))
        # descend once into the host key blob (first string of a reply)
        if t in (31, 33) and len(res) == 1 and ln > 8:
            j = i + 4
            k = 0
            while j + 4 <= i + 4 + ln and k < 6:
                l2 = struct.unpack('>I', d[j:j + 4])[0]
                if j + 4 + l2 > i + 4 + ln:
                    break
                res.append((j, l2))
                j += 4 + l2
                k += 1
        i += 4 + ln
    return res


def line_faults(d, rnd, tier):
    out = [('eof', f_eof), ('stall', f_stall), ('reset', f_reset), ('random', f_random(rnd.randrange(1 << 30)))]
    for k in sorted({1, 3, 4, 7, 8, len(d) // 2, len(d) - 2, len(d) - 1}):
        if 0 < k < len(d):
            out.append(('trunc@%d+eof' % k, f_trunc(k, fakenet.EOF)))
            out.append(('trunc@%d+stall' % k, f_trunc(k, fakenet.STALL)))
    out.append(('nonascii', f_patch(10, b'\xff\x00')))
    out.append(('longline', lambda d: [b'SSH-2.0-' + b'A' * 70000 + b'\r\n']))
    out.append(('ssh1only', lambda d: [b'SSH-1.5-OldServer\r\n']))
    out.append(('notssh', lambda d: [b'HTTP/1.1 400 Bad Request\r\n\r\n', fakenet.EOF]))
    # identification strings without a software part (what the probes later read off the first one must cope with there being none)
    for i, line in enumerate((b'SSH-2.0', b'SSH-2.0-', b'SSH-2.0- note', b'SSH-1.99')):
        out.append(('nosoftware%d' % i, (lambda d, line=line: [line + b'\r\n'])))
    # a protocol version with thousands of digits (numbers that long are refused by the interpreter's own integer conversion)
    out.append(('hugeversion', lambda d: [b'SSH-2.' + b'1' * 5000 + b'-OpenSSH_9.6\r\n']))
    out.append(('hugeversion199', lambda d: [b'SSH-1.' + b'9' * 4400 + b'-OpenSSH_9.6\r\n']))
    # well-formed identification strings whose software version is odd: empty components, a lone dot, huge numbers, no digits
    for i, sw in enumerate((b'OpenSSH_8..9p1', b'dropbear_2022..83', b'OpenSSH_.5', b'libssh_0.', b'libssh-0..10.6', b'OpenSSH_99999999999999999999.1', b'OpenSSH_', b'dropbear_',
                            b'OpenSSH_7.4.', b'OpenSSH_1.2.3.4.5.6.7.8.9')):
        out.append(('oddversion%d' % i, (lambda d, sw=sw: [b'SSH-2.0-' + sw + b'\r\n'])))
    return out


def mk_mutator(target_n, target_idx, fn):
    def mutate(n, kind, idx, data):
        if n == target_n and idx == target_idx:
            return fn(data)
        return [data]
    return mutate


def scenario(cfg, skip_rate=True, extra_args=(), role='server'):
    if role == 'client':
        return {'argv': ['-n', '-c', '-p', '2222', '-t', '5'] + list(extra_args), 'clients': [cfg]}
    args = ['-n'] + (['--skip-rate-test'] if skip_rate else []) + list(extra_args) + [HOST]
    return {'argv': args, 'servers': {(HOST, 22): cfg}}


def record_points(cfg):
    """Clean run: the (connection, message index, kind, bytes) of everything the server emits."""
    pts = []

    def mutate(n, kind, idx, data):
        pts.append((n, idx, kind, bytes(data)))
        return [data]
    c = peers.ServerCfg(cfg)
    c['mutate'] = mutate
    # the recording happens in the forked child: pass the points back through the server log instead
    return c


def build(tier, rnd):
    scs, meta = [], []
    dh = rating.tables()['dheat']
    # a built-in policy that prescribes a group-exchange modulus size (its evaluation reads what the group-exchange probe measured)
    gex_policy = next(n for n, p in sorted(rating.tables()['policies'].items()) if p['server'] and 'diffie-hellman-group-exchange-sha256' in p['dh_modulus_sizes'])
    everything = [(n, c, 'server', []) for n, c in archetypes().items()] + [(n,) + t for n, t in other_archetypes().items()]
    for name, cfg, role, xargs in everything:
        def mk(c, skip_rate=True, role=role, xargs=xargs):
            return scenario(c, skip_rate=skip_rate, extra_args=xargs, role=role)
        Cfg = peers.ServerCfg if role == 'server' else dict
        # discover the emission points with a clean observed run
        probe = Cfg(cfg)
        res = runner.run_one(dict(mk(probe), setup=_install_recorder))
        pts = [(e['n'], e['idx'], e['kind'], bytes.fromhex(e['data'])) for e in res['events'] if e.get('ev') == 'srv_emit']
        common.require(len(pts) >= 2, 'could not record the emission points of archetype %s' % name)
        scs.append(mk(cfg))
        meta.append((name, 'clean', None, cfg, True))
        scs.append(mk(cfg, skip_rate=False))
        meta.append((name, 'clean+rate', None, cfg, False))
        for (n, idx, kind, data) in pts:
            if kind in ('banner', 'prebanner'):
                faults = line_faults(data, rnd, tier)
            elif kind in ('eof', 'text'):
                continue
            elif kind == 'pkm':
                faults = ssh1_faults(data, rnd, tier) + [f for f in packet_faults(data, rnd, tier, dense=(n <= 2)) if f[0] in ('eof', 'stall', 'reset', 'random', 'random+eof') or f[0].startswith('trunc@')]
            else:
                faults = packet_faults(data, rnd, tier, dense=(n <= 2))
                if kind == 'gexgroup' and n <= 4:
                    # a group whose modulus is as long as a packet allows: whatever the tool computes with it is done within its time bound
                    faults = faults + [('hugegroup%d' % bits, (lambda d, bits=bits: [wire.frame(bytes([31]) + wire.mpint((1 << (bits - 1)) | 0x9f3b1) + wire.mpint(2))]))
                                       for bits in ((32768, 65536, 262144, 8388608) if n == 2 else (131072,))]      # (8388608 bits: a megabyte of modulus, sent in full)
            if kind == 'kexreply' and n <= 6:
                # a well-formed reply whose RSA host key has a public exponent / a modulus as long as a packet allows (thousands of decimal digits):
                # whatever the tool does with the numbers, it ends the audit in the ordinary way
                def hugekey(d, ebits=16000, nbits=3072):
                    blob = wire.string(b'ssh-rsa') + wire.mpint((1 << (ebits - 1)) | 0x10001) + wire.mpint((1 << (nbits - 1)) | 0x4d5f)
                    return [wire.frame(bytes([d[5]]) + wire.string(blob) + wire.string(b'\x07' * 32) + wire.string(wire.string(b'ssh-rsa') + wire.string(b'\x01' * 64)))]
                faults = faults + [('hugeexponent', hugekey), ('hugeexponent+modulus', lambda d: hugekey(d, 20000, 120000))]
            if tier == 'quick' and n > 6:
                # later group-exchange connections repeat the same message shapes: sample them
                faults = [f for j, f in enumerate(faults) if (j + n) % 4 == 0]
            for fname, fn in faults:
                c = Cfg(cfg)
                c['mutate'] = mk_mutator(n, idx, fn)
                scs.append(mk(c))
                meta.append((name, 'conn%d/%s#%d/%s' % (n, kind, idx, fname), (n, kind), cfg, True))
        # the connection-rate check of a standard audit (it runs when the server offers a Diffie-Hellman key exchange and the check is
        # not skipped): every connection after the probes is reset / closed / left silent / answered with noise instead of a banner,
        # or only every other one is
        if role == 'server' and cfg.get('ssh1') is None:
            last_probe = max(p[0] for p in pts)
            for fname, fn in (('reset', f_reset), ('eof', f_eof), ('stall', f_stall), ('random', f_random(11))):
                for which in ('all', 'odd'):
                    c = Cfg(cfg)

                    def rate_fault(n, kind, idx, data, fn=fn, which=which, last_probe=last_probe):
                        if n > last_probe and kind == 'banner' and (which == 'all' or n % 2 == 1):
                            return fn(data)
                        return [data]
                    c['mutate'] = rate_fault
                    scs.append(mk(c, skip_rate=False))
                    meta.append((name, 'rate-check/%s-banners/%s' % (which, fname), (last_probe + 1, 'banner'), cfg, False))
        # ... and under -M (the policy is written from whatever the probes managed to measure - a key that was never presented included)
        if role == 'server' and cfg.get('ssh1') is None:
            for (n, idx, kind, data) in pts:
                if kind not in ('kexreply', 'gexgroup', 'gexreply') or n > 6:
                    continue
                for fname, fn in (('eof', f_eof), ('stall', f_stall), ('trunc@9+eof', f_trunc(9, fakenet.EOF)), ('type=1', f_patch(5, bytes([1])))):
                    c = Cfg(cfg)
                    c['mutate'] = mk_mutator(n, idx, fn)
                    scs.append(scenario(c, skip_rate=True, extra_args=list(xargs) + ['-M', '{tmp}/made-policy.txt'], role=role))
                    meta.append((name, 'conn%d/%s#%d/%s/make-policy' % (n, kind, idx, fname), (n, kind), cfg, True))
        # the same probe-phase faults under a policy audit: the policy is evaluated on whatever the probes managed to measure
        if role == 'server' and cfg.get('gex') and cfg.get('ssh1') is None:
            for (n, idx, kind, data) in pts:
                if kind not in ('gexgroup', 'gexreply', 'kexreply') or n > 8:
                    continue
                for fname, fn in (('eof', f_eof), ('stall', f_stall), ('random', f_random(rnd.randrange(1 << 30))), ('type=1', f_patch(5, bytes([1])))):
                    c = Cfg(cfg)
                    c['mutate'] = mk_mutator(n, idx, fn)
                    scs.append(scenario(c, skip_rate=True, extra_args=list(xargs) + ['-P', gex_policy], role=role))
                    meta.append((name, 'conn%d/%s#%d/%s/policy-audit' % (n, kind, idx, fname), (n, kind), cfg, True))
            # ... and a server on which *no* group-exchange probe gets an answer (every request is met with a close, silence, or
            # something else): the policy prescribes a size for an algorithm the server advertises but nothing was measured
            for fname, fn in (('eof', f_eof), ('stall', f_stall), ('type=1', f_patch(5, bytes([1]))), ('random', f_random(7))):
                c = Cfg(cfg)

                def every_group(n, kind, idx, data, fn=fn):
                    return fn(data) if kind == 'gexgroup' else [data]
                c['mutate'] = every_group
                scs.append(scenario(c, skip_rate=True, extra_args=list(xargs) + ['-P', gex_policy], role=role))
                meta.append((name, 'connN/gexgroup#all/%s/policy-audit' % fname, (9, 'gexgroup'), cfg, True))
        # whole-stream variations
        for dbg in ((1, 2, 3, 1500) if name in ('dropbear', 'client') else (1, 2, 3)):        # 1500: a run long enough to exhaust a reader that recurses per message
            c = Cfg(cfg)
            c['debug'] = dbg
            scs.append(mk(c))
            meta.append((name, 'debug x%d' % dbg, None, cfg, True))
        # debug messages whose text is not UTF-8, is empty, is long, or whose body is cut short: skipped like any other
        from harness import wire as _w
        for bi, body in enumerate((bytes([1]) + _w.string(b'caf\xe9 \xff\xfe d\xe9bogage') + _w.string(b''), bytes([0]) + _w.string(b'') + _w.string(b'en'), bytes([0, 0, 0]),
                                   b'', bytes([0]) + _w.string(b'x' * 5000) + _w.string(b''), bytes([0]) + _w.u32(4000) + b'short')):
            c = Cfg(cfg)
            c['debug'] = 1 + bi % 2
            c['debug_body'] = body
            scs.append(mk(c))
            meta.append((name, 'debug-body#%d' % bi, None, cfg, True))
        if role == 'server' and cfg.get('ssh1') is None:
            # debug messages first, then something that is not a KEXINIT (its body looks like one): skipping debug messages must not
            # waive the check of what follows them
            for dbg in (1, 2):
                for newtype in (21, 2, 53):
                    c = Cfg(cfg)
                    c['debug'] = dbg

                    def mut(n, kind, idx, data, newtype=newtype):
                        if n == 1 and kind == 'kexinit':
                            return [data[:5] + bytes([newtype]) + data[6:]]
                        return [data]
                    c['mutate'] = mut
                    scs.append(mk(c))
                    meta.append((name, 'conn1/kexinit#d/debug x%d+type=%d' % (dbg, newtype), (1, 'kexinit'), cfg, True))
        for k in (1, 2, 3):
            c = Cfg(cfg)
            c['prebanner'] = [b'Welcome line %d' % i for i in range(k)]
            scs.append(mk(c, skip_rate=(k != 1)))
            meta.append((name, 'prebanner x%d' % k, None, cfg, k != 1))
        for seg in ((1, 2, 7, 64) if role == 'server' else ()):
            c = Cfg(cfg)
            c['segment'] = seg
            scs.append(mk(c))
            meta.append((name, 'segment=%d' % seg, None, cfg, True))
        c = Cfg(cfg)
        c['mutate'] = _split_at_padding
        scs.append(mk(c))
        meta.append((name, 'split-at-padding', None, cfg, True))
        if role == 'server' and cfg.get('ssh1') is None:
            c = Cfg(cfg)
            c['kexinit_with_banner'] = True
            scs.append(mk(c))
            meta.append((name, 'kexinit-with-banner', None, cfg, True))
        # seeded random mutations of random messages
        nrand = 150 if tier == 'quick' else 1500
        for _ in range(nrand):
            n, idx, kind, data = rnd.choice(pts)
            seed = rnd.randrange(1 << 30)

            def fn(d, seed=seed):
                r = random.Random(seed)
                b = bytearray(d)
                for _ in range(r.randint(1, 4)):
                    op = r.randrange(4)
                    p = r.randrange(len(b)) if b else 0
                    if op == 0 and b:
                        b[p] ^= 1 << r.randrange(8)
                    elif op == 1 and b:
                        del b[p:p + r.randint(1, 8)]
                    elif op == 2:
                        b[p:p] = bytes(r.getrandbits(8) for _ in range(r.randint(1, 8)))
                    elif b:
                        b[p:p + 4] = struct.pack('>I', r.choice([0, 1, 0xffffffff, 0x7fffffff, len(b)]))
                return [bytes(b)] + ([fakenet.EOF] if r.random() < 0.5 else [])
            c = Cfg(cfg)
            c['mutate'] = mk_mutator(n, idx, fn)
            scs.append(mk(c))
            meta.append((name, 'conn%d/%s#%d/randmut%d' % (n, kind, idx, seed), (n, kind), cfg, True))
    # a peer that answers every identification string, SSH-2 or SSH-1, with the protocol-mismatch text
    c = peers.ServerCfg(banner=b'SSH-1.5-Stubborn_1.0', wrong_version_always=True)
    scs.append({'argv': ['-n', HOST], 'servers': {(HOST, 22): c}})
    meta.append(('none', 'always-protocol-mismatch', None, peers.ServerCfg(), False))
    # client audit with nobody connecting: the listener gives up after the configured timeout
    scs.append({'argv': ['-n', '-c', '-p', '2222', '-t', '3'], 'clients': []})
    meta.append(('none', 'client-audit-no-client', None, peers.ServerCfg(), False))
    scs.append({'argv': ['-n', '-c', '-p', '2222'], 'clients': []})
    meta.append(('none', 'client-audit-no-client-default-timeout', None, peers.ServerCfg(), False))
    # unreachable targets
    scs.append({'argv': ['-n', HOST], 'servers': {}})
    meta.append(('none', 'refused', None, peers.ServerCfg(), False))
    scs.append({'argv': ['-n', 'no-such-host.example'], 'servers': {}})
    meta.append(('none', 'unresolvable', None, peers.ServerCfg(), False))
    scs.append({'argv': ['-n', HOST], 'servers': {(HOST, 22): 'timeout'}})
    meta.append(('none', 'connect-timeout', None, peers.ServerCfg(), False))
    return scs, meta, dh


def _split_at_padding(n, kind, idx, data):
    """Deliver every binary packet in two TCP segments: up to the end of the payload, then the padding (legal segmentation)."""
    if kind in ('banner', 'prebanner', 'text', 'eof') or len(data) < 6:
        return [data]
    plen = struct.unpack('>I', data[:4])[0]
    pad = data[4]
    cut = 4 + plen - pad
    if plen + 4 != len(data) or not 5 < cut < len(data):
        return [data]
    return [data[:cut], data[cut:]]


def _install_recorder(world):
    from harness import peers as P
    orig = P.SshServer.emit

    def emit(self, sock, kind, data, **kw):
        world.log(ev='srv_emit', n=self.k, idx=self.out_idx, kind=kind, data=bytes(data).hex())
        return orig(self, sock, kind, data, **kw)
    P.SshServer.emit = emit


def model_check(ck, tier):
    faults = 1 if tier == 'quick' else 2
    res = audit_tlc(audit.mc_cfg('FaultFamily', faults, cap=4, conc=2, ticks=2, live=True))
    ck.add_tlc(res)
    common.require(res.ok, 'SshAudit: TLC reports %s on the specification:\n%s' % (res.violated, '\n'.join(res.trace[-50:])))
    ck.log('SshAudit model: %d distinct states, MaxFaults=%d: safety invariants and Terminates hold' % (res.distinct, faults))
    # vacuity guards: the behaviours added for SSH-1 peers and client audits are reachable in the model that was just checked
    for inv in ('NeverFallsBack', 'NeverClientReport', 'NeverSsh1Report', 'NeverClientGivesUp'):
        cfg = audit.mc_cfg('FaultFamily', 0, cap=4, conc=2, ticks=2).replace('INVARIANT ExitDocumented\n', 'INVARIANT %s\nINVARIANT ExitDocumented\n' % inv)
        r = audit_tlc(cfg)
        common.require(r.violated == inv, 'vacuity guard: %s should be violated (the behaviour it denies must be reachable), TLC says %r' % (inv, r.violated))
    return res


def audit_tlc(cfg, **kw):
    from harness import tlc
    return tlc.run('MC_SshAudit', cfg, **kw)


def arch_opts(name):
    o = other_archetypes().get(name)
    return {'argv': o[2], 'role': o[1]} if o else {'argv': [], 'role': 'server'}


def classify(res, info, what):
    """Signature of a rejected / non-conforming run."""
    if res.get('hang'):
        return 'hang'
    if res.get('exit') == 255 or res.get('uncaught'):
        exc, loc = rating.crash_signature(res)
        return 'uncaught=%s at=%s' % (exc, loc)
    return None


def run(tier):
    ck = common.Check('C09', tier)
    rnd = random.Random(ck.seed)
    model_check(ck, tier)
    scs, meta, dh = build(tier, rnd)
    ck.log('%d fault scenarios built' % len(scs))
    results = runner.run_many(scs)
    items = []
    for sc, m, res in zip(scs, meta, results):
        name, what, point, cfg, skip = m
        ck.evaluated()
        if res.get('harness_error'):
            raise common.Machinery('run failed in the harness: %s' % res['harness_error'])
        ck.nontrivial((name, what))
        srv = audit.srv_of(cfg, skip, dh, argv=sc['argv'], role=arch_opts(name)['role'])
        if res.get('exit') in (0, 2, 3) and point is not None and point[0] == 1 and srv['proto'] == '2':
            # the handshake messages were tampered with: the server the tool audits is the one its own report describes
            srv = audit.srv_from_report(res, srv, dh)
        # what the tool takes the peer for is what it reports as the banner (a tampered banner changes it)
        import re as _re
        mb = _re.search(r'^\(gen\) banner: (.*)$', res.get('stdout') or '', _re.M)
        if mb:
            srv['openssh'] = 'OpenSSH' in mb.group(1)
        items.append((srv, res))
    verdicts = audit.validate(ck, items)
    clean_of = {m[0]: (res.get('exit'), audit.has_report(res)) for m, res in zip(meta, results) if m[1] == 'clean'}
    clean_out = {m[0]: res.get('stdout') for m, res in zip(meta, results) if m[1] == 'clean'}
    for sc, m, res, (ok, info) in zip(scs, meta, results, verdicts):
        name, what, point, cfg, skip = m
        replay = {'archetype': name, 'fault': what, 'argv': sc['argv'], 'exit': res.get('exit'), 'stdout': (res.get('stdout') or '')[-2500:],
                  'trace_info': info}
        # (a) directly observable clauses
        direct = None
        if res.get('hang'):
            direct = ('hang', 'the audit did not terminate (killed by the harness alarm)')
        elif res.get('exit') not in (0, 1, 2, 3):
            exc, loc = rating.crash_signature(res)
            direct = ('uncaught=%s at=%s' % (exc, loc), 'ended with status %r through %s in %s' % (res.get('exit'), exc, loc))
        elif res.get('waited', 0) > 5.0 * (res.get('nconn', 0) + 1) + 1e-6:
            direct = ('unbounded-wait', 'waited %.1f virtual seconds over %d connections' % (res['waited'], res['nconn']))
        elif res.get('cpu', 0) > CPU_BOUND + 1.0 * res.get('nconn', 0):
            # waiting is bounded by the timeout; computing is bounded by nothing but the size of what the peer may send in one packet: an audit that
            # computes for this long on one well-formed packet is not "ending within its time bound"
            direct = ('unbounded-computation', 'used %.0f s of processor time over %d connections (the clean audit of this server: under a second)' % (res['cpu'], res['nconn']))
        if direct:
            ck.violation(direct[0] + ' ' + fault_class(what), '[%s, %s] %s' % (name, what, direct[1]), replay)
            continue
        # the handshake messages never arrived complete: the audit must end with status 1 and no algorithm report
        if must_fail_handshake(what, point):
            if res.get('exit') != 1 or audit.has_report(res):
                ck.violation('incomplete-handshake-accepted %s' % fault_class(what),
                             '[%s, %s] the peer never delivered a complete, well-formed KEXINIT, yet the audit ends with status %s%s'
                             % (name, what, res.get('exit'), ' and prints an algorithm report' if audit.has_report(res) else ''), replay)
                continue
        if what.startswith('client-audit-no-client'):
            if res.get('exit') != 1 or res.get('vtime', 0) > (3.0 if what == 'client-audit-no-client' else 5.0) + 1.5:
                ck.violation('client-audit-listener-timeout', 'client audit with -t 3 and no client: status %s after %.1f virtual seconds' % (res.get('exit'), res.get('vtime', 0)), replay)
            else:
                ck.cov['traces_validated_against_impl'] += 1
            continue
        if what == 'always-protocol-mismatch':
            if res.get('exit') != 1 or res.get('nconn', 0) > 2:
                ck.violation('protocol-mismatch-retry exit=%s' % res.get('exit'), 'a peer refusing both protocol versions: status %s after %d connections (expected status 1 after at most 2)'
                             % (res.get('exit'), res.get('nconn', 0)), replay)
            else:
                ck.cov['traces_validated_against_impl'] += 1
            continue
        # protocol-conformant variations of a well-formed transcript must not change the outcome of the audit
        variation = next((v for v in ('segment=', 'debug x', 'prebanner x', 'kexinit-with-banner', 'split-at-padding') if what.startswith(v)), None)
        if variation is not None:
            clean = clean_of.get(name)
            if clean is not None and (res.get('exit'), audit.has_report(res)) != clean:
                kind = {'segment=': 'tcp-segmentation ' + what.replace(' ', ''), 'debug x': 'debug-message-before-kexinit', 'prebanner x': 'pre-banner-lines',
                        'kexinit-with-banner': 'kexinit-with-banner', 'split-at-padding': 'packet-split-at-padding'}[variation]
                ck.violation('%s exit=%s report=%s' % (kind, res.get('exit'), audit.has_report(res)),
                             '[%s, %s] a well-formed handshake delivered as %s ends with status %s%s; the same transcript delivered plainly gives status %s with a report'
                             % (name, what, what, res.get('exit'), '' if audit.has_report(res) else ' and no report', clean[0]), replay)
                continue
            # the same bytes in other segments must give the very same report.  (Debug messages are not held to this: one sent in
            # front of a probe reply makes that probe give up, so a measurement goes missing - a robustness gap outside what the
            # properties state; DESIGN 14.3.)
            if variation in ('segment=', 'split-at-padding') and clean is not None and res.get('exit') == clean[0] \
                    and clean_out.get(name) is not None and res.get('stdout') != clean_out[name]:
                import difflib
                diff = [l for l in difflib.unified_diff(clean_out[name].split('\n'), (res.get('stdout') or '').split('\n'), lineterm='', n=0)
                        if not l.startswith(('---', '+++', '@@'))][:6]
                ck.violation('report-changed-by-delivery %s' % what.split('=')[0].replace(' ', ''),
                             '[%s, %s] same status, but the report differs from the one for the same transcript delivered plainly: %r' % (name, what, diff), replay)
                continue
        if ok:
            ck.cov['traces_validated_against_impl'] += 1
            continue
        if point is not None and point[1] == 'gexgroup' and any(t in what for t in ('randmut', 'strlen', 'strbyte', 'random')) and 'random+eof' not in what:
            # a group message whose interior was altered is simply a different group: the environment model (Group) no longer
            # describes this server, so its trace is not judged; the direct clauses above were
            ck.notes.append('not trace-validated (server answers a tampered group): %s %s' % (name, what)) if len(ck.notes) < 5 else None
            continue
        # (b) rejected by the trace specification
        ck.violation(reject_signature(res, info, what), '[%s, %s] TraceAudit rejects the run: %s' % (name, what, short(info)), replay)
    json_leg(ck, tier, scs, meta)
    top = sorted(((res.get('cpu', 0), m[0] + ' ' + m[1]) for m, res in zip(meta, results)), reverse=True)[:3]
    ck.notes.append('processor time: the three costliest scenarios used ' + ', '.join('%.1f s (%s)' % t for t in top))
    ck.sample({'archetype': meta[5][0], 'fault': meta[5][1], 'exit': results[5].get('exit'), 'trace': audit.trace_events(results[5])[:25]})
    ck.cov['rule'] = ('TLC: every placement of up to MaxFaults faults over every read of every connection of the FaultFamily archetypes (safety + liveness). '
                      'Replay: three SSH-2 server archetypes x every emitted message x {eof, stall, reset, random bytes, truncations, every length field in '
                      '{0,len-1,len+1,2^31,2^32-1}, padding lengths, message type +-1, empty payload} + debug messages, pre-banner lines, segmentation, seeded '
                      'random mutations; every run checked directly and validated against TraceAudit.tla. distinct = (archetype, fault point, fault)')
    ck.assumptions += ['time is virtual: a stall costs exactly the configured timeout', 'SSH-1 transcripts and client audits are exercised in C01/C04, not here']
    return ck.finish()


def json_leg(ck, tier, scs, meta):
    """The same faults with -j: what the peer sends decides how the audit ends, not the output format.  Every fault of the first connection
    (identification string, KEXINIT - where the error path of the JSON builder is) and a sample of the later ones (every 7th; every 2nd in
    the thorough tier) are run again with -j in place of -n; the directly observable clauses are judged: the run ends, with a status in 0..3,
    within its time bound, and a run that ends with a report's status prints one JSON document."""
    pick = []
    for j, (sc, m) in enumerate(zip(scs, meta)):
        name, what, point, cfg, skip = m
        if '-n' not in sc['argv'] or '-M' in sc['argv']:
            continue
        first = point is not None and point[0] == 1
        if first and 'randmut' not in what or j % (2 if tier == 'thorough' else 7) == 0:
            pick.append(j)
    jscs = [dict(scs[j], argv=['-j' if a == '-n' else a for a in scs[j]['argv']]) for j in pick]
    n_ok = 0
    for j, sc, res in zip(pick, jscs, runner.run_many(jscs)):
        name, what, point, cfg, skip = meta[j]
        ck.evaluated()
        if res.get('harness_error'):
            raise common.Machinery('run failed in the harness: %s' % res['harness_error'])
        ck.nontrivial((name, what, 'json'))
        replay = {'archetype': name, 'fault': what, 'argv': sc['argv'], 'exit': res.get('exit'), 'stdout': (res.get('stdout') or '')[-2500:]}
        direct = None
        if res.get('hang'):
            direct = ('hang', 'the audit did not terminate (killed by the harness alarm)')
        elif res.get('exit') not in (0, 1, 2, 3):
            exc, loc = rating.crash_signature(res)
            direct = ('uncaught=%s at=%s' % (exc, loc), 'ended with status %r through %s in %s' % (res.get('exit'), exc, loc))
        elif res.get('waited', 0) > 5.0 * (res.get('nconn', 0) + 1) + 1e-6:
            direct = ('unbounded-wait', 'waited %.1f virtual seconds over %d connections' % (res['waited'], res['nconn']))
        elif must_fail_handshake(what, point) and res.get('exit') != 1:
            direct = ('incomplete-handshake-accepted', 'the peer never delivered a complete, well-formed KEXINIT, yet the audit ends with status %s' % res.get('exit'))
        elif res.get('exit') in (0, 2, 3) and '-P' not in sc['argv']:
            try:
                json.loads(res.get('stdout') or '')
            except ValueError:
                direct = ('json-report-unparsable', 'the audit ends with the status of a report (%s) but standard output is not a JSON document' % res.get('exit'))
        if direct:
            ck.violation(direct[0] + ' view=json ' + fault_class(what), '[%s, %s, -j] %s' % (name, what, direct[1]), replay)
        else:
            n_ok += 1
            ck.cov['traces_validated_against_impl'] += 1
    ck.notes.append('json leg: %d fault scenarios run again with -j (direct clauses), %d conform' % (len(pick), n_ok))


def must_fail_handshake(what, point):
    """Faults on the first connection after which no complete, well-formed KEXINIT can have reached the tool."""
    if point is None or point[0] != 1 or point[1] not in ('banner', 'kexinit'):
        return False
    f = what.rsplit('/', 1)[-1]
    if f in ('eof', 'stall', 'reset') or f.startswith('trunc@'):
        return True
    if point[1] == 'kexinit' and f.startswith('shortpayload@'):
        return True
    if point[1] == 'kexinit' and f.split('+')[-1].startswith('type=') and f.split('=')[-1] not in ('20', '4'):
        return True         # whatever arrived in the place of the KEXINIT was not a KEXINIT
    return False


def fault_class(what):
    """Generalise a fault description to the class used in signatures (stable across seeds and offsets)."""
    import re
    w = what
    w = re.sub(r'conn(\d+)', lambda m: 'conn=handshake' if m.group(1) == '1' else 'conn=probe', w)
    w = re.sub(r'#\d+', '', w)
    w = re.sub(r'randmut\d+', 'randmut', w)
    w = re.sub(r'trunc@\d+', 'trunc', w)
    w = re.sub(r'shortpayload@\d+', 'shortpayload', w)
    w = re.sub(r'ssh1-short@\d+', 'ssh1-short', w)
    w = re.sub(r'ssh1-bits@\d+=\d+', 'ssh1-bits', w)
    w = re.sub(r'ssh1-type=\d+', 'ssh1-type', w)
    w = re.sub(r'ssh1-masks=[0-9a-f]+/[0-9a-f]+', 'ssh1-masks', w)
    w = re.sub(r'oddversion\d+', 'oddversion', w)
    w = re.sub(r'debugx\d+', 'debugx', w)
    w = re.sub(r'strlen@\d+=\d+', 'strlen', w)
    w = re.sub(r'strlen@\d+=huge', 'strlen=huge', w)
    w = re.sub(r'strbyte@\d+/(first|last)=', 'strbyte=', w)
    w = re.sub(r'plen=\d+', 'plen', w)
    w = re.sub(r'padlen=\d+', 'padlen', w)
    w = re.sub(r'type=\d+', 'type', w)
    w = re.sub(r'#d/debug x\d', '/after-debug', w)
    return 'fault=' + w.replace(' ', '')


def reject_signature(res, info, what):
    info = info or {}
    if 'invariant' in info:
        return 'invariant=%s %s' % (info['invariant'], fault_class(what))
    nxt = (info.get('next_event') or {}).get('e', 'end')
    evs = audit.trace_events(res)
    lost = res.get('exit') == 1 and len([e for e in evs if e.get('e') == 'connect' and not e.get('nb')]) > 1
    if lost:
        if '[exception] invalid ssh packet (block size)' in (res.get('stdout') or ''):
            return 'report-lost exit=1 after-handshake cause=sys.exit-on-bad-block-size at=ssh_socket.read_packet'
        return 'report-lost exit=1 after-handshake %s' % fault_class(what)
    return 'trace-rejected model_pc=%s next=%s exit=%s %s' % (info.get('model_pc'), nxt, res.get('exit'), fault_class(what))


def short(info):
    if not info:
        return ''
    return 'matched %s events, model at %s, next event %s' % (info.get('matched_events'), info.get('model_pc'), info.get('next_event'))


def c02_leg(ck, tier):
    """C02: an audit that could not obtain and parse the algorithm lists never exits 0/2/3 and prints no algorithm report."""
    rnd = random.Random(ck.seed + 9)
    scs, meta, dh = build('quick', rnd)
    pick = [(sc, m) for sc, m in zip(scs, meta) if m[2] is not None and m[2][0] == 1 and 'randmut' not in m[1]] + \
           [(sc, m) for sc, m in zip(scs, meta) if m[0] == 'none']
    results = runner.run_many([sc for sc, _ in pick])
    n = 0
    for (sc, m), res in zip(pick, results):
        ck.evaluated()
        out = res.get('stdout') or ''
        shows = any(t in out for t in ('(kex) ', '(key) ', '(enc) ', '(mac) '))
        st = res.get('exit')
        replay = {'fault': m[1], 'archetype': m[0], 'argv': sc['argv'], 'exit': st, 'stdout': out[-2000:]}
        if must_fail_handshake(m[1], m[2]) and (st in (0, 2, 3) or shows):
            ck.violation('incomplete-audit-accepted exit=%s' % st, '[%s] the KEXINIT never arrived complete and well-formed, yet status %s%s'
                         % (m[1], st, ' with an algorithm report' if shows else ''), replay)
        elif st in (0, 2, 3) and not shows:
            ck.violation('incomplete-audit-looks-clean exit=%s' % st, '[%s] status %s without an algorithm report' % (m[1], st), replay)
        elif st == 1 and shows:
            ck.violation('incomplete-audit-prints-report', '[%s] status 1 but an algorithm report was printed' % m[1], replay)
        elif st not in (0, 1, 2, 3):
            pass    # crash paths are C09's findings
        else:
            n += 1
            ck.nontrivial(('incomplete', m[0], m[1]))
    ck.notes.append('incomplete-audit leg: %d handshake-fault runs, %d consistent (status 1 <=> no algorithm report)' % (len(pick), n))


def debug(pattern, tier='quick'):
    """python -c 'from checks import c09; c09.debug("openssh conn1/kexinit#1/type=21")' - show one scenario's trace and verdict."""
    ck = common.Check('C09', 'quick')
    rnd = random.Random(ck.seed)
    scs, meta, dh = build(tier, rnd)
    for sc, m in zip(scs, meta):
        if pattern in (m[0] + ' ' + m[1]):
            res = runner.run_one(sc)
            print(m[0], m[1], 'exit', res.get('exit'))
            print(res['stdout'][-1500:])
            for e in audit.trace_events(res):
                print('  ', e)
            v = audit.validate(ck, [(audit.srv_of(m[3], m[4], dh), res)])
            print(v[0][0], {k: v for k, v in (v[0][1] or {}).items() if k != 'events'})
            return
    print('no scenario matches')
