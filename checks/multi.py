"""Shared machinery of the multi-target checks (C07, C08) bound to spec/SshMulti.tla and TraceMulti.tla."""
import itertools
import json
import re

from harness import common, tlc, runner, peers, report, fakenet

INVS = ['Isolation', 'Blocks', 'ExitIsMax', 'Framing']
DELIM = '-' * 80


def mc_cfg(lists, cleanup='workerEnd', copy='deep', sysexit='contained', invs=INVS, live=True, max_threads=3):
    c = 'SPECIFICATION %s\nCONSTANTS\n TargetLists <- %s\n MaxThreads = %d\n Cleanup = "%s"\n CopyConfig = "%s"\n SysExit = "%s"\n' % (
        'FairSpec' if live else 'Spec', lists, max_threads, cleanup, copy, sysexit)
    c += ''.join('INVARIANT %s\n' % i for i in invs)
    if live:
        c += 'PROPERTY RunEnds\n'
    return c


def feasible_orders(n, k):
    """Completion orders (permutations of 0..n-1) a pool of k threads can produce: the i-th to finish must have been started."""
    out = []
    for p in itertools.permutations(range(n)):
        if all(p[i] < k + i for i in range(n)):
            out.append(p)
    return out


def ip_of(i):
    return '10.0.1.%d' % (i + 1)


def scenario(targets, threads, order, json_out=False, extra=(), port=22):
    """targets: list of ('server', cfg) | ('refused',) | ('unresolvable',) | ('timeout',)."""
    servers, lines, labels = {}, [], []
    for i, t in enumerate(targets):
        host = ip_of(i)
        if t[0] == 'server':
            servers[(host, port)] = t[1]
        elif t[0] == 'timeout':
            servers[(host, port)] = 'timeout'
        elif t[0] == 'unresolvable':
            host = 'no-such-host-%d.example' % i
        elif t[0] == 'line':
            # ('line', text of the targets-file line, label under which the tool reports it)
            lines.append(t[1])
            labels.append(t[2])
            continue
        lines.append(host)
        labels.append('%s:%d' % (host, port))
    argv = (['-j'] if json_out else ['-n']) + ['--skip-rate-test', '--threads', str(threads)] + list(extra) + ['-T', '{tmp}/targets.txt']
    fo = [labels[i] for i in order] if order is not None else None

    def setup(world, fo=fo):
        world.finish_order = fo
        world.finish_idx = 0
    return {'argv': argv, 'servers': servers, 'files': {'targets.txt': '\n'.join(lines) + '\n'}, 'observe': True, 'setup': setup, 'alarm': 60, 'fresh': True}, labels


def eager(sc):
    """The same scenario with the interpreter switching worker threads as often as it can and giving way at every
    regular-expression call: unsynchronised state shared between worker threads, if any, is hit (schedule perturbation)."""
    inner = sc.get('setup')

    def setup(world, inner=inner):
        import os as _os
        import re as _re
        import sys as _sys
        _sys.setswitchinterval(1e-6)
        for fname in ('match', 'search', 'sub', 'findall', 'fullmatch', 'split'):
            orig = getattr(_re, fname)

            def yielding(*a, _orig=orig, **k):
                _os.sched_yield()
                return _orig(*a, **k)
            setattr(_re, fname, yielding)
        if inner is not None:
            inner(world)
    out = dict(sc)
    out['setup'] = setup
    return out


def single_scenario(t, i, json_out=False, extra=(), port=22):
    host = ip_of(i)
    servers = {}
    if t[0] == 'server':
        servers[(host, port)] = t[1]
    elif t[0] == 'timeout':
        servers[(host, port)] = 'timeout'
    elif t[0] == 'unresolvable':
        host = 'no-such-host-%d.example' % i
    elif t[0] == 'line':
        host = t[1]
    return {'argv': (['-j'] if json_out else ['-n']) + ['--skip-rate-test'] + list(extra) + [host], 'servers': servers}


def split_text(stdout):
    """Blocks of a multi-target text run (split at the delimiter lines main() prints)."""
    parts = stdout.split('\n' + DELIM + '\n\n')
    if len(parts) == 1:
        parts = stdout.split(DELIM + '\n\n')
    return parts


def label_of_block(block, labels):
    """Which target a text block belongs to: its '(gen) target:' / 'Host:' line or the host named in its error text."""
    m = re.search(r'^\(gen\) target: (\S+)', block, re.M) or re.search(r'^Host:\s+(\S+)', block, re.M)
    cands = []
    if m:
        h = m.group(1)
        cands = [l for l in labels if l == h or l == h + ':22' or l.rsplit(':', 1)[0] == h]
    if not cands:
        cands = [l for l in labels if l.rsplit(':', 1)[0] in block]
    return cands[0] if len(cands) >= 1 else None


def strip_target_line(block):
    return re.sub(r'^\(gen\) target: .*\n', '', block, flags=re.M)


def normalise_single(stdout):
    return stdout.rstrip('\n')


def build_trace(res, labels, threads, json_out):
    """Record for TraceMulti from one observed run."""
    thmap = {}
    evs = []
    begin = {}
    cleanup = {}
    own = {}
    ret_of = {}
    for e in res['events']:
        k = e.get('ev')
        if k not in ('begin', 'end', 'cleanup'):
            continue
        th = thmap.setdefault(e['th'], len(thmap) + 1)
        if k == 'begin':
            t = labels.index(e['target']) + 1
            d = (e.get('dirty2') or []) + (e.get('dirty1') or [])
            absent = e.get('dirty2') is None and e.get('dirty1') is None
            begin[th] = set(d)
            cleanup[th] = None
            evs.append({'e': 'begin', 'th': th, 't': t, 'dirty': sorted(d), 'absent': absent, 'shared': e.get('shared_policy_errors', 0)})
        elif k == 'cleanup':
            cleanup[th] = (cleanup.get(th) or set()) | set(e['dirty'])
        elif k == 'end':
            t = labels.index(e['target']) + 1
            d = (e.get('dirty2') or []) + (e.get('dirty1') or [])
            absent = e.get('dirty2') is None and e.get('dirty1') is None
            left = (cleanup.get(th) or set()) | set(d)
            own[t] = sorted(left - begin.get(th, set()))
            r = e['ret']
            ret_of[t] = r
            evs.append({'e': 'end', 'th': th, 't': t, 'ret': r if isinstance(r, int) else -99, 'absent': absent})
    outcome = {0: 'good', 2: 'warn', 3: 'fail', 1: 'connerr', -1: 'raise'}
    targets = []
    for t in range(1, len(labels) + 1):
        r = ret_of.get(t)
        targets.append({'marks': own.get(t, []), 'polfail': False, 'outcome': outcome.get(r, 'sysexit')})
    # stdout -> printed events + token stream
    toks, printed = stdout_tokens(res['stdout'], labels, json_out)
    for t in printed:
        evs.append({'e': 'printed', 't': t})
    evs.append({'e': 'exit', 'status': res['exit'] if res['exit'] != 255 else -1, 'tokens': toks})
    # printed events must be interleaved after the matching end events; the log has no cross-thread stdout order, so they
    # are placed at the end (Collect only needs the target to be finished)
    return {'threads': max(threads, len(thmap)), 'targets': targets, 'ev': evs}


def stdout_tokens(stdout, labels, json_out):
    """(tokens, printed target indexes): 'open' block (delim block)* 'close' as far as stdout allows."""
    if json_out:
        toks = ['open'] if stdout.startswith('[') else []
        printed = []
        try:
            doc = json.loads(stdout)
        except ValueError:
            return toks + ['unparsable'], printed
        if not isinstance(doc, list):
            return toks + ['not-a-list'], printed
        for i, el in enumerate(doc):
            toks.append('block')
            if i < len(doc) - 1:
                toks.append('delim')
            lab = None
            if isinstance(el, dict):
                tgt = el.get('target') or ('%s:%s' % (el.get('host'), el.get('port')) if 'host' in el else None)
                lab = tgt if tgt in labels else None
            printed.append(labels.index(lab) + 1 if lab else 0)
        toks.append('close')
        return toks, printed
    blocks = split_text(stdout)
    toks = ['open']
    printed = []
    for i, b in enumerate(blocks):
        toks.append('block')
        if i < len(blocks) - 1:
            toks.append('delim')
        lab = label_of_block(b, labels)
        printed.append(labels.index(lab) + 1 if lab else 0)
    toks.append('close')
    return toks, printed


def validate(ck, traces, chunk=2000):
    out = []
    for s in range(0, len(traces), chunk):
        part = traces[s:s + chunk]
        cfg = ('SPECIFICATION TraceSpec\nCONSTANTS\n TargetLists = {}\n MaxThreads = 3\n Cleanup = "workerEnd"\n CopyConfig = "deep"\n SysExit = "contained"\n'
               + ''.join('INVARIANT %s\n' % i for i in INVS) + 'INVARIANT Accept\n')
        res = tlc.run('TraceMulti', cfg, generated={'traces.json': json.dumps(part)}, env={'VERIF_TRACES': 'traces.json'}, deque=True)
        ck.add_tlc(res)
        acc = {p['tid'] for p in res.prints if isinstance(p, dict) and p.get('verdict') == 'accept'}
        info = {}
        rejected = [i for i in range(len(part)) if (i + 1) not in acc]
        if res.violated:
            for i in range(len(part)):
                out.append((False, {'invariant': res.violated, 'tlc': '\n'.join(res.trace[-50:])}))
            continue
        if rejected:
            sub = [part[i] for i in rejected]
            r2 = tlc.run('TraceMulti', cfg.replace('INVARIANT Accept\n', 'INVARIANT Progress\n'), generated={'traces.json': json.dumps(sub)},
                         env={'VERIF_TRACES': 'traces.json'}, deque=True)
            best = {}
            for p in r2.prints:
                if isinstance(p, dict) and 'at' in p and p['at'] > best.get(p['tid'], (0,))[0]:
                    best[p['tid']] = (p['at'], p['pc'])
            for j, i in enumerate(rejected):
                at = best.get(j + 1, (1, '?'))[0]
                ev = part[i]['ev']
                info[i] = {'matched_events': at - 1, 'next_event': ev[at - 1] if at - 1 < len(ev) else None}
        for i in range(len(part)):
            out.append(((i + 1) in acc, info.get(i)))
    return out


# ---------------------------------------------------------------------------
# deterministic schedules of the worker threads (spec/SshSched.tla -> harness/sched.py)
# ---------------------------------------------------------------------------
_PLAN_CACHE = {}


def schedule_plans(ck, ops, max_preempt):
    """Every schedule of len(ops) workers performing ops[w] network operations with at most max_preempt preemptions, as TLC enumerates
    them from SshSched.tla.  -> (plans, covered) where covered is the set of positions (i, j, ..) some plan visits."""
    from harness import tlc, common
    key = (tuple(ops), max_preempt)
    if key in _PLAN_CACHE:
        return _PLAN_CACHE[key]
    mod = '---- MODULE MC_SshSched ----\nEXTENDS SshSched\nOpsDef == <<%s>>\n====\n' % ', '.join(str(n) for n in ops)
    cfg = 'SPECIFICATION Spec\nCONSTANTS\n Ops <- OpsDef\n MaxPreempt = %d\nINVARIANT PlanIsSchedule\nINVARIANT PreemptBound\nINVARIANT Emit\nINVARIANT EmitSeen\n' % max_preempt
    res = tlc.run('MC_SshSched', cfg, generated={'MC_SshSched.tla': mod}, workers=1, timeout=1500)
    ck.add_tlc(res)
    common.require(res.ok, 'SshSched: %s violated:\n%s' % (res.violated, '\n'.join(res.trace[-30:])))
    plans, covered = [], set()
    seen_plans = set()
    for p in res.prints:
        if isinstance(p, dict) and 'plan' in p:
            t = tuple(tuple(x) for x in p['plan'])
            if t not in seen_plans:
                seen_plans.add(t)
                plans.append([list(x) for x in p['plan']])
        elif isinstance(p, dict) and 'seen' in p:
            covered |= {tuple(x) for x in p['seen']}
    common.require(plans, 'SshSched emitted no plan')
    _PLAN_CACHE[key] = (plans, covered)
    return plans, covered


def scheduled(sc, plan, labels, grace=0.4, lines=False):
    """The scenario with its worker threads driven through `plan` (segments [worker index, n]).  n counts network operations, or -
    with lines=True - executed source lines of the tool's own modules (a worker can then be preempted anywhere in the tool's code,
    not only where it touches the network)."""
    inner = sc.get('setup')

    def setup(world, inner=inner):
        from harness import sched as _sched
        if inner is not None:
            inner(world)
        world.sched = _sched.Scheduler(plan, labels, grace=grace)
        if lines:
            import threading as _threading
            sch = world.sched
            world.sched_net = False          # the stops are the lines; network operations are not counted again

            def local(frame, event, arg):
                if event == 'line':
                    sch.point('line')
                return local

            def tracer(frame, event, arg):
                if event == 'call' and '/ssh_audit/' in frame.f_code.co_filename:
                    return local
                return None
            _threading.settrace(tracer)      # applies to the worker threads the tool starts from now on
    out = dict(sc)
    out['setup'] = setup
    out['observe'] = True
    out['fresh'] = True
    return out


def line_schedules(ck, sc, labels, rnd, blocks=40, preempt=1, cap=None):
    """The scenario under SshSched plans at source-line granularity: the line counts of the workers are measured on a first run, divided
    into `blocks` blocks, and every plan with at most `preempt` preemptions at block boundaries is generated by TLC; each boundary is
    moved by a random offset inside its block, so that repeated use visits different lines.  -> [(plan in lines, scenario)]"""
    from harness import runner, common
    probe = runner.run_many([scheduled(sc, [[w, -1] for w in range(len(labels))], labels, lines=True)])[0]
    if probe.get('harness_error') or not probe.get('sched'):
        raise common.Machinery('line-granular probe run failed: %r' % (probe.get('harness_error') or probe.get('hang')))
    ops = [max(1, probe['sched']['ops'].get(l, 0)) for l in labels]
    stride = max(1, max(ops) // blocks)
    plans, _ = schedule_plans(ck, [-(-o // stride) for o in ops], preempt)
    if cap and len(plans) > cap:
        plans = rnd.sample(plans, cap)
    out = []
    for pl in plans:
        lp = [[w, (max(1, k * stride - rnd.randrange(stride)) if k > 0 else k)] for w, k in pl]
        out.append((lp, scheduled(sc, lp, labels, lines=True)))
    return out
