"""C07 - each target's result is independent of the other targets in the run.

 * SshMulti.tla: thread pool, per-thread table copies with their dirty sets, per-worker configuration copies.
   TLC checks Isolation (no scan ever sees marks it did not make) over all target lists of length <= 3 drawn from
   one archetype per edit channel, 1..3 threads, every interleaving - for the mechanism of the tree
   (Cleanup = "workerEnd", CopyConfig = "deep"); the check also confirms that the two weaker mechanisms
   ("never": tables discarded by the main thread only - the tree as found; "shared": no deep copy of the
   configuration) violate Isolation, so the invariant is not vacuous.
 * Black box: every target alone in a fresh process -> Single(t); every ordered pair (thorough: triple) of
   archetypes under every pool size and every feasible completion order (imposed on the worker threads through
   the harness' gate) -> each per-target block, text and JSON, must equal Single(t).
 * Trace validation: begin/end events with the observed dirty sets of the worker's thread -> TraceMulti.tla;
   a worker starting on a dirty table is rejected even if the two targets happen to render identically.
"""
import itertools
import json
import random

from harness import common, runner, peers, tlc
from checks import multi, rating


def servers():
    S = {}
    base = {'key': ['ssh-ed25519'], 'mac': ['hmac-sha2-256-etm@openssh.com', 'hmac-sha2-512'], 'comp': ['none']}
    hk = {'ssh-ed25519': peers.ed25519_blob()}

    def mk(banner, kex, enc, key=None, hostkeys=None, gex=None, mac=None):
        k = dict(base)
        k.update({'kex': kex, 'enc': enc})
        if key:
            k['key'] = key
        if mac:
            k['mac'] = mac
        return peers.ServerCfg(banner=banner, kexinit=k, hostkeys=hostkeys or hk, gex=gex)
    S['plain'] = mk(b'SSH-2.0-OpenSSH_9.6', ['curve25519-sha256', 'kex-strict-s-v00@openssh.com'], ['aes256-gcm@openssh.com', 'aes128-ctr'])
    S['terrapin'] = mk(b'SSH-2.0-OpenSSH_9.3', ['curve25519-sha256'], ['chacha20-poly1305@openssh.com', 'aes128-ctr', 'aes128-cbc'])
    S['strict'] = mk(b'SSH-2.0-OpenSSH_9.6', ['curve25519-sha256', 'kex-strict-s-v00@openssh.com'], ['chacha20-poly1305@openssh.com', 'aes128-ctr', 'aes128-cbc'])
    S['rsa1024'] = mk(b'SSH-2.0-OpenSSH_7.4', ['curve25519-sha256'], ['aes128-ctr'], key=['rsa-sha2-512', 'ssh-rsa', 'ssh-ed25519'],
                      hostkeys={'rsa-sha2-512': peers.rsa_blob(1024), 'ssh-rsa': peers.rsa_blob(1024), 'ssh-ed25519': peers.ed25519_blob()})
    S['rsa4096'] = mk(b'SSH-2.0-OpenSSH_7.4', ['curve25519-sha256'], ['aes128-ctr'], key=['rsa-sha2-512', 'ssh-rsa', 'ssh-ed25519'],
                      hostkeys={'rsa-sha2-512': peers.rsa_blob(4096), 'ssh-rsa': peers.rsa_blob(4096), 'ssh-ed25519': peers.ed25519_blob()})
    S['gex1024'] = mk(b'SSH-2.0-Generic_1.0', ['curve25519-sha256', 'diffie-hellman-group-exchange-sha256', 'diffie-hellman-group-exchange-sha1'],
                      ['aes128-ctr'], gex={'style': 'roundup', 'moduli': [1024]})
    # (an OpenSSH banner: only recognised software gets recommendations, and the one for group exchange is what the ossh2048 target suppresses)
    S['gex4096'] = mk(b'SSH-2.0-OpenSSH_8.0', ['curve25519-sha256', 'diffie-hellman-group-exchange-sha256', 'diffie-hellman-group-exchange-sha1'],
                      ['aes128-ctr'], gex={'style': 'roundup', 'moduli': [4096]})
    # a server advertising names the database does not know (text reports end with a paragraph naming them)
    S['unknown'] = mk(b'SSH-2.0-Generic_1.0', ['curve25519-sha256', 'experimental-kex-v7@example.com'], ['aes128-ctr', 'future-cipher@example.com'])
    S['ossh2048'] = mk(b'SSH-2.0-OpenSSH_8.0', ['curve25519-sha256', 'diffie-hellman-group-exchange-sha256'], ['aes128-ctr'],
                       gex={'style': 'openssh', 'moduli': [2048]})
    return S


POLICY = '''name = "C07 policy"
version = 1
host keys = ssh-ed25519
key exchanges = curve25519-sha256, kex-strict-s-v00@openssh.com
ciphers = aes256-gcm@openssh.com, aes128-ctr
macs = hmac-sha2-256-etm@openssh.com, hmac-sha2-512
'''


def unreachable_leg(ck, S, singles):
    """A target that cannot be reached (refused, unresolvable, timing out) among healthy ones, in every position: the healthy
    targets' results are their single-target results (text mode; the JSON framing of failed targets is C08's finding)."""
    names = sorted(S)[:2]
    scs, meta = [], []
    for bad in (('refused',), ('unresolvable',), ('timeout',)):
        for pos in range(3):
            lst = [('server', S[names[0]]), ('server', S[names[1]])]
            lst.insert(pos, bad)
            for threads in (1, 3):
                sc, labels = multi.scenario(lst, threads, None, json_out=False)
                scs.append(sc)
                meta.append((bad[0], pos, threads, labels, [x for x in (names[0], names[1])]))
    for (bad, pos, threads, labels, hn), sc, r in zip(meta, scs, runner.run_many(scs)):
        ck.evaluated()
        if r.get('harness_error'):
            raise common.Machinery('run with an unreachable target failed: %r' % r.get('harness_error'))
        if r.get('hang'):
            ck.violation('run-did-not-complete leg=run-with-an-unreachable-target', 'the run never ended (run with an unreachable target): a listed target was never scanned, or some wait has no bound', {'argv': sc['argv'] if isinstance(sc, dict) else None})
            continue
        replay = {'unreachable': bad, 'position': pos, 'threads': threads, 'argv': sc['argv'], 'exit': r['exit'], 'stdout': r['stdout'][-3000:]}
        blocks = {}
        for b in multi.split_text(r['stdout']):
            lab = multi.label_of_block(b, labels)
            if lab:
                blocks.setdefault(lab, []).append(b)
        ok = True
        hi = 0
        for i, lab in enumerate(labels):
            if i == pos:
                continue
            name = hn[hi]
            hi += 1
            ref = multi.normalise_single(singles[(name, False, False, i)]['stdout'])
            bl = blocks.get(lab, [])
            if len(bl) != 1 or multi.strip_target_line(bl[0]).rstrip('\n') != ref:
                ck.violation('isolation view=text channel=unreachable-neighbour kind=%s' % bad,
                             'target %s (%s) listed with a %s target at position %d, %d thread(s): %d blocks, expected exactly its single-target report'
                             % (lab, name, bad, pos + 1, threads, len(bl)), replay)
                ok = False
        if ok:
            ck.cov['traces_validated_against_impl'] += 1
            ck.nontrivial(('unreachable', bad, pos, threads))


def exception_leg(ck):
    """A scan that ends in an exception *after* its probes have edited the worker's rating table (here: the resolver fails for the
    lookup of the connection-rate check), followed by another target on the same worker thread: the second target's result is its
    single-target result."""
    from harness import peers
    def srv(bits):
        return peers.ServerCfg(banner=b'SSH-2.0-OpenSSH_8.0', kexinit={'kex': ['diffie-hellman-group14-sha256', 'curve25519-sha256'], 'key': ['ssh-rsa', 'ssh-ed25519'],
                                                                       'enc': ['aes128-ctr', 'chacha20-poly1305@openssh.com'], 'mac': ['hmac-sha2-256'], 'comp': ['none']},
                               hostkeys={'ssh-rsa': peers.rsa_blob(bits), 'ssh-ed25519': peers.ed25519_blob()})
    a, b = multi.ip_of(0), multi.ip_of(1)

    def fail_for(host):
        def setup(world):
            world.resolve_fail_port0 = {host}
        return setup
    single = runner.run_one({'argv': ['-j', b], 'servers': {(b, 22): srv(4096)}})
    if single.get('exit') not in (0, 2, 3):
        raise common.Machinery('reference run failed: %r' % single.get('exit'))
    ref = json.loads(single['stdout'])
    for threads in (1, 2):
        ck.evaluated()
        r = runner.run_one({'argv': ['-j', '--threads', str(threads), '-T', '{tmp}/targets.txt'], 'servers': {(a, 22): srv(1024), (b, 22): srv(4096)},
                            'files': {'targets.txt': '%s\n%s\n' % (a, b)}, 'setup': fail_for(a)})
        if r.get('harness_error'):
            raise common.Machinery('run failed: %r' % r.get('harness_error'))
        if r.get('hang'):
            ck.violation('run-did-not-complete leg=run', 'the run never ended (run): a listed target was never scanned, or some wait has no bound', {'argv': sc['argv'] if isinstance(sc, dict) else None})
            continue
        replay = {'argv': ['-j', '--threads', str(threads), '-T', 'targets.txt'], 'exit': r['exit'], 'stdout': r['stdout'][-3000:]}
        if 'exception occurred while scanning' not in r['stdout']:
            raise common.Machinery('the first target was expected to end in an exception (resolver fault during the rate check): %r' % r['stdout'][:300])
        # the output is not one JSON array when a target failed (C08's finding): take the second target's document out of it
        i = r['stdout'].rfind('{"additional_notes"')
        j = r['stdout'].rfind('}')
        try:
            el = json.loads(r['stdout'][i:j + 1])
        except ValueError:
            ck.violation('isolation view=json channel=after-exception', 'no result for the target scanned after one that ended in an exception', replay)
            continue
        if el != ref:
            ck.violation('isolation view=json channel=after-exception', 'the target scanned after one whose scan ended in an exception (%d thread(s)) differs from its single-target result at %s'
                         % (threads, _json_diff(ref, el)[:3]), replay)
        else:
            ck.cov['traces_validated_against_impl'] += 1
            ck.nontrivial(('after-exception', threads))


def granular_leg(ck):
    """-g over a target list: the sizes listed for a target are those its own server hands out, whatever the other targets hand out."""
    from harness import peers
    def srv(moduli, gex=True):
        kex = ['curve25519-sha256'] + (['diffie-hellman-group-exchange-sha256'] if gex else [])
        return peers.ServerCfg(banner=b'SSH-2.0-Generic_1.0', kexinit={'kex': kex, 'key': ['ssh-ed25519'], 'enc': ['aes128-ctr'], 'mac': ['hmac-sha2-256'], 'comp': ['none']},
                               hostkeys={'ssh-ed25519': peers.ed25519_blob()}, gex=({'style': 'strict', 'moduli': moduli} if gex else None))
    A, B, C = srv([2048, 3072, 4096]), srv([4096]), srv([], gex=False)
    arg = '2048,3072,4096'
    singles = {}
    sscs = []
    for i, cfg in enumerate((A, B, C)):
        for pos in range(3):
            sscs.append(multi.single_scenario(('server', cfg), pos, json_out=True, extra=['-g', arg]))
    sres = runner.run_many(sscs)
    k = 0
    for i in range(3):
        for pos in range(3):
            singles[(i, pos)] = sres[k]['stdout']
            k += 1
    scs, meta = [], []
    for order in ((0, 1, 2), (2, 1, 0), (1, 0, 2), (0, 2, 1)):
        for threads in (1, 3):
            tg = [('server', (A, B, C)[i]) for i in order]
            sc, labels = multi.scenario(tg, threads, tuple(range(3)) if threads == 1 else None, json_out=True, extra=['-g', arg])
            scs.append(sc)
            meta.append((order, threads))
    for (order, threads), sc, r in zip(meta, scs, runner.run_many(scs)):
        ck.evaluated()
        if r.get('harness_error'):
            raise common.Machinery('-g target-list run failed: %r' % r.get('harness_error'))
        if r.get('hang'):
            ck.violation('run-did-not-complete leg=-g-target-list-run', 'the run never ended (-g target-list run): a listed target was never scanned, or some wait has no bound', {'argv': sc['argv'] if isinstance(sc, dict) else None})
            continue
        replay = {'order': order, 'threads': threads, 'argv': sc['argv'], 'exit': r['exit'], 'stdout': r['stdout'][-2000:]}
        # every single-target document must occur in the output as often as that server is listed, and nothing else
        out = r['stdout']
        ok = True
        for pos, i in enumerate(order):
            want = singles[(i, pos)].strip()
            if want and out.count(want) < 1:
                ck.violation('isolation view=json channel=granular-gex', 'target %d of %r (%d thread(s)) with -g %s: its own result %r does not appear in the output'
                             % (pos + 1, order, threads, arg, want[:200]), replay)
                ok = False
                break
        ntables = out.count('dh-gex-modulus-size')
        if ok and ntables != 2:
            ck.violation('isolation view=json channel=granular-gex', '%d modulus tables printed for a list with two group-exchange servers and one without (%r, %d thread(s))'
                         % (ntables, order, threads), replay)
            ok = False
        if ok:
            ck.cov['traces_validated_against_impl'] += 1
            ck.nontrivial(('granular', order, threads))


def ports_leg(ck, S, singles):
    """Targets-file lines with and without a port, in every order: the port a target is scanned on is its own (the line's, or the
    -p / default port), never a neighbour's, and its result is the single-target result."""
    names = sorted(S)[:3]
    layouts = [((2222, None, 2022), None), ((None, 2222, None), None), ((2222, None, None), 2200), ((None, None, 2222), 2200), ((2222, 2022, None), None)]
    scs, meta = [], []
    for ports, dflt in layouts:
        for threads in (1, 3):
            servers, lines, labels = {}, [], []
            for i, (n, pt) in enumerate(zip(names, ports)):
                host = multi.ip_of(i)
                real = pt if pt is not None else (dflt or 22)
                servers[(host, real)] = S[n]
                lines.append(host if pt is None else '%s:%d' % (host, pt))
                labels.append('%s:%d' % (host, real))
            argv = ['-j', '--skip-rate-test', '--threads', str(threads)] + (['-p', str(dflt)] if dflt else []) + ['-T', '{tmp}/targets.txt']
            scs.append({'argv': argv, 'servers': servers, 'files': {'targets.txt': '\n'.join(lines) + '\n'}})
            meta.append((ports, dflt, threads, labels))
    for (ports, dflt, threads, labels), sc, r in zip(meta, scs, runner.run_many(scs)):
        ck.evaluated()
        if r.get('harness_error'):
            raise common.Machinery('mixed-port run failed: %r' % r.get('harness_error'))
        if r.get('hang'):
            ck.violation('run-did-not-complete leg=mixed-port-run', 'the run never ended (mixed-port run): a listed target was never scanned, or some wait has no bound', {'argv': sc['argv'] if isinstance(sc, dict) else None})
            continue
        replay = {'lines': sc['files']['targets.txt'], 'argv': sc['argv'], 'exit': r['exit'], 'stdout': r['stdout'][-2500:]}
        dialled = sorted({'%s:%d' % (e['host'], e['port']) for e in r['events'] if e.get('ev') == 'connect' and 'host' in e})
        if dialled != sorted(labels):
            ck.violation('target-port-depends-on-neighbour', 'lines %r (default port %s): dialled %r, expected %r'
                         % (sc['files']['targets.txt'].split(), dflt or 22, dialled, sorted(labels)), replay)
            continue
        try:
            doc = json.loads(r['stdout'])
        except ValueError:
            ck.violation('mixed-port-json-unparsable', 'stdout of the mixed-port -T run is not JSON', replay)
            continue
        got = sorted(el.get('target') for el in doc if isinstance(el, dict))
        ok = True
        if got != sorted(labels):
            ck.violation('target-port-depends-on-neighbour', 'lines %r (default port %s): dialled %r, reported %r, expected %r'
                         % (sc['files']['targets.txt'].split(), dflt or 22, dialled, got, sorted(labels)), replay)
            ok = False
        else:
            for el in doc:
                i = labels.index(el['target'])
                ref = json.loads(singles[(sorted(S)[i], True, False, i)]['stdout'])
                ref['target'] = el['target']
                if el != ref:
                    ck.violation('isolation view=json channel=port-mix', 'target %s: JSON differs from the single-target result at %s' % (el['target'], _json_diff(ref, el)[:3]), replay)
                    ok = False
        if ok:
            ck.cov['traces_validated_against_impl'] += 1
            ck.nontrivial(('ports', ports, dflt, threads))


def verbose_leg(ck, S):
    """-v and -d make the workers print while they scan.  Whatever is printed meanwhile, and in whatever order the scans end, every
    target's report is in the output exactly once and names its own banner."""
    names = ['plain', 'terrapin', 'rsa1024']
    tg = [('server', S[n]) for n in names]
    scs, meta = [], []
    for k in (2, 3):
        for order in multi.feasible_orders(3, k):
            for flag in ('-v', '-d'):
                sc, labels = multi.scenario(tg, k, order, json_out=False, extra=[flag])
                scs.append(sc)
                meta.append((k, order, flag, labels))
    for (k, order, flag, labels), sc, r in zip(meta, scs, runner.run_many(scs)):
        ck.evaluated()
        replay = {'targets': names, 'threads': k, 'finish_order': order, 'argv': sc['argv'], 'exit': r.get('exit'), 'stdout': (r.get('stdout') or '')[-4000:]}
        if r.get('harness_error'):
            raise common.Machinery('verbose run failed: %r' % r.get('harness_error'))
        if r.get('hang'):
            ck.violation('run-did-not-complete option=%s' % flag, 'three targets, %d threads, order %r with %s: the run never ended' % (k, order, flag), replay)
            continue
        out = report_strip_ansi(r['stdout'])
        bad = []
        for i, lab in enumerate(labels):
            # (the target line omits the default port)
            n_t = len([l for l in out.split('\n') if l.startswith('(gen) target: ') and l.split(': ', 1)[1].strip() in (lab, lab.rsplit(':', 1)[0])])
            if n_t != 1:
                bad.append('%s: %d "(gen) target" lines' % (lab, n_t))
        want_banners = sorted(S[n]['banner'].decode() for n in names)
        got_banners = sorted(l.split(': ', 1)[1].strip() for l in out.split('\n') if l.startswith('(gen) banner: '))
        if got_banners != want_banners:
            bad.append('banner lines %r, expected %r' % (got_banners, want_banners))
        if bad:
            ck.violation('report-lost-or-duplicated option=%s' % flag, 'three targets, %d threads, finish order %r, %s: %s' % (k, order, flag, '; '.join(bad)), replay)
        else:
            ck.cov['traces_validated_against_impl'] += 1
            ck.nontrivial(('verbose', k, order, flag))


def report_strip_ansi(x):
    from harness import report
    return report.strip_ansi(x)


def family_leg(ck, S):
    """Options that speak of every target (-4, -6, both in either order, -p) reach each target of a list exactly as they reach a single target:
    names that resolve to addresses of one family only, or of both, are audited - or turned away - in a list as they are alone."""
    import socket
    names = {'v4only.example': [(socket.AF_INET, '10.9.0.4')], 'v6only.example': [(socket.AF_INET6, '2001:db8::6')],
             'dual.example': [(socket.AF_INET6, '2001:db8::46'), (socket.AF_INET, '10.9.0.46')]}
    servers = {('10.9.0.4', 22): S['plain'], ('2001:db8::6', 22): S['terrapin'], ('2001:db8::46', 22): S['rsa1024'], ('10.9.0.46', 22): S['rsa4096'],
               # (other servers on the port -p names: a line without a port means that port, for every line)
               ('10.9.0.4', 2222): S['rsa1024'], ('2001:db8::6', 2222): S['plain'], ('2001:db8::46', 2222): S['terrapin'], ('10.9.0.46', 2222): S['terrapin']}
    order = ['v6only.example', 'v4only.example', 'dual.example']
    scs, meta = [], []
    for fam in ([], ['-4'], ['-6'], ['-4', '-6'], ['-6', '-4'], ['-p', '2222'], ['-6', '-p', '2222'], ['-b'], ['-b', '-4']):
        # (not -l: under a level the target line of a list keeps a '# general' heading a single-target report has no use for - a difference of
        # presentation the per-level laws of C15 speak about, not an audit made differently)
        singles = runner.run_many([{'argv': ['-n', '--skip-rate-test'] + fam + [h], 'servers': servers, 'resolver': names} for h in order])
        if any(r.get('harness_error') or r.get('hang') for r in singles):
            raise common.Machinery('family leg: single-target runs failed')
        for threads in (1, 3):
            for lst in (order, list(reversed(order))):
                scs.append({'argv': ['-n', '--skip-rate-test'] + fam + ['--threads', str(threads), '-T', '{tmp}/targets.txt'], 'servers': servers, 'resolver': names,
                            'files': {'targets.txt': '\n'.join(lst) + '\n'}, 'fresh': True})
                meta.append((fam, threads, lst, {h: r for h, r in zip(order, singles)}))
    for (fam, threads, lst, singles), sc, r in zip(meta, scs, runner.run_many(scs)):
        ck.evaluated()
        if r.get('harness_error'):
            raise common.Machinery('family leg: %r' % r.get('harness_error'))
        replay = {'options': fam, 'threads': threads, 'targets': lst, 'argv': sc['argv'], 'exit': r.get('exit'), 'stdout': (r.get('stdout') or '')[-3000:]}
        if r.get('hang'):
            ck.violation('run-did-not-complete options=%s' % ''.join(fam), 'the run never ended', replay)
            continue
        port = fam[fam.index('-p') + 1] if '-p' in fam else '22'
        labels = ['%s:%s' % (h, port) for h in lst]
        got = {}
        for b_ in multi.split_text(r['stdout']):
            lab = multi.label_of_block(b_, labels) or next((l for l in labels if l.rsplit(':', 1)[0] in b_), None)
            if lab is not None and lab not in got:
                got[lab] = b_
        ok = True
        for h, lab in zip(lst, labels):
            ref = singles[h]
            ref_report = ref.get('exit') in (0, 2, 3)
            blk = got.get(lab)
            import re as _re
            has_report = blk is not None and ('(gen) banner:' in blk or _re.search(r'^\((kex|key|enc|mac)\) ', blk, _re.M) is not None)
            if blk is None or (has_report and not ref_report) or (ref_report and multi.strip_target_line(blk).rstrip('\n') != multi.normalise_single(ref['stdout'])):
                ck.violation('isolation options-not-applied-per-target options=%s' % (''.join(fam) or 'none'),
                             'target %s in the list %r under %r, %d thread(s): %s; alone under the same options it %s'
                             % (h, lst, fam, threads, 'no block' if blk is None else ('a report' if has_report else 'an error'),
                                'is audited (status %s)' % ref.get('exit') if ref_report else 'is turned away (status %s)' % ref.get('exit')), replay)
                ok = False
                break
        if ok:
            ck.cov['traces_validated_against_impl'] += 1
            ck.nontrivial(('family', tuple(fam), threads, tuple(lst)))


def schedule_leg(ck, tier, S, rnd):
    """Two targets on two worker threads, the threads driven through every schedule SshSched.tla generates (quick: one preemption,
    thorough: two - every pair of positions "A has done i network operations, B has done j" is visited): each target's JSON
    result equals its single-target result whatever the schedule.  Targets are chosen so that whatever one audit leaves behind
    would show in the other: a certificate host key next to a plain one, small next to large keys and moduli, the same host on two
    ports."""
    cert = dict(S)
    hk_cert = {'ssh-rsa-cert-v01@openssh.com': rating.hostkey_blob('ssh-rsa-cert-v01@openssh.com', (3072, 'ssh-rsa', 1024)), 'ssh-ed25519': peers.ed25519_blob()}
    cert['cert'] = peers.ServerCfg(banner=b'SSH-2.0-OpenSSH_8.9', kexinit={'kex': ['curve25519-sha256'], 'key': ['ssh-rsa-cert-v01@openssh.com', 'ssh-ed25519'],
                                                                         'enc': ['aes128-ctr'], 'mac': ['hmac-sha2-256'], 'comp': ['none']}, hostkeys=hk_cert)
    cert['plainrsa'] = peers.ServerCfg(banner=b'SSH-2.0-OpenSSH_8.9', kexinit={'kex': ['curve25519-sha256'], 'key': ['ssh-rsa', 'ssh-ed25519'],
                                                                             'enc': ['aes128-ctr'], 'mac': ['hmac-sha2-256'], 'comp': ['none']},
                                       hostkeys={'ssh-rsa': peers.rsa_blob(4096), 'ssh-ed25519': peers.ed25519_blob()})
    # (a, b, same host?, preemptions in the quick tier)
    pairs = [('cert', 'plainrsa', False, 2), ('plainrsa', 'cert', False, 1), ('rsa1024', 'rsa4096', False, 1), ('terrapin', 'strict', False, 1), ('rsa1024', 'plainrsa', True, 1),
             ('cert', 'rsa4096', True, 1),
             # text reports (they end with paragraphs the JSON document does not have: unknown names, notes): compared block by block
             ('unknown', 'plainrsa', False, 1, 'text'), ('plainrsa', 'unknown', False, 1, 'text')]
    if tier == 'thorough':
        pairs += [('gex1024', 'rsa4096', False, 2), ('rsa4096', 'gex1024', True, 2), ('ossh2048', 'cert', False, 2), ('terrapin', 'unknown', False, 2, 'text'),
                  ('unknown', 'ossh2048', True, 2, 'text')]
    total = 0
    for pr in pairs:
        a, b, same_host, qp = pr[:4]
        text = len(pr) > 4
        vf = '-n' if text else '-j'
        npre = qp if tier == 'quick' else 2
        h0, h1 = multi.ip_of(0), (multi.ip_of(0) if same_host else multi.ip_of(1))
        p0, p1 = 22, (2222 if same_host else 22)
        labels = ['%s:%d' % (h0, p0), '%s:%d' % (h1, p1)]
        servers = {(h0, p0): cert[a], (h1, p1): cert[b]}
        base = {'argv': [vf, '--skip-rate-test', '--threads', '2', '-T', '{tmp}/targets.txt'], 'servers': servers,
                'files': {'targets.txt': '%s:%d\n%s:%d\n' % (h0, p0, h1, p1)}, 'observe': True, 'alarm': 60}
        refs = runner.run_many([{'argv': [vf, '--skip-rate-test', '%s:%d' % (h, p)], 'servers': servers} for h, p in ((h0, p0), (h1, p1))])
        probe = runner.run_many([multi.scheduled(base, [[0, -1], [1, -1]], labels)])[0]
        if any(r.get('harness_error') or r.get('hang') or r.get('exit') not in (0, 2, 3) for r in refs) or probe.get('harness_error') or not probe.get('sched'):
            raise common.Machinery('schedule leg: reference runs failed for %r' % ((a, b),))
        ref_docs = [multi.normalise_single(r['stdout']) if text else json.loads(r['stdout']) for r in refs]
        ops = [max(1, probe['sched']['ops'].get(l, 0)) for l in labels]
        plans, covered = multi.schedule_plans(ck, ops, npre)
        if npre >= 2:
            grid = {(i, j) for i in range(ops[0] + 1) for j in range(ops[1] + 1)}
            common.require(grid <= covered, 'SshSched: two preemptions leave %d of %d positions unvisited' % (len(grid - covered), len(grid)))
        if len(plans) > (1200 if tier == 'quick' else 6000):
            plans = rnd.sample(plans, 1200 if tier == 'quick' else 6000)
        scs = [multi.scheduled(base, pl, labels) for pl in plans]
        forfeits = 0
        for pl, r in zip(plans, runner.run_many(scs)):
            ck.evaluated()
            total += 1
            replay = {'targets': [a, b], 'labels': labels, 'plan': pl, 'argv': base['argv'], 'exit': r.get('exit'), 'stdout': (r.get('stdout') or '')[-3000:], 'sched': r.get('sched')}
            if r.get('harness_error'):
                raise common.Machinery('scheduled run failed: %r' % r.get('harness_error'))
            if r.get('hang'):
                ck.violation('run-did-not-complete scheduled', 'targets %r under the schedule %r: the run never ended' % ((a, b), pl), replay)
                continue
            forfeits += (r.get('sched') or {}).get('forfeits', 0)
            if text:
                got = {}
                for b_ in multi.split_text(r['stdout']):
                    lab = multi.label_of_block(b_, labels)
                    if lab is not None and lab not in got:
                        got[lab] = multi.strip_target_line(b_).rstrip('\n')
            else:
                try:
                    doc = json.loads(r['stdout'])
                except ValueError:
                    ck.violation('multi-json-unparsable scheduled', 'stdout of a scheduled two-target JSON run is not JSON', replay)
                    continue
                got = {el.get('target'): el for el in doc} if isinstance(doc, list) else {}
            ok = True
            for i, lab in enumerate(labels):
                if lab not in got:
                    ck.violation('block-missing scheduled', 'no array element for target %s under the schedule %r' % (lab, pl), replay)
                    ok = False
                elif got[lab] != ref_docs[i]:
                    diff = _text_diff(ref_docs[i], got[lab]) if text else _json_diff(ref_docs[i], got[lab])
                    ck.violation('isolation scheduled %s%s' % (_channel(diff), ' same-host' if same_host else ''),
                                 'target %s (%s, next to %s) under the schedule %r: %s differs from the single-target result at %s' % (lab, (a, b)[i], (b, a)[i], pl, 'the block' if text else 'JSON', diff[:3]), replay)
                    ok = False
            if ok:
                ck.cov['traces_validated_against_impl'] += 1
                ck.nontrivial(('scheduled', a, b, same_host, json.dumps(pl)))
        ck.log('schedule leg: %s next to %s%s: %d + %d network operations, %d schedules (%d forfeited turns)' % (a, b, ' on one host' if same_host else '', ops[0], ops[1], len(plans), forfeits))
    ck.notes.append('schedule leg: %d scheduled two-target runs (SshSched plans replayed through harness/sched.py)' % total)


def run(tier):
    ck = common.Check('C07', tier)
    rnd = random.Random(ck.seed)
    # the model
    res = tlc.run('MC_SshMulti', multi.mc_cfg('Triples07' if tier == 'thorough' else 'Triples07'))
    ck.add_tlc(res)
    common.require(res.ok, 'SshMulti: %s violated on the model:\n%s' % (res.violated, '\n'.join(res.trace[-40:])))
    for cleanup, copy in (('never', 'deep'), ('workerEnd', 'shared')):
        bad = tlc.run('MC_SshMulti', multi.mc_cfg('Pairs07', cleanup=cleanup, copy=copy, invs=['Isolation'], live=False))
        common.require(bad.violated == 'Isolation', 'Isolation should fail for Cleanup=%s CopyConfig=%s (vacuity guard)' % (cleanup, copy))
    ck.log('model: Isolation/Blocks/ExitIsMax/Framing/RunEnds hold (%d states); weaker mechanisms violate Isolation as expected' % res.distinct)

    S = servers()
    names = sorted(S)
    # Single(t): each archetype alone, fresh process, text and JSON, standard and policy audit
    singles = {}
    sscs, sidx = [], []
    for n in names:
        for js in (False, True):
            for pol in (False, True):
                extra = ['-P', '{tmp}/policy.txt'] if pol else []
                for pos in range(3):
                    sc = multi.single_scenario(('server', S[n]), pos, json_out=js, extra=extra)
                    sc['files'] = {'policy.txt': POLICY}
                    sscs.append(sc)
                    sidx.append((n, js, pol, pos))
    sres = runner.run_many(sscs)
    for key, r in zip(sidx, sres):
        if r.get('harness_error') or r.get('hang') or r.get('exit') not in (0, 2, 3):
            raise common.Machinery('single-target reference run failed for %r: exit %r %s' % (key, r.get('exit'), r.get('harness_error') or r.get('stdout', '')[-300:]))
        singles[key] = r
    # multi-target runs
    n_t = 3 if tier == 'thorough' else 2
    lists = list(itertools.product(names, repeat=2))
    if tier == 'thorough':
        lists += rnd.sample(list(itertools.product(names, repeat=3)), 150)
    else:
        lists += rnd.sample(list(itertools.product(names, repeat=3)), 12)
    scs, meta = [], []
    for lst in lists:
        tg = [('server', S[n]) for n in lst]
        for k in (1, 2, 3):
            if k > len(lst):
                continue
            orders = multi.feasible_orders(len(lst), k)
            if tier == 'quick' and len(orders) > 2:
                orders = rnd.sample(orders, 2)
            for order in orders:
                for js in (False, True):
                    for pol in ((False, True) if (tier == 'thorough' or len(lst) == 2 and k == 1) else (False,)):
                        extra = ['-P', '{tmp}/policy.txt'] if pol else []
                        sc, labels = multi.scenario(tg, k, order, json_out=js, extra=extra)
                        sc['files']['policy.txt'] = POLICY
                        scs.append(sc)
                        meta.append((lst, k, order, js, pol, labels))
    extra_scs = [(multi.eager(sc), m) for sc, m in zip(scs, meta) if m[1] >= 2 and m[3]]
    extra_scs = rnd.sample(extra_scs, min(len(extra_scs), 40 if tier == 'quick' else 400))
    scs += [x[0] for x in extra_scs]
    meta += [x[1] for x in extra_scs]
    ck.log('%d multi-target scenarios (%d of them again under schedule perturbation)' % (len(scs), len(extra_scs)))
    results = runner.run_many(scs)
    traces, tmeta = [], []
    for sc, m, r in zip(scs, meta, results):
        lst, k, order, js, pol, labels = m
        ck.evaluated()
        if r.get('harness_error'):
            raise common.Machinery('multi-target run failed: %r' % r.get('harness_error'))
        if r.get('hang'):
            # the harness lets the targets finish in a prescribed order; a listed target that is never scanned (or a wait without a
            # bound) leaves the run waiting for ever
            ck.violation('run-did-not-complete threads=%d' % k, 'list %r, %d thread(s), finish order %r: the run never ended - a listed target was never scanned, or some wait has no bound'
                         % (lst, k, order), {'targets': lst, 'threads': k, 'finish_order': order, 'argv': sc['argv']})
            continue
        ck.nontrivial((lst, k, order, js, pol))
        replay = {'targets': lst, 'threads': k, 'finish_order': order, 'json': js, 'policy': pol, 'argv': sc['argv'], 'exit': r['exit'],
                  'stdout': r['stdout'][-4000:]}
        if js:
            try:
                doc = json.loads(r['stdout'])
            except ValueError:
                ck.violation('multi-json-unparsable', 'stdout of the multi-target JSON run is not JSON', replay)
                continue
            for el in doc:
                tgt = el.get('target') if not pol else '%s:%s' % (el.get('host'), el.get('port'))
                if tgt not in labels:
                    ck.violation('block-unattributable view=json', 'array element names target %r' % tgt, replay)
                    continue
                i = labels.index(tgt)
                ref = json.loads(singles[(lst[i], True, pol, i)]['stdout'])
                if el != ref:
                    diff = _json_diff(ref, el)
                    ck.violation('isolation view=json %s' % _channel(diff), 'target %s (%s) in list %r, %d thread(s), order %r: JSON differs from the single-target result at %s'
                                 % (tgt, lst[i], lst, k, order, diff[:3]), replay)
        else:
            blocks = multi.split_text(r['stdout'])
            seen = set()
            for b in blocks:
                lab = multi.label_of_block(b, labels)
                if lab is None or lab in seen:
                    ck.violation('block-unattributable view=text', 'a block of the multi-target output cannot be attributed to a target', replay)
                    continue
                seen.add(lab)
                i = labels.index(lab)
                ref = multi.normalise_single(singles[(lst[i], False, pol, i)]['stdout'])
                got = multi.strip_target_line(b).rstrip('\n')
                if got != ref:
                    dl = _text_diff(ref, got)
                    ck.violation('isolation view=text %s' % _channel(dl), 'target %s (%s) in list %r, %d thread(s), order %r: block differs from the single-target report: %s'
                                 % (lab, lst[i], lst, k, order, dl[:3]), replay)
        tr = multi.build_trace(r, labels, k, js)
        traces.append(tr)
        tmeta.append(m)
    ports_leg(ck, S, singles)
    unreachable_leg(ck, S, singles)
    granular_leg(ck)
    exception_leg(ck)
    verbose_leg(ck, S)
    family_leg(ck, S)
    schedule_leg(ck, tier, S, rnd)
    verdicts = multi.validate(ck, traces)
    for m, tr, (ok, info) in zip(tmeta, traces, verdicts):
        if ok:
            ck.cov['traces_validated_against_impl'] += 1
        else:
            ne = (info or {}).get('next_event') or {}
            sig = 'invariant=%s' % info['invariant'] if info and 'invariant' in info else 'trace-rejected next=%s' % ne.get('e')
            if ne.get('e') == 'begin' and (ne.get('dirty') or not ne.get('absent')):
                sig = 'worker-starts-on-dirty-table'
            ck.violation(sig, 'TraceMulti rejects the run %r threads=%d order=%r: %s' % (m[0], m[1], m[2], info), {'trace': tr, 'info': info})
    ck.sample({'targets': meta[0][0], 'threads': meta[0][1], 'finish_order': meta[0][2], 'trace': traces[0]['ev'][:8]})
    ck.cov['rule'] = ('TLC: all target lists of length <= 3 over 6 archetypes (one per edit channel) x 1..3 threads x every interleaving; real runs: every ordered '
                      'pair of 9 server archetypes (+ sampled triples) x pool sizes x feasible completion orders x {text, JSON} (+ policy audits), each block compared '
                      'byte for byte with the single-target result; begin/end traces validated against TraceMulti.tla. distinct = (list, threads, order, view, policy)')
    ck.assumptions += ['completion order is imposed at the return of the worker function; -v/-d (which print from worker threads) are not part of the comparison']
    return ck.finish()


def _json_diff(a, b, path=''):
    out = []
    if type(a) != type(b):
        return [path or '/']
    if isinstance(a, dict):
        for k in sorted(set(a) | set(b)):
            if k not in a or k not in b:
                out.append('%s/%s' % (path, k))
            else:
                out += _json_diff(a[k], b[k], '%s/%s' % (path, k))
    elif isinstance(a, list):
        if len(a) != len(b):
            out.append(path + '[len]')
        for i, (x, y) in enumerate(zip(a, b)):
            out += _json_diff(x, y, '%s[%d]' % (path, i))
    elif a != b:
        out.append(path)
    return out


def _text_diff(a, b):
    la, lb = a.split('\n'), b.split('\n')
    out = []
    for x in lb:
        if x not in la:
            out.append('+' + x[:120])
    for x in la:
        if x not in lb:
            out.append('-' + x[:120])
    return out or ['(order)']


def _channel(diff):
    s = ' '.join(diff)
    for key, name in (('Terrapin', 'terrapin'), ('terrapin', 'terrapin'), ('modulus', 'size-note'), ('bugzilla', 'ossh2048'), ('rec', 'recommendation'),
                      ('errors', 'policy'), ('Errors', 'policy'), ('available since', 'since-text')):
        if key in s:
            return 'channel=' + name
    return 'channel=other'
