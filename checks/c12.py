"""C12 - group-exchange modulus size is measured and rated correctly.

SshAudit!GexProbe mirrors the probe loop of gextest.py against a server whose group selection is
Group(moduli, style) - every subset of {512..8192} x {strict, round-up, OpenSSH-fallback} x {OpenSSH, other
banner} x {sha1, sha256, both}: 9216 servers.  TLC explores them all (fault budget 0), checks GexReportRule
("reported = smallest group handed out, or the follow-up answer for OpenSSH"), NoSizeWhenRefused,
GexRequestsFixed and the connection bound, and emits per server the request/answer history and the
reported size.  The harness replays the servers (all in thorough, a sample incl. every singleton and pair
policy in quick) through the real CLI and compares: the requests the fake server saw, the answers it gave
(binding the Python environment to the TLA+ one), the (N-bit) shown, JSON keysize, and the size notes,
whose expected texts come from SshRating evaluated by TLC on the reported sizes.
"""
import itertools
import json
import random

from harness import common, runner, peers, report, tlc
from checks import rating, audit

GEX256 = 'diffie-hellman-group-exchange-sha256'
GEX1 = 'diffie-hellman-group-exchange-sha1'


def server_cfg(e):
    kex = ['curve25519-sha256'] + [a for a in (GEX256, GEX1) if a in e['gex']]
    return peers.ServerCfg(banner=b'SSH-2.0-OpenSSH_8.9p1' if e['openssh'] else b'SSH-2.0-Generic_1.0',
                           kexinit={'kex': kex, 'key': ['ssh-ed25519'], 'enc': ['aes128-ctr'], 'mac': ['hmac-sha2-256'], 'comp': ['none']},
                           hostkeys={'ssh-ed25519': peers.ed25519_blob()},
                           gex={'style': e['style'], 'moduli': list(e['moduli'])})


def key_of(e):
    return (tuple(sorted(e['moduli'])), e['style'], bool(e['openssh']), tuple(sorted(e['gex'])))


def run(tier):
    ck = common.Check('C12', tier)
    rnd = random.Random(ck.seed)
    res = tlc.run('MC_SshAudit', audit.mc_cfg('GexFamily', 0, emit=True), workers=1)
    ck.add_tlc(res)
    common.require(res.ok, 'SshAudit: TLC reports %s on the GEX family:\n%s' % (res.violated, '\n'.join(res.trace[-40:])))
    servers = {}
    for p in res.prints:
        if isinstance(p, dict) and 'asked' in p:
            if isinstance(p['asked'], list):
                p['asked'] = {}
            if isinstance(p['reported'], list):
                p['reported'] = {}
            servers[key_of(p)] = p
    common.require(len(servers) == 9216, 'expected 9216 servers from TLC, got %d' % len(servers))
    ck.log('TLC explored %d servers (%d states): GexReportRule, NoSizeWhenRefused, GexRequestsFixed hold' % (len(servers), res.distinct))
    keys = sorted(servers)
    if tier == 'quick':
        small = [k for k in keys if len(k[0]) <= 2]
        rest = [k for k in keys if len(k[0]) > 2]
        pick = [k for i, k in enumerate(small) if i % 4 == ck.seed % 4] + rnd.sample(rest, 500)
    else:
        pick = keys
    # expected notes for the reported sizes: SshRating evaluated by TLC
    cases = []
    for i, k in enumerate(pick):
        e = servers[k]
        kex = ['curve25519-sha256'] + [a for a in (GEX256, GEX1) if a in e['gex']]
        dh = {a: (v['bits'], v['fallback']) for a, v in e['reported'].items()}
        c = rating.mk_case(i + 1, kex=kex, key=['ssh-ed25519'], enc=['aes128-ctr'], mac=['hmac-sha2-256'], dh=dh,
                           banner='SSH-2.0-OpenSSH_8.9p1' if e['openssh'] else 'SSH-2.0-Generic_1.0',
                           sw={'product': 'OpenSSH', 'c': [8, 9], 'p': ['p', 1]} if e['openssh'] else None)
        cases.append(c)
    exp_notes = rating.evaluate(ck, cases, workers=None)
    dh_tables = rating.tables()['dheat']
    scs = []
    for k in pick:
        cfg = server_cfg(servers[k])
        scs.append({'argv': ['-n', '--skip-rate-test', audit.HOST], 'servers': {(audit.HOST, 22): cfg}})
    jscs = [dict(sc, argv=['-j', '--skip-rate-test', audit.HOST]) for sc in scs[::5]]
    results = runner.run_many(scs + jscs)
    jres = dict(zip(range(0, len(scs), 5), results[len(scs):]))
    items = []
    for i, k in enumerate(pick):
        e, r, c = servers[k], results[i], cases[i]
        ck.evaluated()
        if r.get('harness_error') or r.get('hang'):
            raise common.Machinery('run failed: %r' % (r.get('harness_error') or 'hang'))
        if e['reported']:
            ck.nontrivial(k)
        replay = {'server': {'moduli': list(k[0]), 'style': k[1], 'openssh': k[2], 'gex': list(k[3])}, 'expected_asked': e['asked'],
                  'expected_reported': e['reported'], 'exit': r['exit'], 'stdout': r['stdout'][-2500:]}
        if r['exit'] not in (0, 2, 3):
            exc, loc = rating.crash_signature(r)
            ck.violation('no-report exit=%s uncaught=%s at=%s' % (r['exit'], exc, loc), 'audit of a GEX server ended with status %s' % r['exit'], replay)
            continue
        # requests seen by the server, per algorithm, and the answers it gave
        seen = {}
        cur = {}
        for ev in r['events']:
            if ev.get('ev') == 'send' and ev.get('type') == 20:
                cur[ev['n']] = ev['kex'][0] if ev.get('kex') else ''
            if ev.get('ev') == 'send' and ev.get('type') == 34:
                seen.setdefault(cur.get(ev['n'], '?'), []).append([[ev['min'], ev['pref'], ev['max']], ev['answer']])
        for a in e['gex']:
            want = [[list(q[0]), q[1]] for q in e['asked'].get(a, [])]
            got = seen.get(a, [])
            if [g[0] for g in got] != [w[0] for w in want]:
                ck.violation('gex-requests alg=%s' % ('sha1' if a == GEX1 else 'sha256'),
                             '%s: the tool sent requests %r, the probe sequence of the specification is %r' % (a, [g[0] for g in got], [w[0] for w in want]), replay)
            elif [g[1] for g in got] != [w[1] for w in want]:
                raise common.Machinery('the Python server answered %r where SshAudit!Group gives %r (server %r)' % (got, want, k))
        tx = report.parse_text(r['stdout'])
        exp = exp_notes[c['id']]
        for a in e['gex']:
            line = [x for x in tx['algs']['kex'] if x['name'] == a]
            if len(line) != 1:
                ck.violation('gex-line-missing', '%s not shown exactly once' % a, replay)
                continue
            want_bits = e['reported'][a]['bits'] if a in e['reported'] else None
            if line[0]['size'] != want_bits:
                ck.violation('gex-size %s' % ('wrong' if line[0]['size'] is not None and want_bits is not None else ('spurious' if want_bits is None else 'missing')),
                             '%s: report shows %s, smallest group handed out / follow-up answer is %s' % (a, line[0]['size'], want_bits), replay)
        for sig, desc in rating.compare_notes(c, exp, text=tx):
            if 'cat=kex' in sig:
                ck.violation('gex-' + sig, desc, replay)
        if i in jres:
            jr = jres[i]
            if jr['exit'] in (0, 2, 3):
                js = report.parse_json(jr['stdout'])
                for ent in report.json_algs(js)['kex']:
                    if ent['name'] in e['gex']:
                        want_bits = e['reported'][ent['name']]['bits'] if ent['name'] in e['reported'] else None
                        if ent.get('keysize') != want_bits:
                            ck.violation('gex-size view=json', '%s: JSON keysize %s, expected %s' % (ent['name'], ent.get('keysize'), want_bits), replay)
                for sig, desc in rating.compare_notes(c, exp, js=js):
                    if 'cat=kex' in sig:
                        ck.violation('gex-' + sig, desc, replay)
        srv = audit.srv_of(server_cfg(e), True, dh_tables)
        items.append((srv, r))
    verdicts = audit.validate(ck, items)
    for (srv, r), (ok, info) in zip(items, verdicts):
        if ok:
            ck.cov['traces_validated_against_impl'] += 1
        else:
            ck.violation('trace-rejected model_pc=%s' % (info or {}).get('model_pc'), 'TraceAudit rejects the run of a cooperative GEX server: %s' % (
                {k: v for k, v in (info or {}).items() if k != 'events'}), {'srv': srv, 'info': info})
    granular_leg(ck, rnd, tier)
    faults_leg(ck, tier)
    variants_leg(ck, servers, rnd, tier)
    sequence_leg(ck)
    for k in pick[:3]:
        ck.sample({'server': {'moduli': list(k[0]), 'style': k[1], 'openssh': k[2], 'gex': list(k[3])}, 'asked': servers[k]['asked'],
                   'reported': servers[k]['reported']})
    ck.cov['rule'] = ('TLC: all 512 moduli subsets x 3 selection styles x {OpenSSH, other} x {sha1, sha256, both} = 9216 servers (exhaustive on the model); '
                      'replay: %s through the CLI; requests, answers, shown size, JSON keysize and size notes compared; traces validated against TraceAudit. '
                      'distinct non-trivial = servers for which some size is reported' % ('all' if tier == 'thorough' else 'every 4th singleton/pair policy + 500 random'))
    ck.cov['exhaustive'] = (tier == 'thorough')
    ck.assumptions += ['the fake server hands out g = 1 and a modulus of exactly the selected bit length (the tool verifies neither)']
    return ck.finish()


def faults_leg(ck, tier):
    """Group-exchange probes that go wrong at every position of the probe sequence: the k-th SSH_MSG_KEX_DH_GEX_GROUP of the audit is
    cut short inside a correctly framed packet (then the connection ends), replaced by another message type, withheld, or the
    connection is closed instead.  The size the report shows is still a size the probe loop could have recorded: the run is
    validated against TraceAudit (whose exit step binds the sizes shown to SshAudit!reported under the faults the trace shows), and
    whatever is shown is the bit length of a group the server really handed out, whole, for that algorithm."""
    from harness import fakenet, wire
    dh_tables = rating.tables()['dheat']
    arch = [dict(moduli=[3072], style='openssh', openssh=True, gex=[GEX256]), dict(moduli=[4096], style='openssh', openssh=True, gex=[GEX1, GEX256]),
            dict(moduli=[4096], style='strict', openssh=False, gex=[GEX256]), dict(moduli=[1024, 2048], style='roundup', openssh=False, gex=[GEX1, GEX256]),
            dict(moduli=[2048], style='openssh', openssh=True, gex=[GEX256]), dict(moduli=[768, 1024], style='strict', openssh=False, gex=[GEX256])]

    def truncated(d):
        # a correctly framed type-31 packet whose payload announces a 257-byte modulus and carries 100 bytes of it
        return [wire.frame(bytes([31]) + wire.u32(257) + b'\x00' + b'\xc3' * 99), fakenet.EOF]
    kinds = {'truncated-group': truncated, 'closed': lambda d: [fakenet.EOF], 'withheld': lambda d: [fakenet.STALL],
             'other-message': lambda d: [wire.frame(bytes([3]) + wire.u32(0)), fakenet.EOF],
             # a whole, well-formed group message whose modulus admits no exponent (p = 1): that probe yields nothing - and leaves nothing behind for the next one
             'degenerate-group': lambda d: [wire.frame(bytes([31]) + wire.mpint(1) + wire.mpint(2))],
             # the group arrives whole, the answer to the client's KEX_DH_GEX_INIT never does (closed / silent): the group was handed out all the same
             'reply-closed': ('gexreply', lambda d: [fakenet.EOF]), 'reply-withheld': ('gexreply', lambda d: [fakenet.STALL])}
    scs, meta = [], []
    for ai, a in enumerate(arch):
        for kname, fn in sorted(kinds.items()):
            msgkind = 'gexgroup'
            if isinstance(fn, tuple):
                msgkind, fn = fn
            for k in range(1, 13 if tier == 'quick' else 19):
                for view in (('-n',) if (k + ai) % 3 else ('-n', '-j')):
                    cfg = server_cfg(a)
                    state = {'seen': 0}

                    def mutate(n, kind, idx, data, k=k, fn=fn, state=state, msgkind=msgkind):
                        if kind == msgkind:
                            state['seen'] += 1
                            if state['seen'] == k:
                                return fn(data)
                        return [data]
                    cfg['mutate'] = mutate
                    scs.append({'argv': [view, '--skip-rate-test', '-t', '3', audit.HOST], 'servers': {(audit.HOST, 22): cfg}})
                    meta.append((a, kname, k, view))
    # the server goes away part-way through the probe sequence: every connection after the j-th is refused.  What is shown is what the
    # probe loop recorded up to there - by the loop's own rule (a probe that cannot be made ends the sequence without a size)
    arch2 = arch + [dict(moduli=[1024, 2048], style='openssh', openssh=False, gex=[GEX256]), dict(moduli=[1024, 2048], style='openssh', openssh=False, gex=[GEX1, GEX256]),
                    dict(moduli=[1536, 3072], style='openssh', openssh=False, gex=[GEX256])]
    for ai, a in enumerate(arch2):
        for j in range(3, 14 if tier == 'quick' else 22):
            for view in (('-n',) if (j + ai) % 3 else ('-n', '-j')):
                cfg = server_cfg(a)
                cfg['refuse_after'] = j
                scs.append({'argv': [view, '--skip-rate-test', '-t', '3', audit.HOST], 'servers': {(audit.HOST, 22): cfg}})
                meta.append((a, 'goes-away', 1000 + j, view))
    results = runner.run_many(scs)
    items, imeta = [], []
    for (a, kname, k, view), sc, r in zip(meta, scs, results):
        ck.evaluated()
        replay = {'server': a, 'fault': kname, 'at_group_message': k, 'argv': sc['argv'], 'exit': r.get('exit'), 'stdout': (r.get('stdout') or '')[-2500:]}
        if r.get('harness_error'):
            raise common.Machinery('run failed: %r' % r.get('harness_error'))
        if r.get('hang'):
            ck.violation('gex-fault-run-did-not-complete fault=%s' % kname, 'the audit never ended', replay)
            continue
        if r['exit'] not in (0, 2, 3):
            exc, loc = rating.crash_signature(r)
            ck.violation('no-report exit=%s uncaught=%s at=%s' % (r['exit'], exc, loc), 'audit of a GEX server whose %d-th group message is %s ended with status %s' % (k, kname, r['exit']), replay)
            continue
        # what the server handed out whole, per algorithm
        handed, cur = {}, {}
        faulted_conn = set()
        for ev in r['events']:
            if ev.get('ev') == 'send' and ev.get('type') == 20:
                cur[ev['n']] = ev['kex'][0] if ev.get('kex') else ''
            if ev.get('ev') == 'send' and ev.get('type') == 34:
                handed.setdefault(cur.get(ev['n'], '?'), []).append((ev['n'], ev['answer']))
        known, s1, s256 = audit.shown_gex_sizes(dict(r, argv=sc['argv']))
        if not known:
            ck.violation('gex-fault-report-unreadable', 'the report of the run cannot be read', replay)
            continue
        nth = 0
        whole = {}
        for alg in (GEX1, GEX256):          # (the probe order of the tool: sha1 first)
            for n, ans in handed.get(alg, []):
                if ans:
                    nth += 1
                    if nth != k or kname.startswith('reply-'):
                        whole.setdefault(alg, set()).add(ans)
        bad = False
        for alg, shown in ((GEX1, s1), (GEX256, s256)):
            if shown and shown not in whole.get(alg, set()):
                ck.violation('gex-size-not-a-group-handed-out fault=%s' % kname, '%s: the report shows %d bits; the groups the server handed out whole for it are %r (its %d-th group message was %s)'
                             % (alg, shown, sorted(whole.get(alg, set())), k, kname), replay)
                bad = True
        if bad:
            continue
        ck.nontrivial(('gex-fault', json.dumps(a, sort_keys=True), kname, k, view))
        items.append((audit.srv_of(server_cfg(a), True, dh_tables, argv=sc['argv']), dict(r, argv=sc['argv'])))
        imeta.append((a, kname, k, replay))
    for (a, kname, k, replay), (ok, info) in zip(imeta, audit.validate(ck, items)):
        if ok:
            ck.cov['traces_validated_against_impl'] += 1
        else:
            ck.violation('gex-fault-trace-rejected fault=%s model_pc=%s' % (kname, (info or {}).get('model_pc')),
                         'TraceAudit rejects the run (server %r, %d-th group message %s): %s' % (a, k, kname, {x: v for x, v in (info or {}).items() if x != 'events'}), dict(replay, info=info))


def sequence_leg(ck):
    """Several servers in one invocation (-T): the size shown for a server is what was measured on that server - a server that
    refuses every group-exchange request gets no size, whatever was measured on the server audited before it."""
    import json
    from checks import multi
    def srv(moduli, style='roundup', refuse=False):
        return peers.ServerCfg(banner=b'SSH-2.0-Generic_1.0', kexinit={'kex': ['curve25519-sha256', GEX256, GEX1], 'key': ['ssh-ed25519'], 'enc': ['aes128-ctr'],
                                                                    'mac': ['hmac-sha2-256'], 'comp': ['none']},
                               hostkeys={'ssh-ed25519': peers.ed25519_blob()}, gex=None if refuse else {'style': style, 'moduli': moduli})
    shapes = [('m1024', srv([1024, 2048]), 1024), ('refuses', srv([], refuse=True), None), ('m4096', srv([4096]), 4096), ('strict-none', srv([], style='strict'), None),
              ('m2048', srv([2048]), 2048), ('m3072', srv([3072, 4096]), 3072)]
    # each server alone: the notes its group-exchange lines carry (size notes included) are the reference for every position in a list
    refs = []
    for name, cfg, _ in shapes:
        rr = runner.run_one(multi.single_scenario(('server', cfg), 0, json_out=True))
        if rr.get('harness_error') or rr.get('hang') or rr.get('exit') not in (0, 2, 3):
            raise common.Machinery('single-target reference run failed for %s' % name)
        refs.append(json.loads(rr['stdout']).get('kex'))
    scs = []
    for order in ((0, 1), (0, 1, 2, 3), (2, 3, 0, 1), (1, 0), (3, 2, 1, 0), (4, 2), (4, 5, 2), (0, 4, 5), (5, 4, 0, 2)):
        for threads in (1, 2):
            sc, labels = multi.scenario([('server', shapes[i][1]) for i in order], threads, tuple(range(len(order))) if threads == 1 else None, json_out=True)
            scs.append((sc, labels, order, threads))
    for (sc, labels, order, threads), r in zip(scs, runner.run_many([x[0] for x in scs])):
        ck.evaluated()
        if r.get('harness_error') or r.get('hang'):
            raise common.Machinery('target-list run failed: %r' % (r.get('harness_error') or 'hang'))
        replay = {'order': [shapes[i][0] for i in order], 'threads': threads, 'argv': sc['argv'], 'exit': r['exit'], 'stdout': r['stdout'][-2500:]}
        try:
            docs = {el['target']: el for el in json.loads(r['stdout'])}
        except (ValueError, KeyError, TypeError):
            ck.violation('sequence-json-unparsable', 'stdout of a -T -j run of healthy servers is not a JSON array of reports', replay)
            continue
        bad = False
        for lab, i in zip(labels, order):
            want = shapes[i][2]
            for ent in report.json_algs(docs.get(lab, {})).get('kex', []):
                if ent['name'] in (GEX1, GEX256) and ent.get('keysize') != want:
                    ck.violation('gex-size sequence %s' % ('spurious' if want is None else 'wrong'),
                                 'server %s audited as target %d of %r (%d thread(s)): %s shown with %s bits, measured on this server: %s'
                                 % (shapes[i][0], order.index(i) + 1, [shapes[j][0] for j in order], threads, ent['name'], ent.get('keysize'), want), replay)
                    bad = True
            if not bad and docs.get(lab, {}).get('kex') != refs[i]:
                ck.violation('gex-notes sequence', 'server %s audited as target %d of %r (%d thread(s)): its key-exchange lines (sizes and notes) differ from those of its single-target audit'
                             % (shapes[i][0], order.index(i) + 1, [shapes[j][0] for j in order], threads), dict(replay, single_target_kex=refs[i], in_list_kex=docs.get(lab, {}).get('kex')))
                bad = True
        if not bad:
            ck.cov['traces_validated_against_impl'] += 1
            ck.nontrivial(('sequence', order, threads))


def variants_leg(ck, servers, rnd, tier):
    """(a) Moduli whose bit length is not a multiple of 8, just below and above the thresholds: the size reported is the bit length of
    the modulus handed out, not a rounded one.  (b) OpenSSH servers whose identification string is not of the usual
    `OpenSSH_<version>` form: the follow-up probe and the fallback note depend on the server being OpenSSH, not on the form."""
    cases, cfgs, meta = [], [], []

    def add(kex_algs, moduli, style, banner, dh, what, asked=None, enc=('aes128-ctr',), mac=('hmac-sha2-256',)):
        c = rating.mk_case(len(cases) + 1, kex=['curve25519-sha256'] + kex_algs, key=['ssh-ed25519'], enc=list(enc), mac=list(mac), dh=dh, banner=banner)
        cases.append(c)
        cfgs.append(peers.ServerCfg(banner=banner.encode(), kexinit={'kex': ['curve25519-sha256'] + kex_algs, 'key': ['ssh-ed25519'], 'enc': list(enc),
                                                                     'mac': list(mac), 'comp': ['none']},
                                    hostkeys={'ssh-ed25519': peers.ed25519_blob()}, gex={'style': style, 'moduli': list(moduli)}))
        meta.append((what, asked))
    for m in (1023, 1025, 2047, 2049, 3071, 3073, 4095, 8191):
        for algs in ([GEX256], [GEX1, GEX256]):
            add(algs, [m], 'roundup', 'SSH-2.0-Generic_1.0', {a: (m, False) for a in algs}, 'odd-size')
    # SSH_MSG_DEBUG messages in front of the group and of the reply (legal at any time): the group is handed out all the same
    for k in (1, 2, 3):
        for moduli, style in (([1024], 'roundup'), ([2048, 4096], 'strict'), ([3072], 'roundup')):
            smallest = min(moduli)
            add([GEX1, GEX256], moduli, style, 'SSH-2.0-Generic_1.0', {a: (smallest, False) for a in (GEX1, GEX256)}, 'debug-before-group')
            cfgs[-1]['debug_kinds'] = {'gexgroup': k, 'gexreply': k}
    # servers that negotiate (RFC 4253 7.1: a client sharing no cipher / compression method with them is disconnected) and offer lists a
    # client would not guess: the probes reach them all the same
    for enc, mac in ((('aes128-cbc', '3des-cbc'), ('hmac-sha1',)), (('twofish256-cbc',), ('hmac-ripemd160',)), (('aes128-ctr',), ('hmac-sha2-256',))):
        for moduli, style in (([1024, 2048], 'strict'), ([1024], 'roundup'), ([4096], 'roundup')):
            add([GEX1, GEX256], moduli, style, 'SSH-2.0-Generic_1.0', {a: (min(moduli), False) for a in (GEX1, GEX256)}, 'negotiating-server', enc=enc, mac=mac)
            cfgs[-1]['negotiate'] = True
    fb = [k for k in sorted(servers) if k[2] and k[1] == 'openssh' and servers[k]['reported'] and all(v['fallback'] for v in servers[k]['reported'].values())]
    for k in rnd.sample(fb, min(len(fb), 6 if tier == 'quick' else 40)):
        e = servers[k]
        for banner in ('SSH-2.0-OpenSSH_for_Windows_8.1', 'SSH-2.0-OpenSSH', 'SSH-2.0-OpenSSH_8.9p1 Ubuntu-3ubuntu0.6', 'SSH-2.0-OpenSSH-hardened'):
            algs = [a for a in (GEX256, GEX1) if a in e['gex']]
            add(algs, k[0], 'openssh', banner, {a: (v['bits'], v['fallback']) for a, v in e['reported'].items()}, 'openssh-banner-form', asked=e['asked'])
    exp = rating.evaluate(ck, cases, workers=None)
    scs = [{'argv': [v, '--skip-rate-test', audit.HOST], 'servers': {(audit.HOST, 22): cfg}} for cfg in cfgs for v in ('-n', '-j')]
    res = runner.run_many(scs)
    for i, (c, cfg, (what, asked)) in enumerate(zip(cases, cfgs, meta)):
        for j, view in enumerate(('text', 'json')):
            r = res[2 * i + j]
            ck.evaluated()
            if r.get('harness_error') or r.get('hang'):
                raise common.Machinery('run failed: %r' % (r.get('harness_error') or 'hang'))
            replay = {'what': what, 'banner': c['banner'], 'moduli': cfg['gex']['moduli'], 'style': cfg['gex']['style'], 'expected': c['dh'], 'exit': r['exit'],
                      'stdout': r['stdout'][-2500:]}
            if r['exit'] not in (0, 2, 3):
                ck.violation('no-report exit=%s kind=%s' % (r['exit'], what), 'audit ended with status %s' % r['exit'], replay)
                continue
            bad = False
            if view == 'text':
                tx = report.parse_text(r['stdout'])
                for a, (bits, _) in c['dh'].items():
                    line = [x for x in tx['algs']['kex'] if x['name'] == a]
                    if len(line) != 1 or line[0]['size'] != bits:
                        ck.violation('gex-size wrong kind=%s' % what, '%s: report shows %s, the server hands out %d bits' % (a, line[0]['size'] if line else None, bits), replay)
                        bad = True
                diffs = rating.compare_notes(c, exp[c['id']], text=tx)
            else:
                js = report.parse_json(r['stdout'])
                for ent in report.json_algs(js)['kex']:
                    if ent['name'] in c['dh'] and ent.get('keysize') != c['dh'][ent['name']][0]:
                        ck.violation('gex-size view=json kind=%s' % what, '%s: JSON keysize %s, the server hands out %d bits' % (ent['name'], ent.get('keysize'), c['dh'][ent['name']][0]), replay)
                        bad = True
                diffs = rating.compare_notes(c, exp[c['id']], js=js)
            for sig, desc in diffs:
                if 'cat=kex' in sig:
                    ck.violation('gex-' + sig + ' kind=%s' % what, desc, replay)
                    bad = True
            if asked is not None and view == 'text':
                seen, cur = {}, {}
                for ev in r['events']:
                    if ev.get('ev') == 'send' and ev.get('type') == 20:
                        cur[ev['n']] = ev['kex'][0] if ev.get('kex') else ''
                    if ev.get('ev') == 'send' and ev.get('type') == 34:
                        seen.setdefault(cur.get(ev['n'], '?'), []).append([ev['min'], ev['pref'], ev['max']])
                for a in c['dh']:
                    want = [list(q[0]) for q in asked.get(a, [])]
                    if seen.get(a, []) != want:
                        ck.violation('gex-requests kind=%s' % what, '%s: requests %r, the probe sequence for an OpenSSH server is %r' % (a, seen.get(a, []), want), replay)
                        bad = True
            if not bad:
                ck.cov['traces_validated_against_impl'] += 1
                ck.nontrivial((what, c['banner'], tuple(cfg['gex']['moduli']), view))


def granular_leg(ck, rnd, tier):
    """-g <list | range | min:pref:max triples>: the sizes reported per algorithm are the distinct groups the server hands out for
    the requests, in order (expected from SshAudit!Group via TLC)."""
    import json
    cases, argvs = [], []
    for _ in range(40 if tier == 'quick' else 400):
        moduli = sorted(rnd.sample(peers.ALL_MODULI, rnd.randint(1, 4)))
        style = rnd.choice(['strict', 'roundup', 'openssh'])
        form = rnd.choice(['list', 'range', 'triples'])
        if form == 'list':
            vals = [rnd.choice([512, 1024, 1536, 2048, 3072, 4096, 8192]) for _ in range(rnd.randint(1, 4))]
            arg = ','.join(str(v) for v in vals)
            reqs = [[v, v, v] for v in vals]
        elif form == 'range':
            a = rnd.choice([1024, 2048, 3072])
            step = rnd.choice([512, 1024])
            b = a + step * rnd.randint(1, 3)
            if rnd.random() < 0.3:
                a, b = b, a
            arg = '%d-%d:%d' % (a, b, step)
            vals = list(range(a, b + 1, step)) if a <= b else list(range(a, b - 1, -step))
            reqs = [[v, v, v] for v in vals]
        else:
            reqs = []
            for _ in range(rnd.randint(1, 3)):
                mn = rnd.choice([512, 1024, 2048])
                pf = mn + rnd.choice([0, 1024, 2048])
                mx = pf + rnd.choice([0, 1024, 4096])
                reqs.append([mn, pf, mx])
            arg = ','.join('%d:%d:%d' % tuple(r) for r in reqs)
        cases.append({'moduli': moduli, 'style': style, 'reqs': reqs})
        argvs.append(arg)
    res = tlc.run('MC_SshAudit', audit.mc_cfg('NoServers', 0), generated={'g.json': json.dumps(cases)}, env={'VERIF_GRANULAR': 'g.json'}, workers=1)
    ck.add_tlc(res)
    exp = [p for p in res.prints if isinstance(p, list) and len(p) == len(cases)]
    common.require(len(exp) >= 1, 'TLC did not emit the granular expectations: %s' % res.error_text)
    exp = exp[0]
    scs = []
    for c, arg in zip(cases, argvs):
        cfg = peers.ServerCfg(banner=b'SSH-2.0-Generic_1.0', kexinit={'kex': ['curve25519-sha256', GEX256, GEX1], 'key': ['ssh-ed25519'], 'enc': ['aes128-ctr'],
                                                                    'mac': ['hmac-sha2-256'], 'comp': ['none']},
                              hostkeys={'ssh-ed25519': peers.ed25519_blob()}, gex={'style': c['style'], 'moduli': c['moduli']})
        scs.append({'argv': ['-j', '-g', arg, audit.HOST], 'servers': {(audit.HOST, 22): cfg}})
    gruns = runner.run_many(scs)
    # the connection pattern of every -g run against TraceAudit (one probe per request and algorithm, nothing else after the host-key probes)
    dh = rating.tables()['dheat']
    items = [(audit.srv_of(sc['servers'][(audit.HOST, 22)], True, dh, argv=sc['argv'], granular=c['reqs']), r) for c, sc, r in zip(cases, scs, gruns)
             if not (r.get('harness_error') or r.get('hang'))]
    for (srv, r), (ok, info) in zip(items, audit.validate(ck, items)):
        if ok:
            ck.cov['traces_validated_against_impl'] += 1
        else:
            ck.violation('granular-trace-rejected model_pc=%s' % (info or {}).get('model_pc'),
                         'TraceAudit rejects a -g run (requests %r): %s' % (srv['granular'], {k: v for k, v in (info or {}).items() if k != 'events'}),
                         {'srv': srv, 'info': info})
    for c, arg, e, r in zip(cases, argvs, exp, gruns):
        ck.evaluated()
        if r.get('harness_error') or r.get('hang'):
            raise common.Machinery('granular run failed: %r' % (r.get('harness_error') or 'hang'))
        replay = {'server': c, 'argv': ['-g', arg], 'expected': e, 'exit': r['exit'], 'stdout': r['stdout'][-1500:]}
        try:
            doc = json.loads(r['stdout']) if r['stdout'].strip() else {}
        except ValueError:
            ck.violation('granular-json-unparsable', '-g %s: output is not JSON' % arg, replay)
            continue
        got = doc.get('dh-gex-modulus-size', {})
        want = {a: list(e) for a in (GEX1, GEX256)} if e else {}
        if got != want or r['exit'] != 0:
            ck.violation('granular-sizes', '-g %s against moduli %r (%s): reports %r (status %r), the server hands out %r' % (arg, c['moduli'], c['style'], got, r['exit'], e), replay)
        else:
            ck.cov['traces_validated_against_impl'] += 1
            ck.nontrivial(('granular', arg, tuple(c['moduli']), c['style']))
    # a size that does not fit the 32-bit field of the request cannot be sent: that request yields nothing - and costs the other requests
    # of the same run nothing (what is reported for them is what is reported without it)
    big = str(1 << 32)
    cfg = peers.ServerCfg(banner=b'SSH-2.0-Generic_1.0', kexinit={'kex': ['curve25519-sha256', GEX256, GEX1], 'key': ['ssh-ed25519'], 'enc': ['aes128-ctr'],
                                                                'mac': ['hmac-sha2-256'], 'comp': ['none']},
                          hostkeys={'ssh-ed25519': peers.ed25519_blob()}, gex={'style': 'roundup', 'moduli': [2048, 4096]})
    pairs = [('2048,4096', '2048,%s,4096' % big), ('4096', '%s,4096' % big), ('2048:3072:4096,1024:2048:4096', '2048:3072:4096,2048:3072:%s,1024:2048:4096' % big)]
    runs = runner.run_many([{'argv': ['-j', '-g', a, audit.HOST], 'servers': {(audit.HOST, 22): cfg}} for pr in pairs for a in pr])
    for k, (plain, withbig) in enumerate(pairs):
        r0, r1 = runs[2 * k], runs[2 * k + 1]
        ck.evaluated()
        replay = {'argv': ['-g', withbig], 'exit': r1.get('exit'), 'stdout': (r1.get('stdout') or '')[-1500:], 'without_the_oversized_request': (r0.get('stdout') or '')[-800:]}
        if r0.get('harness_error') or r0.get('hang') or r1.get('harness_error'):
            raise common.Machinery('granular run failed')
        if r1.get('hang'):
            ck.violation('granular-oversized-request-run-never-ends', '-g %s never ends' % withbig, replay)
            continue
        bad = [e_ for e_ in r1['events'] if e_.get('ev') in ('framing_violation', 'protocol_violation', 'srv_decode_error')]
        try:
            s0 = json.loads(r0['stdout']).get('dh-gex-modulus-size', {})
            s1 = json.loads(r1['stdout']).get('dh-gex-modulus-size', {}) if r1['stdout'].strip() else {}
        except ValueError:
            ck.violation('granular-json-unparsable', '-g %s: output is not JSON' % withbig, replay)
            continue
        if bad:
            ck.violation('granular-oversized-request-spoils-next-connection', '-g %s: %s' % (withbig, bad[0].get('what') or bad[0]), dict(replay, events=bad[:3]))
        elif s1 != s0:
            ck.violation('granular-oversized-request-costs-other-requests', '-g %s reports %r; without the request that cannot be sent: %r' % (withbig, s1, s0), replay)
        else:
            ck.cov['traces_validated_against_impl'] += 1
            ck.nontrivial(('granular-oversized', withbig))
